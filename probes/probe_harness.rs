#[cfg(kani)]
mod h {
    use rnacos::raft::filestore::model::LogRecordDto;
    use rnacos::raft::filestore::raftlog::{LogInnerManager, LogWriteMark};
    use std::future::Future;
    use std::pin::Pin;
    use std::task::{Context, Poll, RawWaker, RawWakerVTable, Waker};

    fn noop_waker() -> Waker {
        fn clone(_: *const ()) -> RawWaker { RawWaker::new(std::ptr::null(), &VT) }
        fn noop(_: *const ()) {}
        static VT: RawWakerVTable = RawWakerVTable::new(clone, noop, noop, noop);
        unsafe { Waker::from_raw(RawWaker::new(std::ptr::null(), &VT)) }
    }
    fn run<F: Future>(f: F) -> F::Output {
        let waker = noop_waker();
        let mut cx = Context::from_waker(&waker);
        let mut f = Box::pin(f);
        match Pin::as_mut(&mut f).poll(&mut cx) {
            Poll::Ready(v) => v,
            Poll::Pending => panic!("simfs future pending"),
        }
    }

    fn bt_stub() -> std::backtrace::Backtrace { std::backtrace::Backtrace::disabled() }
    fn fmt_stub(_args: std::fmt::Arguments<'_>) -> String { String::new() }

    #[kani::proof]
    #[kani::unwind(1030)]
    #[kani::stub(std::fmt::format, fmt_stub)]
    #[kani::stub(std::backtrace::Backtrace::capture, bt_stub)]
    fn log_init_only() {
        let mgr = run(LogInnerManager::init("l".to_string(), 0, 0, 0)).unwrap();
        assert_eq!(mgr.get_end_index(), 0);
        std::mem::forget(mgr);
    }

    #[kani::proof]
    #[kani::unwind(1030)]
    #[kani::stub(std::fmt::format, fmt_stub)]
    #[kani::stub(std::backtrace::Backtrace::capture, bt_stub)]
    fn log_init_write_reopen() {
        let mut mgr = run(LogInnerManager::init("l".to_string(), 0, 0, 0)).unwrap();
        let rec = LogRecordDto { index: 0, term: 1, value: vec![7u8, 8, 9] };
        let m = run(mgr.write(&rec)).unwrap();
        assert!(matches!(m, LogWriteMark::Success));
        assert_eq!(mgr.get_end_index(), 1);
        std::mem::forget(mgr);
        let mgr2 = run(LogInnerManager::init("l".to_string(), 0, 0, 0)).unwrap();
        assert_eq!(mgr2.get_end_index(), 1);
        std::mem::forget(mgr2);
    }
}
