#[cfg(kani)]
mod h {
    use rnacos::raft::filestore::model::LogRecordDto;
    use rnacos::raft::filestore::raftlog::{LogInnerManager, LogWriteMark};
    use std::future::Future;
    use std::pin::Pin;
    use std::task::{Context, Poll, RawWaker, RawWakerVTable, Waker};

    fn noop_waker() -> Waker {
        fn clone(_: *const ()) -> RawWaker { RawWaker::new(std::ptr::null(), &VT) }
        fn noop(_: *const ()) {}
        static VT: RawWakerVTable = RawWakerVTable::new(clone, noop, noop, noop);
        unsafe { Waker::from_raw(RawWaker::new(std::ptr::null(), &VT)) }
    }
    fn run<F: Future>(f: F) -> F::Output {
        let waker = noop_waker();
        let mut cx = Context::from_waker(&waker);
        let mut f = Box::pin(f);
        match Pin::as_mut(&mut f).poll(&mut cx) {
            Poll::Ready(v) => v,
            Poll::Pending => panic!("simfs future pending"),
        }
    }

    fn bt_stub() -> std::backtrace::Backtrace { std::backtrace::Backtrace::disabled() }
    fn fmt_stub(_args: std::fmt::Arguments<'_>) -> String { String::new() }

    #[kani::proof]
    #[kani::unwind(1030)]
    #[kani::stub(std::fmt::format, fmt_stub)]
    #[kani::stub(std::backtrace::Backtrace::capture, bt_stub)]
    fn log_init_only() {
        let mgr = run(LogInnerManager::init("l".to_string(), 0, 0, 0)).unwrap();
        assert_eq!(mgr.get_end_index(), 0);
        std::mem::forget(mgr);
    }

    #[kani::proof]
    #[kani::unwind(1030)]
    #[kani::stub(std::fmt::format, fmt_stub)]
    #[kani::stub(std::backtrace::Backtrace::capture, bt_stub)]
    fn log_init_write_reopen() {
        let mut mgr = run(LogInnerManager::init("l".to_string(), 0, 0, 0)).unwrap();
        let rec = LogRecordDto { index: 0, term: 1, value: vec![7u8, 8, 9] };
        let m = run(mgr.write(&rec)).unwrap();
        assert!(matches!(m, LogWriteMark::Success));
        assert_eq!(mgr.get_end_index(), 1);
        std::mem::forget(mgr);
        let mgr2 = run(LogInnerManager::init("l".to_string(), 0, 0, 0)).unwrap();
        assert_eq!(mgr2.get_end_index(), 1);
        std::mem::forget(mgr2);
    }
}

#[cfg(kani)]
mod h2 {
    use actix::prelude::*;
    use rnacos::config::core::{ConfigActor, ConfigCmd, ConfigKey, ConfigResult};
    use rnacos::config::model::ConfigRaftCmd;
    use std::sync::Arc;

    fn bt_stub() -> std::backtrace::Backtrace { std::backtrace::Backtrace::disabled() }

    #[kani::proof]
    #[kani::unwind(40)]
    #[kani::stub(std::backtrace::Backtrace::capture, bt_stub)]
    fn config_two_publishes_then_get() {
        let mut actor = ConfigActor::new();
        let mut ctx = Context::new();
        let pick_b: bool = kani::any();
        let c1 = Arc::new("A".to_string());
        let c2 = Arc::new(if pick_b { "B".to_string() } else { "A".to_string() });
        let key = "d\x02g".to_string();
        let _ = <ConfigActor as Handler<ConfigRaftCmd>>::handle(&mut actor, ConfigRaftCmd::ConfigAdd {
            key: key.clone(), value: c1, config_type: None, desc: None, history_id: 1,
            history_table_id: None, op_time: 1, op_user: None }, &mut ctx);
        let _ = <ConfigActor as Handler<ConfigRaftCmd>>::handle(&mut actor, ConfigRaftCmd::ConfigAdd {
            key: key.clone(), value: c2.clone(), config_type: None, desc: None, history_id: 2,
            history_table_id: None, op_time: 2, op_user: None }, &mut ctx);
        let r = <ConfigActor as Handler<ConfigCmd>>::handle(&mut actor, ConfigCmd::GET(ConfigKey::new("d", "g", "")), &mut ctx);
        match r {
            Ok(ConfigResult::Data { value, .. }) => assert!(value.as_str() == c2.as_str()),
            _ => assert!(false),
        }
        std::mem::forget(actor);
        std::mem::forget(ctx);
    }
}

#[cfg(kani)]
mod h3 {
    #[kani::proof]
    #[kani::unwind(70)]
    fn md5_only() {
        let s = rnacos::utils::get_md5("A");
        assert!(s.len() == 32);
    }
    #[kani::proof]
    #[kani::unwind(10)]
    fn actor_new_only() {
        let a = rnacos::config::core::ConfigActor::new();
        std::mem::forget(a);
    }
    #[kani::proof]
    #[kani::unwind(10)]
    fn hashmap_only() {
        let mut m: std::collections::HashMap<std::sync::Arc<String>, u64> = std::collections::HashMap::new();
        let b: bool = kani::any();
        m.insert(std::sync::Arc::new(if b { "x".to_string() } else { "y".to_string() }), 1);
        m.insert(std::sync::Arc::new("y".to_string()), 2);
        assert!(m.len() == if b { 2 } else { 1 });
        std::mem::forget(m);
    }
}

#[cfg(kani)]
mod h4 {
    use actix::prelude::*;
    #[kani::proof]
    #[kani::unwind(10)]
    fn ctx_only() {
        let ctx: Context<rnacos::config::core::ConfigActor> = Context::new();
        std::mem::forget(ctx);
    }
    #[kani::proof]
    #[kani::unwind(10)]
    fn key_only() {
        let k: rnacos::config::core::ConfigKey = "d\x02g".into();
        assert!(k.build_key().len() == 3);
    }
}
