import z3, time
def ci(lit):
    parts=[]
    for ch in lit:
        if ch.isalpha():
            parts.append(z3.Union(z3.Re(ch.lower()), z3.Re(ch.upper())))
        else:
            parts.append(z3.Re(ch))
    return z3.Concat(*parts) if len(parts)>1 else parts[0]
anyc = z3.Star(z3.AllChar(z3.ReSort(z3.StringSort())))
api = z3.Concat(anyc, ci("/nacos/"), anyc)       # unanchored is_match of (?i)/nacos/.*
rn  = z3.Concat(anyc, ci("/rnacos/v1/"), anyc)
p = z3.String('p')
seg = z3.Plus(z3.Union(z3.Range('a','z'),z3.Range('A','Z'),z3.Range('0','9'),z3.Re('-'),z3.Re('_'),z3.Re('.')))
routes = ["/nacos/v1/cs/configs","/nacos/v1/ns/instance","/rnacos/v1/foo","/rnacos/backup","/rnacos/mcp/{}/{}"]
ignore = ["/nacos/v1/auth/login","/nacos/metrics"]
t=time.time()
for r in routes:
    parts=r.split("{}")
    rexp=[]
    for i,pt in enumerate(parts):
        if pt: rexp.append(z3.Re(pt))
        if i<len(parts)-1: rexp.append(seg)
    rl = z3.Concat(*rexp) if len(rexp)>1 else rexp[0]
    s=z3.Solver()
    s.add(z3.InRe(p, rl))
    s.add(z3.Not(z3.And(z3.Or(z3.InRe(p,api),z3.InRe(p,rn)), z3.And(*[p!=z3.StringVal(i) for i in ignore]))))
    print(r, s.check(), s.model() if s.check()==z3.sat else '')
print("time",time.time()-t)
