"""C01 — the MCP registry's snapshot can be loaded in file order.

McpManager::load_snapshot_record (src/mcp/core.rs) resolves the tools of a server record against the tool specs that are already
loaded (McpServer::from_do(.., &self.tool_spec_map)); records are replayed in the order build_snapshot wrote them. So every tool
spec record has to precede every server record. McpManager::build_snapshot is evaluated from source on a registry with two tool
specs and two servers (values opaque: only the emission order and the tree names matter) with a recording snapshot writer.
"""
import time

import z3

from . import rseval, rsparse
from .common import load_program
from .rseval import Struct, Enum, NONE, Some, Ok, Uninterp

FILES = ["src/mcp/core.rs", "src/common/constant.rs"]


class Writer:
    def __init__(self):
        self.ty = "SnapshotWriterAddr"
        self.records = []


def run(tier, seed):
    t0 = time.time()
    ob = {"engine": "smt", "harness": "s01_4_mcp_snapshot_record_order", "encodes_files": FILES, "queries": 0, "solver_s": 0.0, "distinct": 0,
          "encodes": ["McpManager::build_snapshot", "McpManager::load_snapshot_record (dependency: McpServer::from_do reads tool_spec_map)"],
          "bound": "a registry with 2 tool specs and 2 servers (contents opaque); the order of the records handed to the snapshot writer"}
    try:
        prog = load_program(FILES)
        it = rseval.Interp(prog)
        it.lenient = True
        it.models[("SnapshotWriterAddr", "do_send")] = lambda interp, recv, args: recv.records.append(args[0]) or ()
        it.fn_models["Writer::new"] = lambda interp, args: Struct("PbWriter", {})
        it.models[("PbWriter", "write_message")] = lambda interp, recv, args: Ok(())
        it.fn_models["id_to_bin"] = lambda interp, args: [args[0]]
        # does load_snapshot_record really depend on the tool specs? (if that dependency disappears the order does not matter any more)
        import os
        from .common import REPO
        src = open(os.path.join(REPO, "src/mcp/core.rs")).read()
        at = src.find("fn load_snapshot_record")
        depends = at >= 0 and "tool_spec_map" in src[at:at + 900].split("fn ", 2)[1]
        mgr = Struct("McpManager", {
            "tool_spec_map": {Struct("ToolKey", {"namespace": "n", "group": "g", "tool_name": "t%d" % i}): Uninterp("tool_spec_%d" % i, []) for i in range(2)},
            "server_map": {7 + i: Uninterp("server_%d" % i, []) for i in range(2)},
        })
        w = Writer()

        def thunk():
            del w.records[:]
            r = it.call_method("McpManager", "build_snapshot", mgr, [w])
            return r, [x for x in w.records]
        paths = it.explore(thunk)
        viol = None
        ok_paths = 0
        for pc, rr, exc in paths:
            if exc is not None:
                viol = {"message": "panic in McpManager::build_snapshot: %s" % exc, "tags": ["panic"], "model": {}}
                break
            r, recs = rr
            if not (isinstance(r, Enum) and r.variant == "Ok"):
                continue   # a serialisation error path (opaque to_do / write_message answering Err)
            trees = []
            for m in recs:
                recd = m.payload[0] if isinstance(m, Enum) and m.payload else (m.args[0] if isinstance(m, Uninterp) and m.args else m)
                trees.append(str(recd["tree"]) if isinstance(recd, Struct) else str(recd))
            specs = [i for i, t in enumerate(trees) if "TOOL_SPEC" in t.upper() or "tool_spec" in t.lower()]
            servers = [i for i, t in enumerate(trees) if i not in specs]
            ok_paths += 1
            if len(specs) != 2 or len(servers) != 2:
                viol = {"message": "the snapshot of a registry with 2 tool specs and 2 servers holds %d tool-spec and %d server records" % (len(specs), len(servers)), "tags": ["mcp-snapshot-incomplete"],
                        "model": {"trees": trees}}
                break
            if depends and min(servers) < max(specs):
                viol = {"message": "the MCP snapshot writes a server record before a tool-spec record (order %s): on load the server's tools are resolved against tool specs that are not loaded yet" % trees,
                        "tags": ["mcp-snapshot-order"], "model": {"trees": trees}}
                break
        ob["queries"] = it.queries
        ob["solver_s"] = round(time.time() - t0, 1)
        ob["sample"] = {"paths_explored": len(paths), "complete_snapshots": ok_paths, "load_depends_on_tool_specs": bool(depends), "opaque_symbols": sorted(it.opaque_seen)[:12]}
        if viol:
            ob.update({"verdict": "violation", "message": viol["message"], "tags": viol["tags"], "counterexample": viol["model"]})
        elif ok_paths == 0:
            ob.update({"verdict": "inconclusive", "message": "reachability witness never reached: a complete snapshot"})
        else:
            ob.update({"verdict": "discharged", "distinct": ok_paths})
    except rsparse.Unsupported as e:
        ob.update({"verdict": "inconclusive", "message": "encoder met source it cannot encode: %s" % e})
    return ob


if __name__ == "__main__":
    ob = run("quick", 0)
    print(ob["harness"], ob.get("verdict"), str(ob.get("message", ""))[:700], str(ob.get("counterexample"))[:400], ob.get("queries"), ob.get("solver_s"), str(ob.get("sample"))[:500])
