"""A tokenizer and recursive-descent parser for the subset of Rust that /repo's decision code uses.

Engine S reads /repo's *current* source text on every run; anything this parser does not understand
raises Unsupported, which the obligations turn into INCONCLUSIVE (never a pass, never a violation).

AST nodes are tuples: (kind, ...). Expressions:
  ('lit', value, kind)            kind in int|str|bool|char|float|bytes
  ('path', [segments])            segments are strings; generic args dropped
  ('field', e, name) ('tupidx', e, n) ('index', e, i)
  ('mcall', recv, name, [args])   ('call', f, [args])
  ('unary', op, e) ('binary', op, a, b) ('assign', op, lhs, rhs)
  ('ref', e) ('deref', e) ('cast', e, type_string) ('try', e) ('await', e)
  ('struct', path_segments, [(field, expr)], base_or_None)
  ('tuple', [e]) ('array', [e]) ('repeat', e, n)
  ('block', [stmts], tail_or_None)
  ('if', cond, then_block, else_or_None)      cond may be ('let', pat, e)
  ('match', scrut, [(pat, guard_or_None, body)])
  ('for', pat, iter, block) ('while', cond, block) ('loop', block)
  ('closure', [pats], body) ('return', e_or_None) ('break', e_or_None) ('continue',)
  ('macro', name_segments, token_list, [parsed args] or None)
  ('range', lo_or_None, hi_or_None, inclusive)
Statements: ('let', pat, type_or_None, init_or_None, else_block_or_None) | ('expr', e) | ('item', item)
Patterns: ('p_wild',) ('p_bind', name, subpat_or_None) ('p_lit', value, kind) ('p_path', segs)
  ('p_tstruct', segs, [pats], has_rest) ('p_struct', segs, [(field, pat)], has_rest) ('p_tuple', [pats])
  ('p_ref', pat) ('p_or', [pats]) ('p_range', lo, hi, inclusive) ('p_rest',)
"""
import re


class Unsupported(Exception):
    pass


TOKEN_RE = re.compile(r'''
    (?P<ws>\s+)
  | (?P<lcomment>//[^\n]*)
  | (?P<rawstr>b?r(?P<hashes>\#*)"(?:.|\n)*?"(?P=hashes))
  | (?P<str>b?"(?:[^"\\]|\\.|\\\n)*")
  | (?P<lifetime>'[A-Za-z_][A-Za-z0-9_]*(?!'))
  | (?P<char>b?'(?:[^'\\]|\\x[0-9a-fA-F]{2}|\\u\{[0-9a-fA-F]+\}|\\.)')
  | (?P<float>\d[\d_]*\.\d[\d_]*(?:[eE][+-]?\d+)?(?:f32|f64)?|\d[\d_]*(?:f32|f64))
  | (?P<int>0x[0-9a-fA-F_]+(?:[ui](?:8|16|32|64|128|size))?|0b[01_]+(?:[ui](?:8|16|32|64|128|size))?|0o[0-7_]+|\d[\d_]*(?:[ui](?:8|16|32|64|128|size))?)
  | (?P<ident>(?:r\#)?[A-Za-z_][A-Za-z0-9_]*)
  | (?P<punct><<=|>>=|\.\.\.|\.\.=|::|->|=>|==|!=|<=|>=|&&|\|\||\+=|-=|\*=|/=|%=|\^=|&=|\|=|<<|>>|\.\.|[-+*/%^!&|=<>@.,;:\#$?~\[\](){}])
''', re.X)


def tokenize(src):
    toks = []
    i = 0
    n = len(src)
    line = 1
    while i < n:
        if src.startswith("/*", i):
            depth = 1
            j = i + 2
            while j < n and depth:
                if src.startswith("/*", j):
                    depth += 1
                    j += 2
                elif src.startswith("*/", j):
                    depth -= 1
                    j += 2
                else:
                    j += 1
            line += src.count("\n", i, j)
            i = j
            continue
        m = TOKEN_RE.match(src, i)
        if not m:
            raise Unsupported("cannot tokenize at line %d: %r" % (line, src[i:i + 30]))
        kind = m.lastgroup
        text = m.group(0)
        if kind == "hashes":
            kind = "rawstr"
        if kind not in ("ws", "lcomment"):
            toks.append((kind, text, line))
        line += text.count("\n")
        i = m.end()
    toks.append(("eof", "", line))
    return toks


def unescape(s):
    out = []
    i = 0
    while i < len(s):
        c = s[i]
        if c == "\\":
            i += 1
            c = s[i]
            if c == "n":
                out.append("\n")
            elif c == "t":
                out.append("\t")
            elif c == "r":
                out.append("\r")
            elif c == "0":
                out.append("\0")
            elif c == "x":
                out.append(chr(int(s[i + 1:i + 3], 16)))
                i += 2
            elif c == "u":
                j = s.index("}", i)
                out.append(chr(int(s[i + 2:j], 16)))
                i = j
            elif c == "\n":
                i += 1
                while i < len(s) and s[i] in " \t\n\r":
                    i += 1
                continue
            else:
                out.append(c)
        else:
            out.append(c)
        i += 1
    return "".join(out)


def lit_value(kind, text):
    if kind == "int":
        t = re.sub(r"(?:[ui](?:8|16|32|64|128|size))$", "", text).replace("_", "")
        return int(t, 0), "int"
    if kind == "float":
        return float(re.sub(r"(f32|f64)$", "", text).replace("_", "")), "float"
    if kind == "str":
        b = text.startswith("b")
        body = text[2:-1] if b else text[1:-1]
        return unescape(body), ("bytes" if b else "str")
    if kind == "rawstr":
        m = re.match(r'b?r(#*)"((?:.|\n)*)"\1$', text)
        return m.group(2), ("bytes" if text.startswith("b") else "str")
    if kind == "char":
        b = text.startswith("b")
        body = text[2:-1] if b else text[1:-1]
        return unescape(body), "char"
    raise Unsupported("literal " + text)


BINPREC = [
    ("||",), ("&&",), ("==", "!=", "<", ">", "<=", ">="), ("|",), ("^",), ("&",), ("<<", ">>"), ("+", "-"), ("*", "/", "%"),
]
ASSIGN_OPS = {"=", "+=", "-=", "*=", "/=", "%=", "^=", "&=", "|=", "<<=", ">>="}
KEYWORDS_NOT_PATH = {"if", "match", "loop", "while", "for", "return", "break", "continue", "let", "move", "unsafe", "async",
                     "fn", "struct", "enum", "impl", "use", "mod", "const", "static", "pub", "trait", "type", "where", "else",
                     "in", "as", "ref", "mut", "dyn"}


# (file, fn name) -> declared parameter types (None for self), filled while parsing
FN_PARAM_TYPES = {}


class Parser:
    def __init__(self, toks, fname="?"):
        self.t = toks
        self.i = 0
        self.fname = fname

    # -- token helpers --
    def peek(self, k=0):
        return self.t[min(self.i + k, len(self.t) - 1)]

    def at(self, text, k=0):
        return self.peek(k)[1] == text and self.peek(k)[0] in ("punct", "ident")

    def at_kind(self, kind, k=0):
        return self.peek(k)[0] == kind

    def next(self):
        tok = self.t[self.i]
        self.i += 1
        return tok

    def eat(self, text):
        if self.at(text):
            self.i += 1
            return True
        return False

    def expect(self, text):
        if not self.eat(text):
            tok = self.peek()
            raise Unsupported("%s:%d: expected %r, found %r" % (self.fname, tok[2], text, tok[1]))

    def ident(self):
        tok = self.next()
        if tok[0] != "ident":
            raise Unsupported("%s:%d: expected identifier, found %r" % (self.fname, tok[2], tok[1]))
        return tok[1]

    def skip_attrs(self):
        """skip attributes; returns their texts (tokens joined without spaces)"""
        out = []
        while self.at("#"):
            self.next()
            self.eat("!")
            toks = self.group_tokens()
            out.append("".join(t[1] for t in toks))
        return out

    @staticmethod
    def cfg_disabled(attrs):
        """attributes that remove the item/statement in the default build (no features, not test)"""
        for a in attrs:
            if a.startswith("cfg(") and ("feature=" in a and "not(feature" not in a or a == "cfg(test)" or "cfg(all(test" in a or a == "cfg(kani)"
                                         or "any(kani,rnacos_verif)" in a or "cfg(miri)" in a):
                return True
        return False

    def skip_group(self):
        """skip one balanced (...) [...] {...} group starting at the current token"""
        tok0 = self.next()
        open_ = tok0[1]
        if open_ not in ("(", "[", "{"):
            raise Unsupported("%s:%d: expected a bracketed group, found %r" % (self.fname, tok0[2], open_))
        close = {"(": ")", "[": "]", "{": "}"}[open_]
        depth = 1
        while depth:
            tok = self.next()
            if tok[0] == "eof":
                raise Unsupported("unbalanced group")
            if tok[0] == "punct":
                if tok[1] in "([{":
                    depth += 1
                elif tok[1] in ")]}":
                    depth -= 1
        return close

    def group_tokens(self):
        """consume one balanced group, return its inner tokens"""
        start = self.i + 1
        self.skip_group()
        return self.t[start:self.i - 1]

    # -- types (kept as strings) --
    def parse_type(self):
        start = self.i
        self._type()
        return " ".join(t[1] for t in self.t[start:self.i])

    def _type(self):
        if self.eat("&") or self.eat("&&"):
            if self.at_kind("lifetime"):
                self.next()
            self.eat("mut")
            return self._type()
        if self.eat("*"):
            if not self.eat("const"):
                self.expect("mut")
            return self._type()
        if self.at("("):
            self.skip_group()
            return
        if self.at("["):
            self.skip_group()
            return
        if self.eat("!"):
            return
        if self.eat("dyn") or self.eat("impl"):
            self._type_bounds()
            return
        if self.at("fn") or self.at("unsafe") or self.at("extern"):
            while not self.at("("):
                self.next()
            self.skip_group()
            if self.eat("->"):
                self._type()
            return
        if self.eat("<"):
            # qualified path <T as Trait>::X
            self._angle_rest()
            while self.eat("::"):
                self.ident()
                if self.at("<"):
                    self.next()
                    self._angle_rest()
            return
        self._type_path()

    def _type_bounds(self):
        while True:
            if self.at_kind("lifetime"):
                self.next()
            else:
                if self.eat("?"):
                    pass
                if self.at("for"):
                    self.next()
                    self.expect("<")
                    self._angle_rest()
                self._type_path()
            if not self.eat("+"):
                break

    def _type_path(self):
        self.eat("::")
        while True:
            self.ident()
            if self.at("<"):
                self.next()
                self._angle_rest()
            elif self.at("::") and self.at("<", 1):
                self.next()
                self.next()
                self._angle_rest()
            if self.at("(") and self.t[self.i - 1][1] in ("Fn", "FnMut", "FnOnce"):
                self.skip_group()
                if self.eat("->"):
                    self._type()
            if not (self.at("::") and self.peek(1)[0] == "ident"):
                break
            self.next()

    def _angle_rest(self):
        """after '<' has been consumed: skip to the matching '>' (handles >> and nested groups)"""
        depth = 1
        while depth:
            tok = self.next()
            if tok[0] == "eof":
                raise Unsupported("unbalanced <>")
            if tok[0] != "punct":
                continue
            x = tok[1]
            if x == "<":
                depth += 1
            elif x == ">":
                depth -= 1
            elif x == ">>":
                depth -= 2
                if depth < 0:
                    # split: give one '>' back
                    self.i -= 1
                    self.t = self.t[:self.i] + [("punct", ">", tok[2])] + self.t[self.i + 1:]
                    depth = 0
            elif x == "->":
                pass
            elif x in "([{":
                self.i -= 1
                self.skip_group()

    # -- patterns --
    def parse_pattern(self):
        self.eat("|")
        p = self._pattern_one()
        if self.at("|") and not self.at("||"):
            alts = [p]
            while self.eat("|"):
                alts.append(self._pattern_one())
            return ("p_or", alts)
        return p

    def _pattern_one(self):
        tok = self.peek()
        if self.eat("_"):
            return ("p_wild",)
        if self.eat(".."):
            return ("p_rest",)
        if self.eat("&") or self.eat("&&"):
            self.eat("mut")
            return ("p_ref", self._pattern_one())
        if self.at("("):
            self.next()
            ps = []
            while not self.at(")"):
                ps.append(self.parse_pattern())
                if not self.eat(","):
                    break
            self.expect(")")
            if len(ps) == 1 and ps[0][0] != "p_rest":
                return ps[0]
            return ("p_tuple", ps)
        if self.at("["):
            raise Unsupported("%s:%d: slice pattern" % (self.fname, tok[2]))
        if tok[0] in ("int", "str", "char", "float", "rawstr") or (self.at("-") and self.peek(1)[0] in ("int", "float")):
            neg = self.eat("-")
            tk = self.next()
            v, k = lit_value(tk[0], tk[1])
            if neg:
                v = -v
            lo = ("p_lit", v, k)
            if self.at("..=") or self.at(".."):
                inc = self.next()[1] == "..="
                tk2 = self.next()
                v2, k2 = lit_value(tk2[0], tk2[1])
                return ("p_range", v, v2, inc)
            return lo
        if self.at("true") or self.at("false"):
            return ("p_lit", self.next()[1] == "true", "bool")
        if self.at("ref") or self.at("mut"):
            self.eat("ref")
            self.eat("mut")
            name = self.ident()
            sub = None
            if self.eat("@"):
                sub = self._pattern_one()
            return ("p_bind", name, sub)
        if tok[0] == "ident":
            segs = self._path_segments()
            if self.at("("):
                self.next()
                ps = []
                rest = False
                while not self.at(")"):
                    q = self.parse_pattern()
                    if q[0] == "p_rest":
                        rest = True
                    else:
                        ps.append(q)
                    if not self.eat(","):
                        break
                self.expect(")")
                return ("p_tstruct", segs, ps, rest)
            if self.at("{"):
                self.next()
                fs = []
                rest = False
                while not self.at("}"):
                    self.skip_attrs()
                    if self.eat(".."):
                        rest = True
                        break
                    self.eat("ref")
                    self.eat("mut")
                    fname = self.ident()
                    if self.eat(":"):
                        fs.append((fname, self.parse_pattern()))
                    else:
                        fs.append((fname, ("p_bind", fname, None)))
                    if not self.eat(","):
                        break
                self.expect("}")
                return ("p_struct", segs, fs, rest)
            if len(segs) == 1 and (segs[0][0].islower() or segs[0][0] == "_") and not segs[0].isupper():
                sub = None
                if self.eat("@"):
                    sub = self._pattern_one()
                return ("p_bind", segs[0], sub)
            return ("p_path", segs)
        raise Unsupported("%s:%d: pattern starting with %r" % (self.fname, tok[2], tok[1]))

    def _path_segments(self):
        segs = []
        self.eat("::")
        if self.at("<"):
            # <T as Trait>::name  -> keep the type name
            self.next()
            start = self.i
            self._angle_rest()
            inner = [t[1] for t in self.t[start:self.i - 1]]
            segs.append("<" + " ".join(inner) + ">")
            self.expect("::")
        while True:
            segs.append(self.ident())
            if self.at("::") and self.at("<", 1):
                self.next()
                self.next()
                self._angle_rest()
            if self.at("::") and self.peek(1)[0] == "ident":
                self.next()
                continue
            break
        return segs

    # -- expressions --
    def parse_expr(self, no_struct=False):
        return self._assign(no_struct)

    def _assign(self, ns):
        lhs = self._range(ns)
        if self.peek()[0] == "punct" and self.peek()[1] in ASSIGN_OPS:
            op = self.next()[1]
            rhs = self._assign(ns)
            return ("assign", op, lhs, rhs)
        return lhs

    def _range(self, ns):
        if self.at("..") or self.at("..="):
            inc = self.next()[1] == "..="
            hi = None
            if self._starts_expr(ns):
                hi = self._binary(0, ns)
            return ("range", None, hi, inc)
        lo = self._binary(0, ns)
        if self.at("..") or self.at("..="):
            inc = self.next()[1] == "..="
            hi = None
            if self._starts_expr(ns):
                hi = self._binary(0, ns)
            return ("range", lo, hi, inc)
        return lo

    def _starts_expr(self, ns):
        tok = self.peek()
        if tok[0] in ("int", "float", "str", "rawstr", "char"):
            return True
        if tok[0] == "ident":
            return tok[1] not in ("as", "else", "in")
        if tok[0] == "punct":
            if tok[1] == "{":
                return not ns
            return tok[1] in ("(", "[", "-", "!", "*", "&", "|", "||", "&&", "<")
        return False

    def _binary(self, level, ns):
        if level == len(BINPREC):
            return self._cast(ns)
        lhs = self._binary(level + 1, ns)
        while self.peek()[0] == "punct" and self.peek()[1] in BINPREC[level]:
            op = self.next()[1]
            rhs = self._binary(level + 1, ns)
            lhs = ("binary", op, lhs, rhs)
        return lhs

    def _cast(self, ns):
        e = self._unary(ns)
        while self.at("as"):
            self.next()
            ty = self.parse_type()
            e = ("cast", e, ty)
        return e

    def _unary(self, ns):
        if self.eat("-"):
            return ("unary", "-", self._unary(ns))
        if self.eat("!"):
            return ("unary", "!", self._unary(ns))
        if self.eat("*"):
            return ("deref", self._unary(ns))
        if self.at("&") or self.at("&&"):
            double = self.next()[1] == "&&"
            self.eat("mut")
            e = ("ref", self._unary(ns))
            return ("ref", e) if double else e
        return self._postfix(self._primary(ns), ns)

    def _postfix(self, e, ns):
        while True:
            if self.at("?"):
                self.next()
                e = ("try", e)
            elif self.at("."):
                if self.peek(1)[0] == "int":
                    self.next()
                    e = ("tupidx", e, int(self.next()[1]))
                elif self.peek(1)[0] == "float":
                    # a.0.1 tokenised as float
                    self.next()
                    parts = self.next()[1].split(".")
                    for p in parts:
                        e = ("tupidx", e, int(p))
                else:
                    self.next()
                    name = self.ident()
                    if name == "await":
                        e = ("await", e)
                        continue
                    turbofish = None
                    if self.at("::"):
                        self.next()
                        self.expect("<")
                        st = self.i
                        self._angle_rest()
                        turbofish = "".join(t[1] for t in self.t[st:self.i - 1])
                    if self.at("("):
                        args = self._call_args()
                        e = ("mcall", e, name, args, turbofish)
                    else:
                        e = ("field", e, name)
            elif self.at("("):
                args = self._call_args()
                e = ("call", e, args)
            elif self.at("["):
                self.next()
                idx = self.parse_expr()
                self.expect("]")
                e = ("index", e, idx)
            else:
                return e

    def _call_args(self):
        self.expect("(")
        args = []
        while not self.at(")"):
            args.append(self.parse_expr())
            if not self.eat(","):
                break
        self.expect(")")
        return args

    def _primary(self, ns):
        self.skip_attrs()
        tok = self.peek()
        kind, text, line = tok
        if kind in ("int", "float", "str", "rawstr", "char"):
            self.next()
            v, k = lit_value(kind, text)
            return ("lit", v, k)
        if kind == "lifetime":
            # labelled loop
            self.next()
            self.expect(":")
            return self._primary(ns)
        if kind == "punct":
            if text == "(":
                self.next()
                if self.eat(")"):
                    return ("tuple", [])
                first = self.parse_expr()
                if self.eat(")"):
                    return first
                items = [first]
                while self.eat(","):
                    if self.at(")"):
                        break
                    items.append(self.parse_expr())
                self.expect(")")
                return ("tuple", items)
            if text == "[":
                self.next()
                if self.eat("]"):
                    return ("array", [])
                first = self.parse_expr()
                if self.eat(";"):
                    n = self.parse_expr()
                    self.expect("]")
                    return ("repeat", first, n)
                items = [first]
                while self.eat(","):
                    if self.at("]"):
                        break
                    items.append(self.parse_expr())
                self.expect("]")
                return ("array", items)
            if text == "{":
                return self.parse_block()
            if text in ("|", "||"):
                return self._closure()
            if text == "<":
                segs = self._path_segments()
                return ("path", segs)
            raise Unsupported("%s:%d: unexpected %r in expression" % (self.fname, line, text))
        if kind == "ident":
            if text in ("true", "false"):
                self.next()
                return ("lit", text == "true", "bool")
            if text == "if":
                return self._if()
            if text == "match":
                self.next()
                scrut = self.parse_expr(no_struct=True)
                self.expect("{")
                arms = []
                while not self.at("}"):
                    arm_attrs = self.skip_attrs()
                    pat = self.parse_pattern()
                    guard = None
                    if self.eat("if"):
                        guard = self.parse_expr()
                    self.expect("=>")
                    body = self.parse_expr()
                    if not self.cfg_disabled(arm_attrs):
                        arms.append((pat, guard, body))
                    if not self.eat(","):
                        if self.at("}"):
                            break
                        # block-bodied arm without comma
                        if body[0] not in ("block", "if", "match", "for", "while", "loop"):
                            raise Unsupported("%s:%d: match arm separator" % (self.fname, self.peek()[2]))
                self.expect("}")
                return ("match", scrut, arms)
            if text == "loop":
                self.next()
                return ("loop", self.parse_block())
            if text == "while":
                self.next()
                cond = self._cond()
                return ("while", cond, self.parse_block())
            if text == "for":
                self.next()
                pat = self.parse_pattern()
                self.expect("in")
                it = self.parse_expr(no_struct=True)
                return ("for", pat, it, self.parse_block())
            if text == "return":
                self.next()
                if self._starts_expr(False) and not self.at("}"):
                    return ("return", self.parse_expr())
                return ("return", None)
            if text == "break":
                self.next()
                if self.at_kind("lifetime"):
                    self.next()
                if self._starts_expr(ns) and not self.at("}"):
                    return ("break", self.parse_expr())
                return ("break", None)
            if text == "continue":
                self.next()
                if self.at_kind("lifetime"):
                    self.next()
                return ("continue",)
            if text == "move" or text == "async":
                self.next()
                if text == "async":
                    self.eat("move")
                    if self.at("{"):
                        return ("async", self.parse_block())
                    return self._closure()
                if self.at("|") or self.at("||"):
                    return self._closure()
                raise Unsupported("%s:%d: move" % (self.fname, line))
            if text == "unsafe":
                self.next()
                return self.parse_block()
            if text == "let":
                # let-chains / `if let` conditions are handled in _cond
                raise Unsupported("%s:%d: let in expression position" % (self.fname, line))
            segs = self._path_segments()
            if self.at("!") and not self.at("!=") and self.peek(1)[1] in ("(", "[", "{"):
                self.next()
                inner = self.group_tokens()
                return ("macro", segs, inner, self._macro_args(segs, inner))
            if self.at("{") and not ns and self._looks_like_struct_lit():
                return self._struct_lit(segs)
            return ("path", segs)
        raise Unsupported("%s:%d: unexpected token %r" % (self.fname, line, text))

    def _looks_like_struct_lit(self):
        # `Path {` followed by `}` , `ident :` , `ident ,` , `ident }` or `..`
        t1, t2 = self.peek(1), self.peek(2)
        if t1[1] == "}":
            return True
        if t1[1] == "..":
            return True
        if t1[0] == "ident" and t2[1] in (":", ",", "}") and not (t2[1] == ":" and self.peek(3)[1] == ":"):
            return True
        if t1[1] == "#":
            return True
        return False

    def _struct_lit(self, segs):
        self.expect("{")
        fields = []
        base = None
        while not self.at("}"):
            self.skip_attrs()
            if self.eat(".."):
                base = self.parse_expr()
                break
            name = self.next()[1]
            if self.eat(":"):
                fields.append((name, self.parse_expr()))
            else:
                fields.append((name, ("path", [name])))
            if not self.eat(","):
                break
        self.expect("}")
        return ("struct", segs, fields, base)

    def _macro_args(self, segs, inner):
        """parse comma separated expressions inside a macro invocation when that is what they are"""
        name = segs[-1]
        if name in ("vec", "format", "println", "print", "eprintln", "assert", "assert_eq", "assert_ne", "debug_assert",
                    "matches", "anyhow", "info", "warn", "error", "debug", "trace", "write", "writeln", "panic", "unreachable",
                    "bail", "todo", "unimplemented", "json"):
            sub = Parser(list(inner) + [("eof", "", 0)], self.fname)
            try:
                if name == "matches":
                    e = sub.parse_expr()
                    sub.expect(",")
                    pat = sub.parse_pattern()
                    guard = None
                    if sub.eat("if"):
                        guard = sub.parse_expr()
                    return [("matches", e, pat, guard)]
                if name == "json":
                    return None
                args = []
                if name == "vec" and not sub.at_kind("eof"):
                    first = sub.parse_expr()
                    if sub.eat(";"):
                        n = sub.parse_expr()
                        return [("repeat", first, n)]
                    args.append(first)
                    while sub.eat(","):
                        if sub.at_kind("eof"):
                            break
                        args.append(sub.parse_expr())
                    return args
                while not sub.at_kind("eof"):
                    # named format args: name = expr
                    if sub.peek()[0] == "ident" and sub.peek(1)[1] == "=" and sub.peek(2)[1] != "=":
                        sub.next()
                        sub.next()
                    args.append(sub.parse_expr())
                    if not sub.eat(","):
                        break
                return args
            except Unsupported:
                return None
        return None

    def _closure(self):
        params = []
        if self.eat("||"):
            pass
        else:
            self.expect("|")
            while not self.at("|"):
                p = self._pattern_one()
                if self.eat(":"):
                    self.parse_type()
                params.append(p)
                if not self.eat(","):
                    break
            self.expect("|")
        if self.eat("->"):
            self.parse_type()
            body = self.parse_block()
        else:
            body = self.parse_expr()
        return ("closure", params, body)

    def _cond(self):
        """condition of if/while: expr, or `let pat = expr`, possibly chained with &&"""
        if self.at("let"):
            self.next()
            pat = self.parse_pattern()
            self.expect("=")
            e = self._binary(2, True)  # binds tighter than && / ||
            c = ("let", pat, e)
            while self.eat("&&"):
                rhs = self._cond_atom()
                c = ("binary", "&&", c, rhs)
            return c
        e = self.parse_expr(no_struct=True)
        return e

    def _cond_atom(self):
        if self.at("let"):
            self.next()
            pat = self.parse_pattern()
            self.expect("=")
            e = self._binary(2, True)
            return ("let", pat, e)
        return self._binary(2, True)

    def _if(self):
        self.expect("if")
        cond = self._cond()
        then = self.parse_block()
        els = None
        if self.eat("else"):
            if self.at("if"):
                els = self._if()
            else:
                els = self.parse_block()
        return ("if", cond, then, els)

    # -- blocks / statements --
    def parse_block(self):
        self.expect("{")
        stmts = []
        tail = None
        while not self.at("}"):
            attrs = self.skip_attrs()
            if self.cfg_disabled(attrs):
                # parse and drop the statement
                n_before = len(stmts)
                saved_tail = tail
                self._one_stmt(stmts)
                del stmts[n_before:]
                continue
            if self.eat(";"):
                continue
            if self.at("let"):
                self.next()
                pat = self.parse_pattern()
                ty = None
                if self.eat(":"):
                    ty = self.parse_type()
                init = None
                els = None
                if self.eat("="):
                    init = self.parse_expr()
                    if self.eat("else"):
                        els = self.parse_block()
                self.expect(";")
                stmts.append(("let", pat, ty, init, els))
                continue
            if self._at_item():
                it = self.parse_item()
                stmts.append(("item", it))
                continue
            if self.peek()[0] == "ident" and self.peek()[1] in ("if", "match", "for", "while", "loop") or self.at("{") or \
                    (self.at("unsafe") and self.at("{", 1)):
                # block-like expression in statement position ends the statement (a following `(`/`[`/`-` starts a
                # new one); only `.method()` / `?` continue it
                e = self._primary(False)
                if self.at(".") or self.at("?"):
                    e = self._postfix(e, False)
                    if self.peek()[0] == "punct" and self.peek()[1] in ASSIGN_OPS:
                        op = self.next()[1]
                        e = ("assign", op, e, self._assign(False))
                if self.eat(";"):
                    stmts.append(("expr", e))
                elif self.at("}"):
                    tail = e
                else:
                    stmts.append(("expr", e))
                continue
            e = self.parse_expr()
            if self.eat(";"):
                stmts.append(("expr", e))
            elif self.at("}"):
                tail = e
            elif e[0] in ("if", "match", "for", "while", "loop", "block", "async") or (e[0] == "macro"):
                stmts.append(("expr", e))
            else:
                tok = self.peek()
                raise Unsupported("%s:%d: expected ; or } after expression, found %r" % (self.fname, tok[2], tok[1]))
        self.expect("}")
        return ("block", stmts, tail)

    def _one_stmt(self, stmts):
        if self.eat(";"):
            return
        if self.at("let"):
            self.next()
            pat = self.parse_pattern()
            ty = None
            if self.eat(":"):
                ty = self.parse_type()
            init = None
            els = None
            if self.eat("="):
                init = self.parse_expr()
                if self.eat("else"):
                    els = self.parse_block()
            self.expect(";")
            stmts.append(("let", pat, ty, init, els))
            return
        if self._at_item():
            stmts.append(("item", self.parse_item()))
            return
        e = self.parse_expr()
        self.eat(";")
        stmts.append(("expr", e))

    def _at_item(self):
        t = self.peek()[1]
        if t in ("fn", "struct", "enum", "impl", "use", "mod", "static", "trait", "type", "pub", "extern"):
            return True
        if t == "const" and self.peek(1)[0] == "ident" and self.peek(1)[1] != "fn" or (t == "const" and self.peek(1)[1] == "fn"):
            return True
        if t in ("async", "unsafe") and self.peek(1)[1] == "fn":
            return True
        return False

    # -- items --
    def parse_item(self):
        attrs = self.skip_attrs()
        if self.cfg_disabled(attrs):
            self._parse_item_inner([])
            return ("skipped",)
        return self._parse_item_inner(attrs)

    def _parse_item_inner(self, attrs):
        if self.eat("pub"):
            if self.at("("):
                self.skip_group()
        self.eat("default")
        if self.at("async") or self.at("unsafe") or (self.at("const") and self.at("fn", 1)) or self.at("extern"):
            while not self.at("fn"):
                if self.at_kind("str"):
                    self.next()
                    continue
                if self.at("{"):
                    # extern block
                    self.skip_group()
                    return ("skipped",)
                self.next()
        if self.at("fn"):
            f = self._fn()
            return f + (attrs,)
        if self.at("type"):
            self.next()
            name = self.ident()
            if self.at("<"):
                self.next()
                self._angle_rest()
            if self.eat("="):
                target = self.parse_type()
            else:
                target = ""
            while not self.eat(";"):
                self.next()
            return ("type_alias", name, target)
        if self.at("use") or self.at("extern"):
            while not self.eat(";"):
                if self.at("{"):
                    self.skip_group()
                else:
                    self.next()
            return ("skipped",)
        if self.at("const") or self.at("static"):
            self.next()
            self.eat("mut")
            self.eat("ref")
            name = self.ident()
            self.expect(":")
            ty = self.parse_type()
            self.expect("=")
            e = self.parse_expr()
            self.expect(";")
            return ("const", name, ty, e)
        if self.at("struct") or self.at("union"):
            self.next()
            name = self.ident()
            if self.at("<"):
                self.next()
                self._angle_rest()
            fields = []
            if self.at("where"):
                while not (self.at("{") or self.at(";") or self.at("(")):
                    self.next()
            if self.at("{"):
                inner = self.group_tokens()
                sub = Parser(list(inner) + [("eof", "", 0)], self.fname)
                while not sub.at_kind("eof"):
                    sub.skip_attrs()
                    if sub.eat("pub") and sub.at("("):
                        sub.skip_group()
                    fname = sub.ident()
                    sub.expect(":")
                    fty = sub.parse_type()
                    fields.append((fname, fty))
                    if not sub.eat(","):
                        break
                return ("struct", name, fields)
            if self.at("("):
                self.skip_group()
                if self.at("where"):
                    while not self.at(";"):
                        self.next()
                self.eat(";")
                return ("struct", name, None)
            self.eat(";")
            return ("struct", name, [])
        if self.at("enum"):
            self.next()
            name = self.ident()
            if self.at("<"):
                self.next()
                self._angle_rest()
            while not self.at("{"):
                self.next()
            inner = self.group_tokens()
            sub = Parser(list(inner) + [("eof", "", 0)], self.fname)
            variants = []
            while not sub.at_kind("eof"):
                sub.skip_attrs()
                vname = sub.ident()
                shape = ("unit",)
                if sub.at("("):
                    n = 0
                    inner2 = sub.group_tokens()
                    s2 = Parser(list(inner2) + [("eof", "", 0)], self.fname)
                    while not s2.at_kind("eof"):
                        s2.skip_attrs()
                        if s2.eat("pub") and s2.at("("):
                            s2.skip_group()
                        s2.parse_type()
                        n += 1
                        if not s2.eat(","):
                            break
                    shape = ("tuple", n)
                elif sub.at("{"):
                    inner2 = sub.group_tokens()
                    s2 = Parser(list(inner2) + [("eof", "", 0)], self.fname)
                    fs = []
                    while not s2.at_kind("eof"):
                        s2.skip_attrs()
                        fs.append(s2.ident())
                        s2.expect(":")
                        s2.parse_type()
                        if not s2.eat(","):
                            break
                    shape = ("struct", fs)
                if sub.eat("="):
                    sub.parse_expr()
                variants.append((vname, shape))
                if not sub.eat(","):
                    break
            return ("enum", name, variants)
        if self.at("impl"):
            self.next()
            if self.at("<"):
                self.next()
                self._angle_rest()
            self.eat("!")
            t1 = self.parse_type()
            trait = None
            if self.eat("for"):
                trait = t1
                t1 = self.parse_type()
            if self.at("where"):
                while not self.at("{"):
                    self.next()
            self.expect("{")
            items = []
            while not self.at("}"):
                items.append(self.parse_item())
            self.expect("}")
            return ("impl", t1, trait, items)
        if self.at("mod"):
            self.next()
            name = self.ident()
            if self.eat(";"):
                return ("skipped",)
            self.expect("{")
            items = []
            while not self.at("}"):
                items.append(self.parse_item())
            self.expect("}")
            return ("mod", name, items)
        if self.at("trait"):
            while not self.at("{"):
                self.next()
            self.skip_group()
            return ("skipped",)
        # item-position macro (lazy_static! { ... }, bitflags!, etc.)
        if self.peek()[0] == "ident":
            segs = self._path_segments()
            if self.eat("!"):
                if self.peek()[0] == "ident":
                    self.next()
                inner = self.group_tokens()
                self.eat(";")
                if segs[-1] == "lazy_static":
                    return ("lazy_static", self._lazy_static(inner))
                return ("item_macro", segs, inner)
        tok = self.peek()
        raise Unsupported("%s:%d: item starting with %r" % (self.fname, tok[2], tok[1]))

    def _lazy_static(self, inner):
        sub = Parser(list(inner) + [("eof", "", 0)], self.fname)
        out = []
        while not sub.at_kind("eof"):
            sub.skip_attrs()
            if sub.eat("pub") and sub.at("("):
                sub.skip_group()
            sub.expect("static")
            sub.expect("ref")
            name = sub.ident()
            sub.expect(":")
            ty = sub.parse_type()
            sub.expect("=")
            e = sub.parse_expr()
            sub.expect(";")
            out.append(("const", name, ty, e))
        return out

    def _fn(self):
        self.expect("fn")
        name = self.ident()
        if self.at("<"):
            self.next()
            self._angle_rest()
        self.expect("(")
        params = []
        ptypes = []
        FN_PARAM_TYPES[(self.fname, name)] = ptypes
        while not self.at(")"):
            self.skip_attrs()
            if self.at("&") and (self.at("self", 1) or self.at("mut", 1) and self.at("self", 2) or self.peek(1)[0] == "lifetime"):
                self.next()
                if self.at_kind("lifetime"):
                    self.next()
                self.eat("mut")
                self.expect("self")
                params.append(("p_bind", "self", None))
                ptypes.append(None)
            elif self.at("self") or (self.at("mut") and self.at("self", 1)):
                self.eat("mut")
                self.next()
                if self.eat(":"):
                    self.parse_type()
                params.append(("p_bind", "self", None))
                ptypes.append(None)
            else:
                p = self._pattern_one()
                self.expect(":")
                ptypes.append(self.parse_type())
                params.append(p)
            if not self.eat(","):
                break
        self.expect(")")
        if self.eat("->"):
            self.parse_type()
        if self.at("where"):
            while not (self.at("{") or self.at(";")):
                self.next()
        if self.eat(";"):
            return ("fn", name, params, None)
        body = self.parse_block()
        return ("fn", name, params, body)

    def parse_file(self):
        items = []
        while self.at("#") and self.at("!", 1):
            self.next()
            self.next()
            self.skip_group()
        while not self.at_kind("eof"):
            items.append(self.parse_item())
        return items


def parse_file(path):
    src = open(path).read()
    return Parser(tokenize(src), path).parse_file()


def parse_expr_text(text):
    return Parser(tokenize(text), "<expr>").parse_expr()


if __name__ == "__main__":
    import sys
    for p in sys.argv[1:]:
        try:
            items = parse_file(p)
            print("OK", p, len(items))
        except Unsupported as e:
            print("UNSUPPORTED", p, e)
