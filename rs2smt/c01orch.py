"""C01 — start-up orchestration of the state machine: StateApplyManager::{init, load_index, load_snapshot, do_load_snapshot,
load_log, load_complete} (src/raft/filestore/raftapply.rs) evaluated from source.

The collaborators are recording sinks with symbolic answers:
  index manager   LoadIndexInfo -> snapshot catalogue empty or one range ending at E (symbolic), last-applied index A (symbolic)
  snapshot manager GetLastSnapshot -> the last snapshot's path iff the catalogue has one; SnapshotReader::init / read_record
                   hand out two records, then end
  log manager     Load{start, end, loader} is recorded
  data handler    load_snapshot(record) / load_complete() are recorded
The actor futures (`async move {..}.into_actor(self).map(..).wait(ctx)`) run to completion at the call (ctx.wait blocks the mailbox).

Oracle over the recorded emissions, for every A, E and catalogue shape:
  (1) the snapshot records are delivered before any log replay
  (2) the log replay covers exactly the applied entries behind the snapshot: if A >= next (next = E + 1, or 1 without a
      snapshot) exactly one Load with start = next and end = A + 1; never a Load that starts below next or ends above A + 1
  (3) whenever anything was loaded (a snapshot or a non-empty log range) the components receive the load-complete
      notification, exactly once, after everything else (they rebuild derived state on it)
"""
import time

import z3

from . import rseval, rsparse
from .common import load_program
from .rseval import Struct, Enum, NONE, Some, Ok, Uninterp

FILES = ["src/raft/filestore/raftapply.rs"]
# enum definitions of the messages the chain sends
ENUM_FILES = ["src/raft/filestore/raftindex.rs", "src/raft/filestore/raftsnapshot.rs", "src/raft/filestore/raftlog/mod.rs"]


EXTRA_ASSUME = None  # development hook: extra constraints on (A, E, has_snapshot)


class Sink:
    def __init__(self, ty, events):
        self.ty = ty
        self.events = events


def install_actor_future(it):
    def into_actor(interp, recv, args):
        return Struct("ActorFut", {"v": recv, "act": args[0]})
    it.models[(None, "into_actor")] = into_actor

    def fut_map(interp, recv, args):
        interp.call_value(args[0], [recv["v"], recv["act"], "ctx"])
        return recv
    it.models[("ActorFut", "map")] = fut_map
    it.models[("ActorFut", "wait")] = lambda interp, recv, args: ()
    it.models[("ActorFut", "spawn")] = lambda interp, recv, args: ()


def run(tier, seed):
    t0 = time.time()
    ob = {"engine": "smt", "harness": "s01_2_startup_orchestration", "encodes_files": FILES,
          "encodes": ["StateApplyManager::{init,load_index,load_snapshot,do_load_snapshot,load_log,load_complete}"],
          "bound": "every last-applied index A and snapshot end E >= 1 (64-bit, A + 1 and E + 1 not wrapping), catalogue with 0, 1 or 2 snapshots (the older one ending anywhere below the newest), snapshot of 2 records",
          "queries": 0, "solver_s": 0.0, "distinct": 0}
    try:
        prog = load_program(FILES + ENUM_FILES)
        it = rseval.Interp(prog)
        it.lenient = True
        install_actor_future(it)
        A, E = z3.BitVec("last_applied", 64), z3.BitVec("snapshot_end", 64)
        has_snap = z3.Bool("catalogue_has_snapshot")
        has_older = z3.Bool("catalogue_has_an_older_snapshot")
        E0 = z3.BitVec("older_snapshot_end", 64)
        events = []

        def index_send(interp, recv, args):
            msg = args[0]
            if isinstance(msg, Enum) and msg.variant == "LoadIndexInfo":
                snaps = [Struct("SnapshotRange", {"id": 2, "end_index": E})] if interp.branch(has_snap) else []
                if snaps and interp.branch(has_older):
                    # two compactions: the catalogue keeps the older snapshot in front of the newest (the snapshot manager hands out the newest one)
                    snaps.insert(0, Struct("SnapshotRange", {"id": 1, "end_index": E0}))
                recv.events.append(("index-loaded", len(snaps)))
                return Ok(Ok(Enum("RaftIndexResponse", "RaftIndexInfo", {"raft_index": Struct("RaftIndexDto", {"snapshots": snaps}), "last_applied_log": A})))
            recv.events.append(("index-other", msg))
            return Ok(Ok(Enum("RaftIndexResponse", "None", None)))

        def snap_send(interp, recv, args):
            have = any(e[0] == "index-loaded" and e[1] > 0 for e in recv.events)
            return Ok(Ok(Enum("RaftSnapshotResponse", "LastSnapshot", [Some("snapshot_1") if have else NONE, NONE])))

        def log_send(interp, recv, args):
            msg = args[0]
            if isinstance(msg, Enum) and msg.variant == "Load":
                recv.events.append(("log-load", msg.payload["start"], msg.payload["end"]))
            else:
                recv.events.append(("log-other", msg))
            return Ok(Ok(()))
        it.models[("IndexAddr", "send")] = index_send
        it.models[("IndexAddr", "do_send")] = lambda interp, recv, args: ()
        it.models[("SnapAddr", "send")] = snap_send
        it.models[("LogAddr", "send")] = log_send

        def reader_init(interp, args):
            return Ok(Struct("SnapshotReader", {"left": 2}))
        it.fn_models["SnapshotReader::init"] = reader_init

        def read_record(interp, recv, args):
            if recv["left"] > 0:
                recv["left"] -= 1
                return Ok(Some(Struct("SnapshotRecordDto", {"n": recv["left"]})))
            return Ok(NONE)
        it.models[("SnapshotReader", "read_record")] = read_record
        it.models[("SnapshotReader", "get_header")] = lambda interp, recv, args: Struct("SnapshotHeaderDto", {})
        it.models[("DataWrap", "load_snapshot")] = lambda interp, recv, args: recv.events.append(("snapshot-record",)) or Ok(())
        it.models[("DataWrap", "load_complete")] = lambda interp, recv, args: recv.events.append(("load-complete",)) or Ok(())
        init_fn = prog.methods[("StateApplyManager", "init")]

        def thunk():
            del events[:]
            actor = Struct("StateApplyManager", {"index_manager": Some(Sink("IndexAddr", events)), "snapshot_manager": Some(Sink("SnapAddr", events)),
                                                 "log_manager": Some(Sink("LogAddr", events)), "data_wrap": Some(Sink("DataWrap", events)),
                                                 "snapshot_next_index": 1, "last_applied_log": 0})
            it._invoke(init_fn, [actor, "ctx"], self_ty="StateApplyManager")
            return list(events)
        # a snapshot covers at least one log entry (raft indexes start at 1)
        rng = [z3.ULT(A, (1 << 64) - 1), z3.ULT(E, (1 << 64) - 1), z3.UGE(E, 1), z3.UGE(E0, 1), z3.ULT(E0, E)]
        if EXTRA_ASSUME is not None:
            rng += EXTRA_ASSUME(A, E, has_snap)
        it.solver.push()
        it.solver.add(*rng)
        paths = it.explore(thunk, max_paths=5000)
        it.solver.pop()
        s = z3.Solver()
        s.add(*rng)
        viol = None
        covers = {"snapshot and log suffix": 0, "snapshot, nothing behind it": 0, "no snapshot": 0, "two snapshots in the catalogue": 0}
        nq = 0

        def ask(pc, cond, msg, tag, evs):
            nonlocal nq
            s.push()
            s.add(*pc)
            s.add(cond)
            nq += 1
            r = s.check()
            out = None
            if r == z3.sat:
                m = s.model()
                out = {"message": msg, "tags": [tag], "model": {"last_applied": m.eval(A, model_completion=True).as_long(), "snapshot_end": m.eval(E, model_completion=True).as_long(),
                                                                   "catalogue_has_snapshot": z3.is_true(m.eval(has_snap, model_completion=True)),
                                                                   "older_snapshot_end": m.eval(E0, model_completion=True).as_long() if z3.is_true(m.eval(has_older, model_completion=True)) else None,
                                                                   "emissions": [str(e[0]) + ("(%s)" % ", ".join(str(m.eval(x, model_completion=True)) if isinstance(x, z3.ExprRef) else str(x) for x in e[1:]) if len(e) > 1 else "") for e in evs]}}
            s.pop()
            return out
        for pc, evs, exc in paths:
            if exc is not None:
                viol = {"message": "panic in the start-up chain: %s" % exc, "tags": ["panic"], "model": {}}
                break
            snap = any(e[0] == "index-loaded" and e[1] > 0 for e in evs)
            nxt = (E + 1) if snap else z3.BitVecVal(1, 64)
            loads = [e for e in evs if e[0] == "log-load"]
            recs = [i for i, e in enumerate(evs) if e[0] == "snapshot-record"]
            comp = [i for i, e in enumerate(evs) if e[0] == "load-complete"]
            first_load = min([i for i, e in enumerate(evs) if e[0] == "log-load"], default=None)
            if snap and len(recs) != 2:
                viol = ask(pc, z3.BoolVal(True), "the catalogue names a snapshot but its records are not all delivered to the state machine (%d of 2)" % len(recs), "snapshot-not-loaded", evs)
            if not viol and recs and first_load is not None and max(recs) > first_load:
                viol = ask(pc, z3.BoolVal(True), "log replay starts before the snapshot records are delivered", "replay-before-snapshot", evs)
            if not viol and len(loads) > 1:
                viol = ask(pc, z3.BoolVal(True), "the log is replayed more than once", "replay-twice", evs)
            if not viol and not loads:
                viol = ask(pc, z3.UGE(A, nxt), "entries applied behind the snapshot are not replayed at start-up", "replay-missing", evs)
            if not viol and loads:
                st, en = rseval.to_bv(loads[0][1]), rseval.to_bv(loads[0][2])
                nonempty = z3.ULT(st, en)
                viol = ask(pc, z3.And(nonempty, z3.ULT(st, nxt)), "log replay starts below the first index behind the snapshot (entries covered by the snapshot are applied twice)", "replay-range", evs) \
                    or ask(pc, z3.And(nonempty, z3.UGT(en, A + 1)), "log replay runs beyond the last applied index", "replay-range", evs) \
                    or ask(pc, z3.And(z3.UGE(A, nxt), z3.Or(st != nxt, en != A + 1)), "log replay does not cover exactly the applied entries behind the snapshot", "replay-range", evs)
            if not viol:
                loaded_log = z3.BoolVal(False)
                if loads:
                    loaded_log = z3.ULT(rseval.to_bv(loads[0][1]), rseval.to_bv(loads[0][2]))
                something = z3.Or(z3.BoolVal(bool(recs)), loaded_log)
                if len(comp) == 0:
                    viol = ask(pc, something, "state was loaded at start-up (%s) but the components never receive the load-complete notification"
                               % ("snapshot records" if recs else "log entries"), "load-complete-missing", evs)
                elif len(comp) > 1:
                    viol = ask(pc, z3.BoolVal(True), "the load-complete notification is delivered more than once", "load-complete-twice", evs)
                elif comp[0] != len(evs) - 1:
                    viol = ask(pc, z3.BoolVal(True), "the load-complete notification is delivered before loading has finished", "load-complete-early", evs)
            if viol:
                break
            if any(e[0] == "index-loaded" and e[1] > 1 for e in evs):
                covers["two snapshots in the catalogue"] += 1
            if snap and loads:
                covers["snapshot and log suffix"] += 1
            if snap:
                covers["snapshot, nothing behind it"] += 1
            else:
                covers["no snapshot"] += 1
        ob["queries"] = nq + it.queries
        ob["solver_s"] = round(time.time() - t0, 1)
        ob["sample"] = {"paths_explored": len(paths), "covers": covers, "opaque_symbols": sorted(it.opaque_seen)[:20]}
        missing = [c for c, n in covers.items() if n == 0]
        if viol:
            ob.update({"verdict": "violation", "message": viol["message"], "tags": viol["tags"], "counterexample": viol["model"]})
        elif missing:
            ob.update({"verdict": "inconclusive", "message": "reachability witness never reached: %s" % missing})
        else:
            ob.update({"verdict": "discharged", "distinct": nq})
    except rsparse.Unsupported as e:
        ob.update({"verdict": "inconclusive", "message": "encoder met source it cannot encode: %s" % e})
    return ob


if __name__ == "__main__":
    ob = run("quick", 0)
    print(ob["harness"], ob.get("verdict"), str(ob.get("message", ""))[:600], str(ob.get("counterexample"))[:900], ob.get("queries"), ob.get("solver_s"), str(ob.get("sample"))[:600])
