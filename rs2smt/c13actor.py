"""C13 at the level of the NamingActor: heartbeat expiry as the actor's timer drives it.

NamingActor::{update_instance, time_check, time_check_notify, remove_instance} (src/naming/core.rs) on top of
Service::{update_instance, time_check, ...} (service.rs), Instance::init (model.rs) and the TimeoutSet of the dependency, evaluated
from source. The clock (now_millis / now_millis_i64 / Local::now) is a model variable; the actor's configured time-outs are
H = 15 000 ms (health) and O = 30 000 ms (instance).

Scenario: every history of N steps over {HTTP registration / heartbeat of the address (tag absent or all-false), timer tick} with
the clock on a grid around the two time-outs; the instance's ephemeral flag symbolic.
Oracle after every tick, for an ephemeral HTTP instance: last beat younger than H -> still registered and healthy; older than H ->
not healthy any more; younger than O -> still registered; unhealthy and older than O -> gone after two consecutive ticks.
A persistent instance is never touched by the timer.
"""
import time

import z3

from . import rseval, rsparse
from .c11actor import load, new_actor, SKEY, skey, make_interp
from .rseval import Struct, Enum, NONE, Some, Uninterp

FILES = ["src/naming/core.rs", "src/naming/service.rs", "src/naming/model.rs"]
H, O = 15000, 30000
BASE = 1_700_000_000_000
GRID = [BASE + x for x in (5000, 16000, 31000, 47000, 63000)]


def pick(it, var, options):
    for k, o in enumerate(options[:-1]):
        if it.branch(var == k):
            return o
    return options[-1]


def run(tier, seed):
    t0 = time.time()
    n = 4 if tier == "quick" else 5
    ob = {"engine": "smt", "harness": "s13_2_actor_timer", "encodes_files": FILES, "queries": 0, "solver_s": 0.0, "distinct": 0,
          "encodes": ["NamingActor::{update_instance,time_check,time_check_notify,remove_instance,do_notify}", "Service::{update_instance,time_check,update_instance_healthy_invalid,remove_instance}",
                      "Instance::{init,is_enable_timeout}", "TimeoutSet::{add,timeout}"],
          "bound": "one HTTP instance registered at the start; every history of %d steps over {heartbeat (tag absent / all-false), timer tick} with the clock on the grid start + %s s; "
                   "health time-out 15 s, instance time-out 30 s; the timer's per-round cut-off 10000 or 1; a persistent instance for 2 steps" % (n, [(g - BASE) // 1000 for g in GRID])}
    try:
        prog = load()
        clock = {"now": BASE}
        it = make_interp(prog)
        it.fn_models["now_millis"] = lambda interp, args: clock["now"]
        it.fn_models["now_millis_i64"] = lambda interp, args: clock["now"]
        it.models[("DateTime", "timestamp_millis")] = lambda interp, recv, args: clock["now"]
        opv = [z3.BitVec("op%d" % i, 8) for i in range(n)]
        timev = [z3.BitVec("time%d" % i, 8) for i in range(n)]
        tagv = [z3.Bool("beat%d_has_empty_tag" % i) for i in range(n)]
        eph = z3.Bool("ephemeral")
        covers = {"beating instance survives a tick": 0, "silent instance marked unhealthy": 0, "silent unhealthy instance removed": 0, "persistent instance ignored by the timer": 0, "expiry handed to the cluster sync": 0}

        def instance(e):
            return Struct("Instance", {
                "id": "", "ip": "1.1.1.1", "port": 1, "weight": 1.0, "enabled": True, "healthy": True, "ephemeral": e, "cluster_name": "DEFAULT",
                "service_name": "svc", "group_name": "g", "group_service": "g@@svc", "metadata": {}, "last_modified_millis": 0, "register_time": 0,
                "namespace_id": "public", "app_name": "", "from_grpc": False, "from_cluster": 0, "client_id": ""})

        class ClusterSink:
            def __init__(self):
                self.ty = "ClusterNotifyAddr"
                self.sent = []
        it.models[("ClusterNotifyAddr", "do_send")] = lambda interp, recv, args: recv.sent.append(args[0]) or ()
        smallv = z3.Bool("time_check_batch_size_is_1")

        def kind(m):
            if isinstance(m, Enum):
                return m.variant
            return str(getattr(m, "name", m)).split("::")[-1]

        def thunk():
            actor = new_actor(it)
            cluster = ClusterSink()
            actor["cluster_delay_notify"] = Some(cluster)
            # the per-round cut-off of the timer: the default (10000) or 1, so that a single expiry reaches it
            if it.branch(smallv):
                actor["sys_config"]["once_time_check_size"] = 1
            clock["now"] = BASE
            e = mode["ephemeral"]
            it.call_method("NamingActor", "update_instance", actor, [SKEY, instance(e), NONE, False, NONE])
            last_beat = BASE
            log = [("register", "+0s", "ephemeral" if e else "persistent")]
            overdue = False
            key = skey(1)
            for i in range(mode["steps"]):
                t = pick(it, timev[i], GRID)
                if t < clock["now"]:
                    raise rseval.PathAbort()
                clock["now"] = t
                op = pick(it, opv[i], ["beat", "tick"])
                svc = actor["service_map"][SKEY]
                if op == "beat":
                    if key not in svc["instances"]:
                        raise rseval.PathAbort()   # a beat for a removed instance is a new registration: outside this scenario
                    tag = Some(Struct("InstanceUpdateTag", {"weight": False, "metadata": False, "enabled": False, "ephemeral": False, "from_update": False})) if it.branch(tagv[i]) else NONE
                    it.call_method("NamingActor", "update_instance", actor, [SKEY, instance(e), tag, False, NONE])
                    last_beat = t
                    overdue = False
                    log.append(("beat", "+%ds" % ((t - BASE) // 1000)))
                    now = svc["instances"].get(key)
                    if now is None or now["last_modified_millis"] != t:
                        return ("violation", "a heartbeat at +%ds does not refresh the instance's last-beat time" % ((t - BASE) // 1000), log, "beat-not-recorded")
                    if e and now["healthy"] is not True:
                        return ("violation", "a heartbeat does not make the instance healthy again", log, "beat-not-recorded")
                else:
                    before = svc["instances"].get(key)
                    was_healthy = before["healthy"] if before is not None else None
                    n_cluster, n_sub = len(cluster.sent), len(actor["subscriber"].notified)
                    it.call_method("NamingActor", "time_check", actor, [])
                    log.append(("tick", "+%ds" % ((t - BASE) // 1000)))
                    if before is None:
                        continue
                    after_ = svc["instances"].get(key)
                    marked = was_healthy is True and after_ is not None and after_["healthy"] is not True
                    removed = after_ is None
                    if marked or removed:
                        # "... on the node responsible for it and then everywhere": the change is handed to the cluster sync and the subscribers
                        kinds = [kind(m) for m in cluster.sent[n_cluster:]]
                        want = "RemoveInstance" if removed else "UpdateInstance"
                        if want not in kinds:
                            return ("violation", "the timer %s the instance but does not hand the change to the cluster sync (sent: %s)" % ("removed" if removed else "marked unhealthy", kinds), log,
                                    "expiry-not-synced")
                        if len(actor["subscriber"].notified) == n_sub:
                            return ("violation", "the timer %s the instance but the service's subscribers are not notified" % ("removed" if removed else "marked unhealthy"), log, "expiry-not-notified")
                        covers["expiry handed to the cluster sync"] = covers.get("expiry handed to the cluster sync", 0) + 1
                    age = t - last_beat
                    nowv = svc["instances"].get(key)
                    if not e:
                        if nowv is None or nowv["healthy"] != was_healthy:
                            return ("violation", "the timer changes / removes a persistent instance", log, "unsupervised-expired")
                        covers["persistent instance ignored by the timer"] += 1
                        continue
                    if age < H:
                        if nowv is None:
                            return ("violation", "an instance whose last heartbeat is %d s old (health time-out 15 s) is removed by the timer" % (age // 1000), log, "expired-while-beating")
                        if was_healthy is True and nowv["healthy"] is not True:
                            return ("violation", "an instance whose last heartbeat is %d s old (health time-out 15 s) is marked unhealthy by the timer" % (age // 1000), log, "expired-while-beating")
                        covers["beating instance survives a tick"] += 1
                    if age > H and was_healthy is True and nowv is not None:
                        if nowv["healthy"] is True:
                            return ("violation", "an instance silent for %d s (health time-out 15 s) is still reported healthy after the timer ran" % (age // 1000), log, "silent-not-unhealthy")
                        covers["silent instance marked unhealthy"] += 1
                    if age < O and nowv is None:
                        return ("violation", "an instance silent for %d s (instance time-out 30 s) is removed by the timer" % (age // 1000), log, "removed-too-early")
                    if age > O and was_healthy is not True and nowv is not None:
                        if overdue:
                            return ("violation", "an unhealthy instance silent for %d s (instance time-out 30 s) survives two consecutive timer runs" % (age // 1000), log, "silent-not-removed")
                        overdue = True
                    if age > O and was_healthy is not True and nowv is None:
                        covers["silent unhealthy instance removed"] += 1
            return ("ok", None, log, None)
        mode = {"ephemeral": True, "steps": n}
        paths = it.explore(thunk, max_paths=200000)
        # a persistent instance: two steps are enough to see that the timer leaves it alone
        mode = {"ephemeral": False, "steps": 2}
        paths = paths + it.explore(thunk, max_paths=200000)
        viol = None
        for pc, r, exc in paths:
            if exc is not None:
                viol = {"message": "panic in the naming actor's timer path: %s" % exc, "tags": ["panic"], "model": {}}
                break
            if r[0] == "violation":
                viol = {"message": r[1], "tags": [r[3]], "model": {"history": [list(map(str, x)) for x in r[2]]}}
                break
        ob["queries"] = it.queries
        ob["solver_s"] = round(time.time() - t0, 1)
        ob["sample"] = {"paths_explored": len(paths), "covers": covers, "opaque_symbols": sorted(it.opaque_seen)[:12]}
        missing = [c for c, k in covers.items() if k == 0]
        if viol:
            ob.update({"verdict": "violation", "message": viol["message"], "tags": viol["tags"], "counterexample": viol["model"]})
        elif missing:
            ob.update({"verdict": "inconclusive", "message": "reachability witness never reached: %s" % missing})
        else:
            ob.update({"verdict": "discharged", "distinct": len(paths)})
    except rsparse.Unsupported as e:
        ob.update({"verdict": "inconclusive", "message": "encoder met source it cannot encode: %s" % e})
    return ob


if __name__ == "__main__":
    ob = run("quick", 0)
    print(ob["harness"], ob.get("verdict"), str(ob.get("message", ""))[:700], str(ob.get("counterexample"))[:500], ob.get("queries"), ob.get("solver_s"), str(ob.get("sample"))[:500])
