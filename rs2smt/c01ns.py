"""C01 — a component's own snapshot records reproduce its served state: the namespace registry.

NamespaceActor::{set_namespace, set_weak_namespace, build_snapshot, load_snapshot_record, init, query_list}
(src/namespace/mod.rs) and the Namespace <-> NamespaceDO conversions / NamespaceFromFlags helpers (src/namespace/model.rs)
evaluated from source. The state is built by the real operations: for each of two namespace ids symbolically: created by a
user (with a display name) or not, referenced by a config, referenced by a service. build_snapshot writes to a recording
snapshot writer; the records are loaded into a fresh actor (after its init). NamespaceDO::to_bytes / from_bytes are modelled as
an exact codec (identity); bitflags constants are read from the bitflags! block of model.rs.

Oracle: every namespace a user created is present after the reload, with its display name, and still marked as user-created;
no namespace appears as user-created that no user created. (Flags derived from configs / services are re-derived by those
components at load and are not compared.)
"""
import os
import re
import time

import z3

from . import rseval, rsparse
from .common import load_program, REPO
from .rseval import Struct, Enum, NONE, Some, Ok, Uninterp

FILES = ["src/namespace/mod.rs", "src/namespace/model.rs", "src/common/constant.rs"]


class Writer:
    def __init__(self):
        self.ty = "SnapshotWriterAddr"
        self.records = []


def flags_from_source():
    txt = open(os.path.join(REPO, "src/namespace/model.rs")).read()
    m = re.search(r"bitflags!\s*\{(.*?)\n\}", txt, re.S)
    if not m:
        raise rsparse.Unsupported("bitflags! block of NamespaceFromFlags not found")
    out = {}
    for name, val in re.findall(r"const\s+(\w+)\s*=\s*(0b[01_]+|0x[0-9a-fA-F_]+|\d+)\s*;", m.group(1)):
        out[name] = int(val.replace("_", ""), 0)
    if not {"SYSTEM", "USER", "CONFIG", "NAMING"} <= set(out):
        raise rsparse.Unsupported("NamespaceFromFlags constants not found: %s" % sorted(out))
    return out


def run(tier, seed):
    t0 = time.time()
    ob = {"engine": "smt", "harness": "s01_3_namespace_snapshot_roundtrip", "encodes_files": FILES,
          "encodes": ["NamespaceActor::{init,set_namespace,set_weak_namespace,build_snapshot,load_snapshot_record,query_list}", "From<Namespace> for NamespaceDO", "From<NamespaceDO> for Namespace",
                      "NamespaceFromFlags::{from_db_type,get_db_type}", "WeakNamespaceFromType::get_flag"],
          "bound": "two namespace ids; for each: created by a user or not, referenced by a config or not, referenced by a service or not (symbolic); whether the legacy-sync mark is set",
          "queries": 0, "solver_s": 0.0, "distinct": 0}
    try:
        prog = load_program(FILES)
        flags = flags_from_source()
        for n, v in flags.items():
            val = Struct("NamespaceFromFlags", {"bits": v})
            for key in ("NamespaceFromFlags::" + n, n):
                prog.consts[key] = ("lit", v)
                prog.const_cache[(None, key)] = val
        it = rseval.Interp(prog)
        it.lenient = True
        it.models[("NamespaceFromFlags", "bits")] = lambda interp, recv, args: recv["bits"]

        def into(interp, recv, args):
            t = (interp.call_type or interp.let_type or "").replace(" ", "").split("<")[0].split("::")[-1] if hasattr(interp, "let_type") else (interp.call_type or "").replace(" ", "").split("<")[0].split("::")[-1]
            if isinstance(recv, Struct) and t and t != recv.ty:
                fn = prog.trait_method(t, "from", "From")
                if fn is not None:
                    return interp._invoke(fn, [recv], self_ty=t)
            return recv
        it.models[(None, "into")] = into
        it.models[("SnapshotWriterAddr", "do_send")] = lambda interp, recv, args: recv.records.append(args[0]) or ()
        it.models[("NamespaceDO", "to_bytes")] = lambda interp, recv, args: Ok(recv)
        it.fn_models["NamespaceDO::from_bytes"] = lambda interp, args: Ok(args[0])
        ids = ["dev", "qa"]
        user = [z3.Bool("%s_created_by_user" % i) for i in ids]
        cfg = [z3.Bool("%s_has_config" % i) for i in ids]
        svc = [z3.Bool("%s_has_service" % i) for i in ids]
        synced = z3.Bool("legacy_sync_mark")
        newf = prog.methods[("NamespaceActor", "new")]

        def fresh():
            a = it._invoke(newf, [1], self_ty="NamespaceActor")
            it.call_method("NamespaceActor", "init", a, ["ctx"])
            return a

        def thunk():
            a = fresh()
            made = {}
            for k, i in enumerate(ids):
                u, c, s_ = it.branch(user[k]), it.branch(cfg[k]), it.branch(svc[k])
                # order as in a real history: the config / service may exist before or after the user creates the namespace; both orders
                # give the same flags, the user creation first is used
                if u:
                    it.call_method("NamespaceActor", "set_namespace", a, [Struct("NamespaceParam", {"namespace_id": i, "namespace_name": Some("Name of " + i), "r#type": NONE, "type": NONE}), False, False])
                if c:
                    it.call_method("NamespaceActor", "set_weak_namespace", a, [i, Enum("WeakNamespaceFromType", "Config")])
                if s_:
                    it.call_method("NamespaceActor", "set_weak_namespace", a, [i, Enum("WeakNamespaceFromType", "Naming")])
                made[i] = (u, c, s_)
            if it.branch(synced):
                a["already_sync_from_config"] = True
            w = Writer()
            r = it.call_method("NamespaceActor", "build_snapshot", a, [w])
            if not (isinstance(r, Enum) and r.variant == "Ok"):
                return ("violation", "build_snapshot fails", made, "snapshot-build-fails")
            b = fresh()
            for m in w.records:
                recd = m.payload[0] if isinstance(m, Enum) and m.payload else (m.args[0] if isinstance(m, Uninterp) and m.args else m)
                r = it.call_method("NamespaceActor", "load_snapshot_record", b, [recd])
                if not (isinstance(r, Enum) and r.variant == "Ok"):
                    return ("violation", "a snapshot record written by build_snapshot cannot be loaded", made, "snapshot-record-unreadable")
            before = {n["namespace_id"]: n for n in it.call_method("NamespaceActor", "query_list", a, [])}
            after = {n["namespace_id"]: n for n in it.call_method("NamespaceActor", "query_list", b, [])}
            USER = flags["USER"]
            for i in ids:
                u = made[i][0]
                if u:
                    if i not in after:
                        return ("violation", "namespace '%s' was created by a user (config: %s, service: %s) and is missing after a restart from the snapshot" % (i, made[i][1], made[i][2]), made, "user-namespace-lost")
                    if after[i]["namespace_name"] != before[i]["namespace_name"]:
                        return ("violation", "namespace '%s' comes back from the snapshot with display name %r instead of %r" % (i, after[i]["namespace_name"], before[i]["namespace_name"]), made, "user-namespace-changed")
                    if not isinstance(after[i]["flag"], int) or after[i]["flag"] & USER == 0:
                        return ("violation", "namespace '%s' is no longer marked as user-created after a restart from the snapshot" % i, made, "user-namespace-changed")
                elif i in after and isinstance(after[i]["flag"], int) and after[i]["flag"] & USER:
                    return ("violation", "namespace '%s' was never created by a user but is user-created after a restart from the snapshot" % i, made, "user-namespace-invented")
            if "" not in after:
                return ("violation", "the system namespace is missing after a restart", made, "system-namespace-lost")
            return ("ok", len(w.records), made, None)
        paths = it.explore(thunk, max_paths=5000)
        viol = None
        with_records = 0
        for pc, r, exc in paths:
            if exc is not None:
                viol = {"message": "panic in the namespace snapshot code: %s" % exc, "tags": ["panic"], "model": {}}
                break
            if r[0] == "violation":
                viol = {"message": r[1], "tags": [r[3]], "model": {i: {"created_by_user": v[0], "has_config": v[1], "has_service": v[2]} for i, v in r[2].items()}}
                break
            if r[1] and r[1] > 0:
                with_records += 1
        ob["queries"] = it.queries
        ob["solver_s"] = round(time.time() - t0, 1)
        ob["sample"] = {"paths_explored": len(paths), "paths_with_snapshot_records": with_records, "flags": flags, "opaque_symbols": sorted(it.opaque_seen)[:20]}
        if viol:
            ob.update({"verdict": "violation", "message": viol["message"], "tags": viol["tags"], "counterexample": viol["model"]})
        elif with_records == 0:
            ob.update({"verdict": "inconclusive", "message": "reachability witness never reached: a snapshot with namespace records"})
        else:
            ob.update({"verdict": "discharged", "distinct": len(paths)})
    except rsparse.Unsupported as e:
        ob.update({"verdict": "inconclusive", "message": "encoder met source it cannot encode: %s" % e})
    return ob


if __name__ == "__main__":
    ob = run("quick", 0)
    print(ob["harness"], ob.get("verdict"), str(ob.get("message", ""))[:600], str(ob.get("counterexample"))[:600], ob.get("queries"), ob.get("solver_s"), str(ob.get("sample"))[:600])
