"""C05 — vote, term, catalogue and last-applied index are durable: the index file written by
RaftIndexInnerManager is read back unchanged after a restart.

Symbolic evaluation of the real source of RaftIndexInnerManager::{init, write_index, write_last_applied_log, flush}
(src/raft/filestore/raftindex.rs), RaftIndexDto <-> RaftIndex conversions (model.rs), the generated protobuf code of
RaftIndex / LogRange / SnapshotRange / NodeAddrItem (log.rs: get_size, write_message, from_reader),
FileMessageReader::{read_next, read_len}, read_varint64, inner_sizeof_varint (common/protobuf_utils.rs).
Environment models (rs2smt/iomodel.py): quick_protobuf Writer / BytesReader primitives, tokio::fs as an in-memory file
table, id_to_bin / bin_to_id (their agreement for every u64 is Kani harness k05_2_id_bin).
Symbolic: term, vote, last-applied index, start index of the log range (64-bit); whether a log range / last-applied write
happens. Each symbolic integer forks on its varint size class, so encoded lengths are concrete per path.
"""
import time

import z3

from . import rseval, rsparse, iomodel
from .common import load_program
from .rseval import Struct, Enum, NONE, Some, Ok, Uninterp

FILES = ["src/raft/filestore/raftindex.rs", "src/raft/filestore/log.rs", "src/raft/filestore/model.rs", "src/common/protobuf_utils.rs"]


def make(prog):
    it = rseval.Interp(prog)
    it.lenient = True
    fs = iomodel.Fs()
    iomodel.install_protobuf(it, prog)
    iomodel.install_fs(it, fs)
    iomodel.install_byte_utils(it)

    def into(interp, recv, args):
        t = (interp.call_type or "").replace(" ", "").split("<")[0].split("::")[-1]
        if isinstance(recv, Struct) and t and t != recv.ty:
            fn = prog.trait_method(t, "from", "From")
            if fn is not None:
                return interp._invoke(fn, [recv], self_ty=t)
        return recv
    it.models[(None, "into")] = into
    return it, fs


def empty_dto(term, vote):
    return Struct("RaftIndexDto", {"logs": [], "current_log": 0, "snapshots": [], "last_snapshot": 0, "last_snapshot_index": 0, "last_snapshot_term": 0,
                                   "current_term": term, "voted_for": vote, "member": [], "member_after_consensus": [], "node_addrs": {}})


def run(tier, seed):
    t0 = time.time()
    info = {"files": FILES, "solver": "z3 " + z3.get_version_string(), "cmd": "python3-vt -m lib.main C05 (rs2smt/c05.py)"}
    obligations = []
    try:
        prog = load_program(FILES)
    except rsparse.Unsupported as e:
        return {"obligations": [{"engine": "smt", "harness": "s05_parse", "verdict": "inconclusive", "message": str(e)}], "info": info}
    term, vote, applied, start = z3.BitVec("term", 64), z3.BitVec("vote", 64), z3.BitVec("applied", 64), z3.BitVec("log_start", 64)
    with_log, write_applied, second = z3.Bool("catalogue_has_log_range"), z3.Bool("last_applied_written"), z3.Bool("second_hard_state_write")
    term2, vote2 = z3.BitVec("term2", 64), z3.BitVec("vote2", 64)
    ob = {"engine": "smt", "harness": "s05_1_hard_state_roundtrip", "encodes_files": FILES,
          "encodes": ["RaftIndexInnerManager::{init,write_index,write_last_applied_log,flush}", "RaftIndexDto::to_record_do", "From<RaftIndex> for RaftIndexDto",
                      "RaftIndex/LogRange::{get_size,write_message,from_reader} (generated code)", "FileMessageReader::{read_next,read_len}", "read_varint64", "inner_sizeof_varint"],
          "bound": "fresh index file; save hard state (term < 2^21, vote < 2^14; optionally one log range with arbitrary start; optionally a second, different hard state; "
                   "optionally last-applied < 2^59), restart, read back; log range start < 2^14", "queries": 0, "solver_s": 0.0, "distinct": 0}
    try:
        it, fs = make(prog)
        init_fn = prog.methods[("RaftIndexInnerManager", "init")]

        def thunk():
            fs.files.clear()
            m = it._invoke(init_fn, ["idx"], self_ty="RaftIndexInnerManager")
            if not (isinstance(m, Enum) and m.variant == "Ok"):
                return ("init-failed", None, None)
            m = m.payload[0]
            dto = empty_dto(term, vote)
            wl = it.branch(with_log)
            if wl:
                dto["logs"].append(Struct("LogRange", {"id": 1, "pre_term": 0, "start_index": start, "record_count": 0, "split_off_index": start,
                                                      "is_close": False, "mark_remove": False}))
            it.call_method("RaftIndexInnerManager", "write_index", m, [dto])
            exp_term, exp_vote = term, vote
            if it.branch(second):
                dto2 = empty_dto(term2, vote2)
                dto2["logs"] = list(dto["logs"])
                it.call_method("RaftIndexInnerManager", "write_index", m, [dto2])
                exp_term, exp_vote = term2, vote2
            wa = it.branch(write_applied)
            if wa:
                it.call_method("RaftIndexInnerManager", "write_last_applied_log", m, [applied])
                it.call_method("RaftIndexInnerManager", "flush", m, [])
            size = len(fs.files["idx"])
            m2 = it._invoke(init_fn, ["idx"], self_ty="RaftIndexInnerManager")
            return ("ok", m2, {"with_log": wl, "write_applied": wa, "file_len": size, "exp_term": exp_term, "exp_vote": exp_vote, "second": exp_term is term2})
        # value ranges (stated bound): each symbolic integer forks on its varint size class; full 64-bit ranges for all of them
        # multiply to 10^4 size combinations. term < 2^21 (1-3 bytes), vote and log start < 2^14 (1-2 bytes); the last-applied
        # index is a fixed 8-byte field and stays an arbitrary u64.
        # last applied < 2^59: log indexes grow by one per entry; the value 0x0800000000000000 is the placeholder that files
        # initialised by older versions carry until the first last-applied write and is read as 0 by design
        rng = [z3.ULT(term, 1 << 21), z3.ULT(vote, 1 << 14), z3.ULT(start, 1 << 14), z3.ULT(term2, 1 << 14), z3.ULT(vote2, 1 << 7),
               z3.ULT(applied, 1 << 59)]
        it.solver.push()
        it.solver.add(*rng)
        paths = it.explore(thunk, max_paths=100000)
        it.solver.pop()
        s = z3.Solver()
        s.set("timeout", 60000)
        s.add(*rng)
        nq = 0
        viol = None
        small_seen = 0
        # counterexamples that the native scenario can replay (a single hard-state write) are looked for first
        paths = sorted(paths, key=lambda p: (1 if (p[1] and p[1][2] and p[1][2].get("second")) else 0))
        for pc, r, exc in paths:
            if exc is not None:
                viol = ("panic while writing / reopening the index file: %s" % exc, pc, {}, "panic")
                break
            kind, m2, meta = r
            if kind != "ok":
                viol = ("index file cannot be initialised", pc, {}, "init")
                break
            if meta["file_len"] <= 20:
                small_seen += 1
            checks = []
            if not (isinstance(m2, Enum) and m2.variant == "Ok"):
                checks.append((z3.BoolVal(True), "index file does not reopen after a restart", "reopen-fails"))
            else:
                mm = m2.payload[0]
                ri = mm["raft_index"]
                checks.append((rseval.to_bv(ri["current_term"]) != meta["exp_term"], "term read back after restart differs from the saved term", "term-lost"))
                checks.append((rseval.to_bv(ri["voted_for"]) != meta["exp_vote"], "vote read back after restart differs from the saved vote", "vote-lost"))
                if meta["with_log"]:
                    if len(ri["logs"]) != 1:
                        checks.append((z3.BoolVal(True), "log catalogue lost on restart", "catalogue-lost"))
                    else:
                        checks.append((rseval.to_bv(ri["logs"][0]["start_index"]) != start, "log range start read back differs", "catalogue-changed"))
                elif len(ri["logs"]) != 0:
                    checks.append((z3.BoolVal(True), "log catalogue invented on restart", "catalogue-invented"))
                if meta["write_applied"]:
                    checks.append((rseval.to_bv(mm["last_applied_log"]) != applied, "last-applied index read back differs from the saved one", "applied-lost"))
                else:
                    checks.append((rseval.to_bv(mm["last_applied_log"]) != 0, "last-applied index reported after restart although none was ever saved", "applied-invented"))
            for bad, msg, tag in checks:
                s.push()
                s.add(*pc)
                s.add(bad)
                ts = time.time()
                res = s.check()
                ob["solver_s"] += time.time() - ts
                nq += 1
                if res == z3.sat:
                    m = s.model()
                    model = {k: m.eval(v, model_completion=True).as_long() for k, v in (("term", term), ("vote", vote), ("applied", applied), ("log_start", start),
                                                                                       ("term2", term2), ("vote2", vote2))}
                    model.update({"with_log": meta["with_log"], "write_applied": meta["write_applied"], "second_write": bool(m.eval(second, model_completion=True)),
                                  "file_len_before_restart": meta["file_len"]})
                    viol = (msg, pc, model, tag + ("+file-at-most-20-bytes" if meta["file_len"] <= 20 else ""))
                s.pop()
                if viol:
                    break
            if viol:
                break
        ob["queries"] = nq + it.queries
        ob["solver_s"] = round(ob["solver_s"], 2)
        ob["sample"] = {"paths_explored": len(paths), "paths_with_file_at_most_20_bytes": small_seen, "opaque_symbols": sorted(it.opaque_seen)[:20]}
        if viol:
            ob.update({"verdict": "violation", "message": viol[0], "tags": viol[3].split("+"), "counterexample": viol[2]})
        elif len(paths) < 8 or small_seen == 0:
            ob.update({"verdict": "inconclusive", "message": "vacuous: %d paths, %d with a small file" % (len(paths), small_seen)})
        else:
            ob.update({"verdict": "discharged", "distinct": nq})
    except rsparse.Unsupported as e:
        ob.update({"verdict": "inconclusive", "message": "encoder met source it cannot encode: %s" % e})
    obligations.append(ob)
    for ob in obligations:
        if ob.get("verdict") == "violation":
            replay_native(ob)
    n = 2 if tier == "quick" else 3
    ob2 = {"engine": "smt", "harness": "s05_2_actor_history", "encodes_files": FILES,
           "encodes": ["Handler<RaftIndexRequest>::handle", "RaftIndexManager::{write_hard_state,write_member,add_node_addr,write_logs,write_last_applied_log,write_index,load_index_info}",
                       "RaftIndexInnerManager::{init,write_index,write_last_applied_log,flush}", "RaftIndex/LogRange/NodeAddrItem generated message code"],
           "bound": "every sequence of %d requests over {SaveHardState(term < 2^14, vote < 2^7), SaveMember [1,2] + addresses, SaveMember [1] joint [1,3], AddNodeAddr of node 2 or 3 with a fresh address per step, SaveLogs(one range), "
                    "SaveLastAppliedLog(< 2^59)}; observed after every request in the same process and once after a restart; the actor future "
                    "(async block .into_actor().map().wait()) is run to completion at the call (wait() blocks the mailbox)" % n,
           "queries": 0, "solver_s": 0.0, "distinct": 0}
    try:
        ts = time.time()
        VALIDATE.update({"seed": seed, "n": 8 if tier == "quick" else 30, "hist": []})
        viol, npaths, nq, covers, opaque = actor_history(prog, n)
        ob2["solver_s"] = round(time.time() - ts, 1)
        ob2["queries"] = nq
        ob2["sample"] = {"paths_explored": npaths, "covers": covers, "opaque_symbols": opaque[:20]}
        missing = [c for c in ("two hard-state saves in a row", "restart") if not covers.get(c)]
        import os
        from .common import native_histories
        native_ok = not os.environ.get("VERIF_NO_NATIVE")
        if viol:
            ob2.update({"verdict": "violation", "message": viol["message"], "tags": viol["tags"], "counterexample": viol["model"]})
            if viol.get("ops") and native_ok:
                rr = native_histories("C05", "index", "violation", [{"ops": viol["ops"]}], {"obligation": "s05_2_actor_history", "model": viol["model"]}, viol["message"])
                ob2["replay_path"] = rr["path"]
                ob2["replay"] = {"path": rr["path"], "outcome": rr["outcome"], "message": rr["message"]}
                if rr["outcome"] != "reproduced":
                    ob2.update({"verdict": "inconclusive", "message": "engine-S counterexample (%s) did not reproduce on the real RaftIndexManager actor (%s %s)" % (viol["message"], rr["outcome"], rr["message"])})
                else:
                    ob2["message"] = "%s [real RaftIndexManager: %s]" % (viol["message"], rr["message"][:300])
            else:
                from lib import native
                path = native.write_replay("C05", "c05", "model", [], {"engine": "smt", "mode": "model-only", "obligation": "s05_2_actor_history", "message": viol["message"], "model": viol["model"]})
                ob2["replay_path"] = path
                ob2["replay"] = {"path": path, "outcome": "model-only", "message": "request history for the RaftIndexManager actor"}
        elif missing:
            ob2.update({"verdict": "inconclusive", "message": "reachability witness never reached: %s" % missing})
        else:
            ob2.update({"verdict": "discharged", "distinct": npaths})
            if VALIDATE["hist"] and native_ok:
                val = native_histories("C05", "index", "validate", VALIDATE["hist"])
                info["translator_validation_actor"] = val
                if val["outcome"] != "passed":
                    obligations.append({"engine": "smt", "harness": "s05_translator_validation", "verdict": "inconclusive", "queries": 0, "solver_s": 0,
                                        "message": "the real RaftIndexManager actor and the encoding disagree on a sampled history: %s" % val["message"]})
    except rsparse.Unsupported as e:
        ob2.update({"verdict": "inconclusive", "message": "encoder met source it cannot encode: %s" % e})
    obligations.append(ob2)
    ob3 = record_length_obligation(prog, tier)
    if ob3.get("verdict") == "violation":
        from lib import native as _n
        pth = _n.write_replay("C05", "c05", "model", [], {"engine": "smt", "mode": "model-only", "obligation": ob3["harness"], "message": ob3["message"], "model": ob3.get("counterexample")})
        ob3["replay_path"] = pth
        ob3["replay"] = {"path": pth, "outcome": "model-only", "message": "term, vote and record length for the index file"}
    obligations.append(ob3)
    # the level async-raft sees: FileStore::{save_hard_state, get_initial_state} on top of the real index manager handler
    from . import c05store
    ob4 = c05store.run(tier, seed)
    ops4 = ob4.pop("_ops", None)
    import os as _os
    if not _os.environ.get("VERIF_NO_NATIVE"):
        from .common import native_scenarios
        if ob4.get("verdict") == "violation" and ops4:
            rr = native_scenarios("C05", "violation", ["filestore_hard_state"], ob4["message"], {"obligation": ob4["harness"], "model": ob4.get("counterexample"), "ops": ops4})
            ob4["replay_path"] = rr["path"]
            ob4["replay"] = {"path": rr["path"], "outcome": rr["outcome"], "message": rr["message"]}
            if rr["outcome"] != "reproduced":
                ob4.update({"verdict": "inconclusive", "message": "engine-S counterexample (%s) did not reproduce on a real node's FileStore (%s %s)" % (ob4["message"], rr["outcome"], rr["message"])})
            else:
                ob4["message"] = "%s [real node, through RaftStorage::save_hard_state / get_initial_state: %s]" % (ob4["message"], rr["message"][:300])
        elif ob4.get("verdict") == "discharged":
            sample = [{"op": "save-hard-state", "term": 4, "vote": 3}, {"op": "save-hard-state", "term": 5, "vote": None}, {"op": "save-member", "member": [1, 2]},
                      {"op": "save-hard-state", "term": 5, "vote": 2}]
            nv = native_scenarios("C05", "validate", ["filestore_hard_state"], "", {"ops": sample})
            info["translator_validation_filestore"] = {"outcome": nv["outcome"], "message": nv["message"], "path": nv["path"]}
            if nv["outcome"] != "passed":
                ob4.update({"verdict": "inconclusive", "message": "the obligation is discharged but a real node's FileStore breaks it on a sampled history: %s" % nv["message"]})
    elif ob4.get("verdict") == "violation":
        pass
    obligations.append(ob4)
    info["wall_s"] = round(time.time() - t0, 1)
    return {"obligations": obligations, "info": info}


VALIDATE = {"seed": 0, "n": 8, "hist": []}


def actor_history(prog, nsteps):
    """s05_2: the RaftIndexManager actor (Handler<RaftIndexRequest> and the write_* methods that funnel into write_index) driven by every
    sequence of nsteps save requests; the state reported in the same process (LoadIndexInfo) and after a restart (init of the same file)
    must be the one of the last acknowledged save of each field"""
    it, fs = make(prog)

    def into_actor(interp, recv, args):
        return Struct("ActorFut", {"v": recv, "act": args[0]})
    it.models[(None, "into_actor")] = into_actor

    def fut_map(interp, recv, args):
        interp.call_value(args[0], [recv["v"], recv["act"], "ctx"])
        return recv
    it.models[("ActorFut", "map")] = fut_map
    it.models[("ActorFut", "wait")] = lambda interp, recv, args: ()
    it.models[("ActorFut", "spawn")] = lambda interp, recv, args: ()
    init_fn = prog.methods[("RaftIndexInnerManager", "init")]
    handle = prog.trait_method("RaftIndexManager", "handle", "RaftIndexRequest")
    step = [z3.BitVec("req%d" % i, 8) for i in range(nsteps)]
    addr_known = [z3.Bool("req%d_addr_of_node_2" % i) for i in range(nsteps)]
    terms = [z3.BitVec("term%d" % i, 64) for i in range(nsteps)]
    votes = [z3.BitVec("vote%d" % i, 64) for i in range(nsteps)]
    applied = [z3.BitVec("applied%d" % i, 64) for i in range(nsteps)]
    rng = [z3.ULT(t, 1 << 14) for t in terms] + [z3.ULT(v, 1 << 7) for v in votes] + [z3.ULT(a, 1 << 59) for a in applied]
    covers = {}

    def cover(c):
        covers[c] = covers.get(c, 0) + 1

    def possible(cond):
        if isinstance(cond, bool):
            return cond
        cond = z3.simplify(cond)
        if z3.is_false(cond):
            return False
        if it._feasible(cond):
            it.pc.append(cond)
            return True
        return False

    def differs(a, b):
        if is_sym_(a) or is_sym_(b):
            return possible(rseval.to_bv(a) != rseval.to_bv(b))
        return a != b

    def is_sym_(x):
        return isinstance(x, z3.ExprRef)

    def compare(ri, last_applied, ref, log, where):
        if differs(ri["current_term"], ref["term"]):
            return ("violation", "%s: the term reported differs from the last acknowledged save" % where, log, "term-lost")
        if differs(ri["voted_for"], ref["vote"]):
            return ("violation", "%s: the vote reported differs from the last acknowledged save" % where, log, "vote-lost")
        if list(ri["member"]) != ref["member"]:
            return ("violation", "%s: membership %s reported, %s was acknowledged" % (where, list(ri["member"]), ref["member"]), log, "member-lost")
        if list(ri["member_after_consensus"]) != ref["mac"]:
            return ("violation", "%s: joint membership %s reported, %s was acknowledged" % (where, list(ri["member_after_consensus"]), ref["mac"]), log, "member-lost")
        if dict(ri["node_addrs"]) != ref["addrs"]:
            return ("violation", "%s: node addresses %s reported, %s were acknowledged" % (where, dict(ri["node_addrs"]), ref["addrs"]), log, "addr-lost")
        if [l["start_index"] for l in ri["logs"]] != ref["logs"]:
            return ("violation", "%s: log catalogue %s reported, %s was saved" % (where, [l["start_index"] for l in ri["logs"]], ref["logs"]), log, "catalogue-lost")
        if differs(last_applied, ref["applied"]):
            return ("violation", "%s: last-applied index differs from the last saved one" % where, log, "applied-lost")
        return None

    ops_box = [[]]

    def thunk():
        r = thunk_inner()
        return r + (list(ops_box[0]),)

    def thunk_inner():
        fs.files.clear()
        ops_box[0] = []
        m = it._invoke(init_fn, ["idx"], self_ty="RaftIndexInnerManager")
        if not (isinstance(m, Enum) and m.variant == "Ok"):
            return ("violation", "a fresh index file cannot be initialised", [], "init")
        actor = Struct("RaftIndexManager", {"path": "idx", "lock_file": None, "inner": Some(m.payload[0]), "naming_inner_node_manage": NONE})
        ref = {"term": 0, "vote": 0, "member": [], "mac": [], "addrs": {}, "logs": [], "applied": 0}
        log = []
        rec = ops_box[0] = []
        for i in range(nsteps):
            op = None
            for cand in range(6):
                if it.branch(step[i] == cand):
                    op = cand
                    break
            if op is None:
                raise rseval.PathAbort()
            if op == 0:
                msg = Enum("RaftIndexRequest", "SaveHardState", {"current_term": terms[i], "voted_for": votes[i]})
                upd = {"term": terms[i], "vote": votes[i]}
                rec.append({"op": "save-hard-state", "term": terms[i], "vote": votes[i]})
                log.append(("save-hard-state", "term%d" % i, "vote%d" % i))
            elif op == 1:
                msg = Enum("RaftIndexRequest", "SaveMember", {"member": [1, 2], "member_after_consensus": NONE, "node_addr": Some({1: "a:1", 2: "b:2"})})
                upd = {"member": [1, 2], "addrs": {1: "a:1", 2: "b:2"}}
                rec.append({"op": "save-member", "member": [1, 2], "member_after_consensus": None, "node_addr": {"1": "a:1", "2": "b:2"}})
                log.append(("save-member", [1, 2], "with addresses"))
            elif op == 2:
                msg = Enum("RaftIndexRequest", "SaveMember", {"member": [1], "member_after_consensus": Some([1, 3]), "node_addr": NONE})
                upd = {"member": [1], "mac": [1, 3]}
                rec.append({"op": "save-member", "member": [1], "member_after_consensus": [1, 3], "node_addr": None})
                log.append(("save-member", [1], "joint [1,3]"))
            elif op == 3:
                # the address differs from step to step: re-adding a known node under a new address is in the space
                nid = 2 if it.branch(addr_known[i]) else 3
                adr = "n%d:%d" % (nid, 9000 + i)
                msg = Enum("RaftIndexRequest", "AddNodeAddr", [nid, adr])
                na = dict(ref["addrs"])
                na[nid] = adr
                upd = {"addrs": na}
                rec.append({"op": "add-node-addr", "id": nid, "addr": adr})
                log.append(("add-node-addr", nid, adr))
            elif op == 4:
                st = 5 + i
                msg = Enum("RaftIndexRequest", "SaveLogs", [[Struct("LogRange", {"id": 1, "pre_term": 0, "start_index": st, "record_count": 0, "split_off_index": st,
                                                                                  "is_close": False, "mark_remove": False})]])
                upd = {"logs": [st]}
                rec.append({"op": "save-logs", "start": st})
                log.append(("save-logs", st))
            else:
                msg = Enum("RaftIndexRequest", "SaveLastAppliedLog", [applied[i]])
                upd = {"applied": applied[i]}
                rec.append({"op": "save-last-applied", "applied": applied[i]})
                log.append(("save-last-applied", "applied%d" % i))
            r = it._invoke(handle, [actor, msg, "ctx"], self_ty="RaftIndexManager")
            if not (isinstance(r, Enum) and r.variant == "Ok"):
                return ("violation", "a save request is answered with an error", log, "save-error")
            ref.update(upd)
            if i > 0 and op == 0 and log[-2][0] == "save-hard-state":
                cover("two hard-state saves in a row")
            # same process
            r = it._invoke(handle, [actor, Enum("RaftIndexRequest", "LoadIndexInfo", None), "ctx"], self_ty="RaftIndexManager")
            if not (isinstance(r, Enum) and r.variant == "Ok" and isinstance(r.payload[0], Enum) and r.payload[0].variant == "RaftIndexInfo"):
                return ("violation", "the index info cannot be loaded in the running process", log, "load-error")
            info_ = r.payload[0].payload
            bad = compare(info_["raft_index"], info_["last_applied_log"], ref, log, "same process, after request %d" % (i + 1))
            if bad:
                return bad
        # restart
        inner = actor["inner"]
        if isinstance(inner, Enum) and inner.variant == "Some":
            it.call_method("RaftIndexInnerManager", "flush", inner.payload[0], [])
        m2 = it._invoke(init_fn, ["idx"], self_ty="RaftIndexInnerManager")
        log.append(("restart",))
        if not (isinstance(m2, Enum) and m2.variant == "Ok"):
            return ("violation", "the index file does not reopen after a restart", log, "reopen-fails")
        mm = m2.payload[0]
        cover("restart")
        bad = compare(mm["raft_index"], mm["last_applied_log"], ref, log, "after restart")
        if bad:
            return bad
        return ("ok", None, log, None)
    it.solver.push()
    it.solver.add(*rng)
    paths = it.explore(thunk, max_paths=200000)
    it.solver.pop()
    from .common import concretize
    s = z3.Solver()
    s.add(*rng)
    viol = None
    ok_paths = []
    for pc, r, exc in paths:
        if exc is not None:
            viol = {"message": "panic in the index manager: %s" % exc, "tags": ["panic"], "model": {}}
            break
        if r[0] == "violation":
            s.push()
            s.add(*pc)
            if s.check() == z3.sat:
                m_ = s.model()
                viol = {"message": r[1], "tags": [r[3]], "model": {"history": [list(map(str, e)) for e in r[2]],
                        "values": {str(v): m_.eval(v, model_completion=True).as_long() for v in terms + votes + applied}},
                        "ops": concretize(r[4], m_)}
            s.pop()
            if viol:
                break
        else:
            ok_paths.append((pc, r[4]))
    import random
    rnd = random.Random(VALIDATE["seed"])
    hist = []
    for pc, ops in rnd.sample(ok_paths, min(VALIDATE["n"], len(ok_paths))):
        s.push()
        s.add(*pc)
        if s.check() == z3.sat:
            hist.append({"ops": concretize(ops, s.model())})
        s.pop()
    VALIDATE["hist"] = hist
    return viol, len(paths), it.queries, covers, sorted(it.opaque_seen)


def le(v, n):
    return [(v >> (8 * i)) & 0xff for i in range(n)]


def replay_native(ob):
    """the model goes through the native scenario harness/c05.rs::k05_1_hard_state_{fresh,with_log} (real tokio files) when it has that shape"""
    from lib import native
    ce = ob["counterexample"]
    if ce.get("second_write"):
        path = native.write_replay("C05", "c05", "model", [], {"engine": "smt", "mode": "model-only", "message": ob["message"], "model": ce})
        ob["replay_path"] = path
        ob["replay"] = {"path": path, "outcome": "model-only", "message": "two hard-state writes: no native scenario of that shape"}
        return
    vals = [le(ce["term"], 8), le(ce["vote"], 8), le(ce["applied"], 8), [1 if ce["write_applied"] else 0]]
    if ce["with_log"]:
        vals.append(le(ce["log_start"], 8))
    name = "k05_1_hard_state_with_log" if ce["with_log"] else "k05_1_hard_state_fresh"
    path = native.write_replay("C05", "c05", name, vals, {"engine_s_model": ce})
    ob["replay_path"] = path
    exe, berr = native.build()
    if exe is None:
        ob.update({"verdict": "inconclusive", "message": "native replay build failed: " + berr[-300:]})
        return
    rr = native.run_replay(exe, path)
    ob["replay"] = {"path": path, "outcome": rr["outcome"], "message": rr["message"], "tags": rr["tags"]}
    if rr["outcome"] != "reproduced":
        ob.update({"verdict": "inconclusive", "message": "solver counterexample did not reproduce against the real code (%s %s): encoder or model wrong" % (rr["outcome"], rr["message"])})
    else:
        ob["message"] = rr["message"] or ob["message"]
        ob["tags"] = sorted(set(ob.get("tags", [])) | set(rr["tags"]))


if __name__ == "__main__":
    import rs2smt.c05 as me
    me.replay_native = lambda ob: None
    r = me.run("quick", 0)
    for ob in r["obligations"]:
        print(ob["harness"], ob.get("verdict"), str(ob.get("message", ""))[:400], ob.get("counterexample"), ob.get("queries"), ob.get("solver_s"), str(ob.get("sample"))[:300])
    print(r["info"])


def record_length_obligation(prog, tier):
    """s05_3: the stored index record at and around the lengths where its length prefix changes shape (127/128/129, 255/256/257 bytes,
    16383/16384): a node address of chosen length pads the record; save, restart, read back."""
    import time as _t
    t0 = _t.time()
    ob = {"engine": "smt", "harness": "s05_3_record_length_boundaries", "encodes_files": FILES,
          "encodes": ["RaftIndexInnerManager::{init,write_index}", "RaftIndexDto::to_record_do", "From<RaftIndex> for RaftIndexDto", "RaftIndex/NodeAddrItem message code", "FileMessageReader::{read_next,read_len}"],
          "bound": "term, vote < 128 (symbolic), one node address whose length ranges over 100..=135, 236..=262 and 16360..=16390 so that the record's body length crosses 128, 256 and 16384; save, restart, read back",
          "queries": 0, "solver_s": 0.0, "distinct": 0}
    try:
        it, fs = make(prog)
        init_fn = prog.methods[("RaftIndexInnerManager", "init")]
        term, vote, lv = z3.BitVec("term", 64), z3.BitVec("vote", 64), z3.BitVec("address_length_choice", 16)
        lens = list(range(100, 136)) + list(range(236, 263)) + (list(range(16360, 16391)) if tier != "quick" else [16372, 16373, 16374, 16375, 16376, 16377, 16378])
        seen = {}

        def thunk():
            fs.files.clear()
            m = it._invoke(init_fn, ["idx"], self_ty="RaftIndexInnerManager")
            if not (isinstance(m, Enum) and m.variant == "Ok"):
                return ("violation", "a fresh index file cannot be initialised", "init", 0)
            m = m.payload[0]
            L = lens[-1]
            for k_, o in enumerate(lens[:-1]):
                if it.branch(lv == k_):
                    L = o
                    break
            dto = empty_dto(term, vote)
            dto["node_addrs"] = {2: "a" * L}
            dto["member"] = [1, 2]
            it.call_method("RaftIndexInnerManager", "write_index", m, [dto])
            body = len(fs.files["idx"]) - 8
            m2 = it._invoke(init_fn, ["idx"], self_ty="RaftIndexInnerManager")
            if not (isinstance(m2, Enum) and m2.variant == "Ok"):
                return ("violation", "an index file whose record occupies %d bytes does not reopen" % body, "reopen-fails", body)
            ri = m2.payload[0]["raft_index"]
            addr = ri["node_addrs"].get(2)
            if addr is None or len(addr) != L or list(ri["member"]) != [1, 2]:
                return ("violation", "an index record of %d bytes (address of %d characters) reads back with address %s and members %s" % (body, L, "missing" if addr is None else "of %d characters" % len(addr), list(ri["member"])),
                        "addr-lost", body)
            for a, b_, what in ((ri["current_term"], term, "term"), (ri["voted_for"], vote, "vote")):
                cond = z3.simplify(rseval.to_bv(a) != b_)
                if not z3.is_false(cond) and it._feasible(cond):
                    it.pc.append(cond)
                    return ("violation", "an index record of %d bytes reads back with another %s" % (body, what), what + "-lost", body)
            seen[body] = True
            return ("ok", None, None, body)
        rng = [z3.ULT(term, 128), z3.ULT(vote, 128)]
        it.solver.push()
        it.solver.add(*rng)
        paths = it.explore(thunk, max_paths=20000)
        it.solver.pop()
        viol = None
        s = z3.Solver()
        s.add(*rng)
        for pc, r, exc in paths:
            if exc is not None:
                viol = {"message": "panic while writing / reopening the index file: %s" % exc, "tags": ["panic"], "model": {}}
                break
            if r[0] == "violation":
                s.push()
                s.add(*pc)
                if s.check() == z3.sat:
                    m_ = s.model()
                    viol = {"message": r[1], "tags": [r[2]], "model": {"term": m_.eval(term, model_completion=True).as_long(), "vote": m_.eval(vote, model_completion=True).as_long(), "record_bytes": r[3]}}
                s.pop()
                if viol:
                    break
        ob["queries"] = it.queries
        ob["solver_s"] = round(_t.time() - t0, 1)
        lens_seen = sorted(seen)
        ob["sample"] = {"paths_explored": len(paths), "record_lengths_covered": [lens_seen[0], lens_seen[-1]] if lens_seen else [], "boundaries_hit": [b for b in (127, 128, 129, 255, 256, 257) if any((x - 2) == b or (x - 1) == b or x == b for x in lens_seen)]}
        if viol:
            ob.update({"verdict": "violation", "message": viol["message"], "tags": viol["tags"], "counterexample": viol["model"]})
        elif len(lens_seen) < 20:
            ob.update({"verdict": "inconclusive", "message": "only %d record lengths explored" % len(lens_seen)})
        else:
            ob.update({"verdict": "discharged", "distinct": len(paths)})
    except rsparse.Unsupported as e:
        ob.update({"verdict": "inconclusive", "message": "encoder met source it cannot encode: %s" % e})
    return ob
