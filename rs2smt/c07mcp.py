"""C07 — the MCP component: a node that applied the committed requests one by one (leader apply / follower replication) and a
node that went through start-up replay answer every query alike.

The three dispatch functions hand an McpReq to the same Handler<McpManagerRaftReq> (decided per variant by s07_McpReq); what
differs between the paths is that start-up replay ends with load_complete -> RaftApplyDataRequest::LoadCompleted ->
McpManager::load_completed, which REBUILDS the derived tables (unique key -> id, tool-spec reference counts) from the server
table, while a live node maintains them incrementally.

From source: Handler<McpManagerRaftReq>::handle (AddServer, UpdateServer, PublishCurrentServer, RemoveServer, UpdateToolSpec,
RemoveToolSpec), Handler<McpManagerReq>::handle (GetServer, GetServerByKey, GetToolSpec), Handler<RaftApplyDataRequest>::handle
(LoadCompleted), McpManager::{update_server, publish_server, remove_server, update_tool_spec, remove_tool_spec,
init_tool_spec_version_ref_map, calculate_tool_ref, ...} (src/mcp/core.rs), McpServer / McpServerValue::{update_param, publish,
check_valid} (model/mcp.rs), ToolSpec / ToolSpecParam / McpSimpleTool::to_mcp_tool (model/tools.rs), ToolSpecUtils (utils.rs).

Scenario: every history of N committed MCP requests over two servers (ids 1, 2), two unique keys (no two servers hold the same
key at a time: the console / import paths look the key up before they propose the request) and one tool spec T
  add(id, key, tools)       AddServer with tools [] or [T v1]        update(id, key?, tools)   UpdateServer, key kept or changed
  publish(id)               PublishCurrentServer                      remove(id)                RemoveServer
  spec(T, v)                UpdateToolSpec (version 1 or 2)           unspec(T)                 RemoveToolSpec
Replica L applies them one by one. Replica R applies the same requests and restarts behind a symbolic prefix of the history:
either it replayed its log up to that point (the same handler) and got LoadCompleted, or the log was compacted and it loads
the snapshot the component wrote (build_snapshot -> load_snapshot_record; the records carry the McpServerDo / McpToolSpecDo
objects themselves, the generated message code and serde_json are outside) and then gets LoadCompleted.
After the history a closing probe - RemoveToolSpec(T), the request whose outcome depends on the derived reference counts - goes to both.
Oracle: after the history and after the probe both replicas answer GetServerByKey for each of the three keys, GetServer for both ids (present,
unique key, tool list of the current value) and GetToolSpec(T) (present, current version, versions) alike, and every request is
answered alike (Ok / Err) on both.
"""
import copy
import time

import z3

from . import rseval, rsparse
from .c11 import pick
from .common import load_program, concretize
from .rseval import Struct, Enum, NONE, Some, Ok, Uninterp

FILES = ["src/mcp/core.rs", "src/mcp/model/mcp.rs", "src/mcp/model/tools.rs", "src/mcp/model/actor_model.rs", "src/mcp/utils.rs", "src/common/constant.rs"]
KEYS = ["key-a", "key-b"]
DANGLING = False
TKEY = Struct("ToolKey", {"namespace": "ns", "group": "g", "tool_name": "t"})


def new_mgr():
    return Struct("McpManager", {"server_map": {}, "tool_spec_map": {}, "tool_spec_version_ref_map": {}, "server_key_to_id_map": {}, "sequence_manager": NONE})


def simple_tool(version):
    return Struct("McpSimpleTool", {"tool_name": "t", "tool_key": copy.deepcopy(TKEY), "tool_version": version, "route_rule": Struct("ToolRouteRule", {"url": "/"})})


def server_param(sid, key, tools, t, publish=None):
    return Struct("McpServerParam", {"id": sid, "unique_key": Some(key) if key is not None else NONE, "value_id": 10 * sid + t, "tools": tools, "op_user": "u", "update_time": 1000 + t,
                                     "namespace": Some("ns"), "name": Some("srv%d" % sid), "description": Some("d"), "token": NONE, "auth_keys": Some(["ak"]),
                                     "publish_value_id": Some(publish) if publish is not None else NONE})


def spec_param(version, t):
    return Struct("ToolSpecParam", {"namespace": "ns", "group": "g", "tool_name": "t", "parameters": Struct("ToolFunctionValue", {"name": "t", "description": "v%d" % version, "input_schema": "schema"}),
                                    "version": version, "update_time": 1000 + t, "op_user": Some("u")})


class Writer:
    def __init__(self):
        self.ty = "WriterAddr"
        self.records = []


class DoWriter:
    """quick_protobuf::Writer standing in: the message object itself is the 'encoding' (the generated code is outside this obligation)"""
    def __init__(self, buf):
        self.ty = "DoWriter"
        self.buf = buf


class DoReader:
    def __init__(self, data):
        self.ty = "DoReader"
        self.data = data


def run(tier, seed):
    t0 = time.time()
    n = 3 if tier == "quick" else 4
    ob = {"engine": "smt", "harness": "s07_mcp_component_paths", "encodes_files": FILES, "queries": 0, "solver_s": 0.0, "distinct": 0,
          "encodes": ["Handler<McpManagerRaftReq>::handle", "Handler<McpManagerReq>::handle (GetServer, GetServerByKey, GetToolSpec)", "Handler<RaftApplyDataRequest>::handle (BuildSnapshot, LoadSnapshotRecord, LoadCompleted)", "McpManager::{build_snapshot,load_snapshot_record}", "McpServer / McpServerValue / ToolSpec / McpTool::{to_do,from_do}",
                      "McpManager::{update_server,publish_server,remove_server,update_tool_spec,remove_tool_spec,init_tool_spec_version_ref_map,calculate_tool_ref,add_tool_spec_ref,update_tool_spec_ref}",
                      "McpServer::{update_param,publish,check_valid}", "McpServerValue::update_param", "ToolSpec::update_param", "McpSimpleTool::to_mcp_tool", "ToolSpecUtils::{add_tool_ref_to_map,merge_ref_map,update_server_ref_to_map}"],
          "bound": "every history of %d committed MCP requests over {AddServer, UpdateServer (key kept / changed, tools [] / [T at the oldest or the newest version created so far]), PublishCurrentServer, RemoveServer, UpdateToolSpec (a fresh, increasing version each time: they come from a sequence), RemoveToolSpec} on two servers, "
                   "two unique keys (never shared by two servers), one tool spec; replica R passes LoadCompleted behind a symbolic prefix of the history" % n}
    try:
        prog = load_program(FILES)
        it = rseval.Interp(prog)
        it.lenient = True
        it.resolve_into = True
        for nm in ("HashMap::new", "BTreeMap::new"):
            it.fn_models[nm] = lambda interp, args: {}
        it.fn_models["HashSet::new"] = lambda interp, args: []
        it.fn_models["Vec::new"] = lambda interp, args: []
        it.fn_models["Vec::with_capacity"] = lambda interp, args: []
        # snapshot records carry the message objects (McpServerDo / McpToolSpecDo) themselves; serde_json of the tool function / route rule is the identity
        it.fn_models["Writer::new"] = lambda interp, args: DoWriter(args[0])
        it.models[("DoWriter", "write_message")] = lambda interp, recv, args: recv.buf.append(copy.deepcopy(args[0])) or Ok(())
        it.fn_models["BytesReader::from_bytes"] = lambda interp, args: DoReader(args[0])
        it.models[("DoReader", "read_message")] = lambda interp, recv, args: Ok(copy.deepcopy(recv.data[0]))
        it.fn_models["Cow::Borrowed"] = lambda interp, args: args[0]
        it.fn_models["Cow::Owned"] = lambda interp, args: args[0]
        it.fn_models["serde_json::to_string"] = lambda interp, args: Ok(args[0])
        it.fn_models["to_string"] = lambda interp, args: Ok(args[0])
        it.fn_models["serde_json::from_str"] = lambda interp, args: Ok(args[0])
        it.fn_models["from_str"] = lambda interp, args: Ok(args[0])
        it.fn_models["id_to_bin"] = lambda interp, args: args[0]
        it.models[(None, "into_bytes")] = lambda interp, recv, args: recv

        def writer_do_send(interp, recv, args):
            msg = args[0]
            payload = msg.payload if isinstance(msg, Enum) else getattr(msg, "args", None)
            recv.records.append(payload[0] if isinstance(payload, (list, tuple)) else payload)
            return ()
        it.models[("WriterAddr", "do_send")] = writer_do_send
        raft_h = prog.trait_method("McpManager", "handle", "McpManagerRaftReq")
        query_h = prog.trait_method("McpManager", "handle", "McpManagerReq")
        apply_h = prog.trait_method("McpManager", "handle", "RaftApplyDataRequest")
        if raft_h is None or query_h is None or apply_h is None:
            raise rsparse.Unsupported("handlers of McpManager not found")
        opv = [z3.BitVec("op%d" % i, 8) for i in range(n)]
        sidv = [z3.Bool("op%d_server_2" % i) for i in range(n)]
        keyv = [z3.BitVec("op%d_key" % i, 8) for i in range(n)]
        toolv = [z3.BitVec("op%d_tools" % i, 8) for i in range(n)]
        verv = [z3.Bool("op%d_version_2" % i) for i in range(n)]
        restart_at = z3.BitVec("restart_behind_step", 8)
        from_snapshot = z3.Bool("restart_from_a_snapshot")
        covers = {"a server's unique key is changed": 0, "a server drops a tool": 0, "a tool spec is removed": 0, "replica R restarts in the middle of the history": 0, "replica R restarts from a snapshot": 0}
        ops_box = [[]]

        def answer_kind(r):
            return "Ok" if isinstance(r, Enum) and r.variant == "Ok" else "Err"

        def observe(mgr):
            out = {}
            for k in KEYS:
                r = it._invoke(query_h, [mgr, Enum("McpManagerReq", "GetServerByKey", [k]), "ctx"], self_ty="McpManager")
                v = r.payload[0].payload[0] if answer_kind(r) == "Ok" else None
                out["by-key " + k] = v.payload[0]["id"] if isinstance(v, Enum) and v.variant == "Some" else None
            for sid in (1, 2):
                r = it._invoke(query_h, [mgr, Enum("McpManagerReq", "GetServer", [sid]), "ctx"], self_ty="McpManager")
                v = r.payload[0].payload[0] if answer_kind(r) == "Ok" else None
                if isinstance(v, Enum) and v.variant == "Some":
                    s_ = v.payload[0]
                    out["server %d" % sid] = (s_["unique_key"], [(t["tool_version"], t["spec"]["description"] if isinstance(t["spec"], Struct) else str(t["spec"])) for t in s_["current_value"]["tools"]],
                                              s_["release_value"]["id"])
                else:
                    out["server %d" % sid] = None
            r = it._invoke(query_h, [mgr, Enum("McpManagerReq", "GetToolSpec", [copy.deepcopy(TKEY)]), "ctx"], self_ty="McpManager")
            v = r.payload[0].payload[0] if answer_kind(r) == "Ok" else None
            if isinstance(v, Enum) and v.variant == "Some":
                ts = v.payload[0]
                out["tool spec"] = (ts["current_version"], sorted(ts["versions"].keys()))
            else:
                out["tool spec"] = None
            return out

        def thunk():
            live, rep = new_mgr(), new_mgr()
            rec = ops_box[0] = []
            ra = pick(it, restart_at, list(range(1, n + 1)))
            snap = it.branch(from_snapshot)
            key_of = {}
            tools_of = {}
            spec_versions = set()   # versions of T ever created (a superset of the existing ones: good enough to rule out references to versions that never existed)
            for i in range(n):
                # the first request creates server 1 or the tool spec (servers are symmetric; nothing else has an effect on an empty registry)
                op = pick(it, opv[i], ["add", "update", "publish", "remove", "spec", "unspec"] if i else ["add", "spec"])
                sid = (2 if it.branch(sidv[i]) else 1) if i else 1
                reqs = None
                if op in ("add", "update"):
                    key = pick(it, keyv[i], KEYS + [None]) if op == "update" else pick(it, keyv[i], KEYS)
                    tchoice = pick(it, toolv[i], [0, 1, 2])   # no tool / T at the oldest existing version / T at the newest existing version
                    ts_ = live["tool_spec_map"].get(TKEY)
                    existing = sorted(ts_["versions"].keys()) if ts_ is not None else []
                    # outside the claim (stated): a server that names a tool-spec version that does not exist - see DESIGN.md, observation O-mcp-dangling
                    if tchoice and not existing and not DANGLING:
                        raise rseval.PathAbort()
                    if tchoice == 2 and len(existing) < 2:
                        raise rseval.PathAbort()   # same as choice 1
                    tv = 0 if not tchoice else ((existing[0] if tchoice == 1 else existing[-1]) if existing else 1)
                    tools = [simple_tool(tv)] if tv else []
                    # the callers' guarantee: the console / import paths refuse a unique key that another server holds (GetServerByKey before the request is proposed)
                    if key is not None and any(k2 == key for s2, k2 in key_of.items() if s2 != sid):
                        raise rseval.PathAbort()
                    if op == "add" and sid in key_of:
                        raise rseval.PathAbort()   # AddServer creates: ids come from a sequence
                    if op == "update" and sid not in key_of:
                        raise rseval.PathAbort()
                    mk = lambda: Enum("McpManagerRaftReq", "AddServer" if op == "add" else "UpdateServer", [server_param(sid, key, [copy.deepcopy(x) for x in tools], i)])
                    rec.append({"op": op, "server": sid, "key": key, "tools": ["T v%d" % tv] if tv else []})
                    if sid in key_of and key is not None and key_of[sid] != key:
                        covers["a server's unique key is changed"] += 1
                    if tools_of.get(sid) and not tools:
                        covers["a server drops a tool"] += 1
                    if key is not None:
                        key_of[sid] = key
                    elif sid not in key_of:
                        key_of[sid] = ""
                    tools_of[sid] = tools
                elif op == "publish":
                    mk = lambda: Enum("McpManagerRaftReq", "PublishCurrentServer", [sid, 100 + i])
                    rec.append({"op": "publish", "server": sid})
                elif op == "remove":
                    mk = lambda: Enum("McpManagerRaftReq", "RemoveServer", [sid])
                    rec.append({"op": "remove", "server": sid})
                    key_of.pop(sid, None)
                    tools_of.pop(sid, None)
                elif op == "spec":
                    v = i + 1   # versions come from a sequence: fresh and increasing
                    mk = lambda: Enum("McpManagerRaftReq", "UpdateToolSpec", [spec_param(v, i)])
                    rec.append({"op": "spec", "version": v})
                    spec_versions.add(v)
                else:
                    mk = lambda: Enum("McpManagerRaftReq", "RemoveToolSpec", [copy.deepcopy(TKEY)])
                    rec.append({"op": "unspec"})
                    covers["a tool spec is removed"] += 1
                ra_ = it._invoke(raft_h, [live, mk(), "ctx"], self_ty="McpManager")
                rb_ = it._invoke(raft_h, [rep, mk(), "ctx"], self_ty="McpManager")
                rec[-1]["answer"] = answer_kind(ra_)
                if answer_kind(ra_) != answer_kind(rb_):
                    return ("violation", "request %d (%s) is answered %s on the node that applied the log one by one and %s on the node that restarted behind request %d"
                            % (i + 1, rec[-1]["op"], answer_kind(ra_), answer_kind(rb_), ra) + (" from a snapshot" if snap else ""), "mcp-answer-differs", ra, snap)
                if i + 1 == ra:
                    if snap:
                        # the log up to here was compacted: the restarted node loads the snapshot the component wrote
                        w = Writer()
                        r_ = it._invoke(apply_h, [rep, Enum("RaftApplyDataRequest", "BuildSnapshot", [w]), "ctx"], self_ty="McpManager")
                        if answer_kind(r_) != "Ok":
                            return ("violation", "the MCP component cannot build its snapshot", "mcp-snapshot-error", ra, snap)
                        rep = new_mgr()
                        for x in w.records:
                            r_ = it._invoke(apply_h, [rep, Enum("RaftApplyDataRequest", "LoadSnapshotRecord", [copy.deepcopy(x)]), "ctx"], self_ty="McpManager")
                            if answer_kind(r_) != "Ok":
                                return ("violation", "the MCP component cannot load a record of its own snapshot", "mcp-snapshot-error", ra, snap)
                        covers["replica R restarts from a snapshot"] += 1
                    it._invoke(apply_h, [rep, Enum("RaftApplyDataRequest", "LoadCompleted", None), "ctx"], self_ty="McpManager")
                    if ra < n:
                        covers["replica R restarts in the middle of the history"] += 1
            oa, ob_ = observe(live), observe(rep)
            if oa == ob_:
                # closing probe: both replicas are asked to remove the tool spec - the request whose outcome depends on the derived reference counts
                # (a stale count shows here whatever the length of the history)
                mkp = lambda: Enum("McpManagerRaftReq", "RemoveToolSpec", [copy.deepcopy(TKEY)])
                pa_ = it._invoke(raft_h, [live, mkp(), "ctx"], self_ty="McpManager")
                pb_ = it._invoke(raft_h, [rep, mkp(), "ctx"], self_ty="McpManager")
                rec.append({"op": "unspec", "answer": answer_kind(pa_), "closing_probe": True})
                if answer_kind(pa_) != answer_kind(pb_):
                    return ("violation", "the closing request (unspec) is answered %s on the node that applied the log one by one and %s on the node that restarted behind request %d"
                            % (answer_kind(pa_), answer_kind(pb_), ra) + (" from a snapshot" if snap else ""), "mcp-answer-differs", ra, snap)
                oa, ob_ = observe(live), observe(rep)
            for q in oa:
                if oa[q] != ob_[q]:
                    return ("violation", "%s: the node that applied the log one by one answers %s, the node that restarted behind request %d (start-up replay, load-complete) answers %s"
                            % (q, oa[q], ra, ob_[q]) + (" [restart from a snapshot]" if snap else ""), "mcp-state-differs", ra, snap)
            return ("ok", None, None, ra, snap)

        paths = it.explore(lambda: thunk() + (list(ops_box[0]),), max_paths=400000, stop=lambda r: r[0] == "violation")
        s = z3.Solver()
        viol = None
        for pc, r, exc in paths:
            if exc is not None:
                viol = {"message": "panic in the MCP component: %s" % exc, "tags": ["panic"], "model": {}}
                break
            if r[0] == "violation":
                viol = {"message": r[1], "tags": [r[2]], "model": {"ops": r[5], "restart_behind_request": r[3], "restart_from_snapshot": bool(r[4])}}
                break
        ob["queries"] = it.queries
        ob["solver_s"] = round(time.time() - t0, 1)
        ob["sample"] = {"paths_explored": len(paths), "covers": covers, "opaque_symbols": sorted(it.opaque_seen)[:20]}
        missing = [c for c, k in covers.items() if k == 0]
        import os
        import random
        if not os.environ.get("VERIF_NO_NATIVE"):
            from .common import native_histories
            if viol and viol["model"].get("ops"):
                # role of the counterexample for the known-findings file: which kind of request / query shows the difference
                last = viol["model"]["ops"][-1]["op"] if viol["tags"][0] == "mcp-answer-differs" else viol["message"].split(":")[0].split(" ")[0]
                viol["tags"].append("shown-by:" + last)
                rr = native_histories("C07", "mcp", "violation", [viol["model"]], {"obligation": ob["harness"], "model": viol["model"]}, viol["message"])
                ob["replay_path"] = rr["path"]
                ob["replay"] = {"path": rr["path"], "outcome": rr["outcome"], "message": rr["message"]}
                if rr["outcome"] == "reproduced":
                    viol["message"] = "%s [two real McpManager actors: %s]" % (viol["message"], rr["message"][:300])
                else:
                    ob.update({"verdict": "inconclusive", "message": "engine-S counterexample (%s) did not reproduce on real McpManager actors (%s %s)" % (viol["message"], rr["outcome"], rr["message"][:300])})
                    return ob
            elif not viol and not missing:
                rnd = random.Random(seed)
                cand = [r for pc, r, exc in paths if exc is None and r[0] == "ok"]
                rnd.shuffle(cand)
                hist = [{"ops": r[5], "restart_behind_request": r[3], "restart_from_snapshot": bool(r[4])} for r in cand[:25]]
                val = native_histories("C07", "mcp", "validate", hist)
                ob["translator_validation"] = {"outcome": val["outcome"], "histories": len(hist), "message": val["message"], "path": val["path"]}
                if val["outcome"] != "passed":
                    ob.update({"verdict": "inconclusive", "message": "translator validation: real McpManager actors and the encoding disagree on a sampled history (%s)" % val["message"][:400]})
                    return ob
        if viol:
            ob.update({"verdict": "violation", "message": viol["message"], "tags": viol["tags"], "counterexample": viol["model"]})
        elif missing:
            ob.update({"verdict": "inconclusive", "message": "reachability witness never reached: %s" % missing})
        else:
            ob.update({"verdict": "discharged", "distinct": len(paths)})
    except rsparse.Unsupported as e:
        ob.update({"verdict": "inconclusive", "message": "encoder met source it cannot encode: %s" % e})
    return ob


if __name__ == "__main__":
    import sys
    ob = run(sys.argv[1] if len(sys.argv) > 1 else "quick", 0)
    print(ob["harness"], ob.get("verdict"), str(ob.get("message", ""))[:900], str(ob.get("counterexample"))[:1200], ob.get("queries"), ob.get("solver_s"), str(ob.get("sample"))[:800])
