"""C14 — distro ownership, decided by symbolic evaluation of the real source of
InnerNodeManage::{update_nodes_index, get_this_node, get_all_nodes, get_current_process_range},
ClusterInnerNode::is_valid, From<ClusterInnerNode> for ClusterNode, ProcessRange::{new,is_range},
NodeManage::{route_addr, get_all_valid_nodes} and the GetAllNodes arm of
Handler<NodeManageRequest> for InnerNodeManage (src/naming/cluster/node_manage.rs, model.rs).

Symbolic: liveness of every non-local node (shared by all views), the 64-bit hash value.
Concrete per query: cluster size N in 1..=5 and which node is local.
Environment models (part of the claim): Addr::send(msg).await = the handler's result for msg on the
actor's state; DefaultHasher::{new,finish} = an arbitrary u64; v.hash(&mut hasher) = no-op.
"""
import json
import os
import time

import z3

from . import rseval, rsparse
from .common import load_program, REPO
from .rseval import Struct, Enum, SymEnum, Some, NONE, Ok

FILES = ["src/naming/cluster/node_manage.rs", "src/naming/cluster/model.rs"]
IDS = [3, 7, 8, 20, 21]


def build_state(n, local_pos, live):
    nodes = {}
    for i in range(n):
        status = Enum("NodeStatus", "Valid") if i == local_pos else SymEnum("NodeStatus", {"Valid": live[i], "Invalid": z3.Not(live[i])})
        nodes[IDS[i]] = Struct("ClusterInnerNode", {
            "id": IDS[i], "index": 0, "is_local": i == local_pos, "addr": "addr-%d" % IDS[i], "status": status,
            "last_active_time": 0, "sync_sender": NONE, "client_set": [],
        })
    return Struct("InnerNodeManage", {
        "local_id": IDS[local_pos], "all_nodes": nodes, "cluster_sender": NONE, "naming_actor": NONE,
        "first_query_snapshot": False, "current_range": Struct("ProcessRange", {"index": 0, "len": 1}),
        "history_ranges": [], "last_send_distor_data_time": 0,
    })


class ActorAddr:
    """Addr<InnerNodeManage>: send(msg) is answered by the real handler body"""

    def __init__(self, state):
        self.state = state
        self.ty = "ActorAddr"


def make_interp(prog, h):
    it = rseval.Interp(prog)
    it.fn_models["DefaultHasher::new"] = lambda interp, args: Struct("DefaultHasher", {})
    it.models[(None, "hash")] = lambda interp, recv, args: ()
    it.models[("DefaultHasher", "finish")] = lambda interp, recv, args: h

    def send(interp, recv, args):
        fn = prog.trait_method("InnerNodeManage", "handle", "NodeManageRequest")
        if fn is None:
            raise rsparse.Unsupported("Handler<NodeManageRequest> for InnerNodeManage not found")
        r = interp._invoke(fn, [recv.state, args[0], "ctx"], self_ty="InnerNodeManage")
        return Ok(r)  # the mailbox delivery itself succeeds (MailboxError is outside the claim)
    it.models[("ActorAddr", "send")] = send
    # From<ClusterInnerNode> for ClusterNode : `e.into()` in get_all_nodes
    def into(interp, recv, args):
        if isinstance(recv, Struct) and recv.ty == "ClusterInnerNode":
            fn = prog.trait_method("ClusterNode", "from", "From")
            return interp._invoke(fn, [recv], self_ty="ClusterNode")
        return recv
    it.models[(None, "into")] = into
    return it


def owns_formula(prog, n, p, live, h, stats):
    """z3 Bool: node p, looking at the view, considers hash h its own"""
    it = make_interp(prog, h)

    def thunk():
        st = build_state(n, p, live)
        it.call_method("InnerNodeManage", "update_nodes_index", st, [])
        rng = it.call_method("InnerNodeManage", "get_current_process_range", st, [])
        return it.call_method("ProcessRange", "is_range", rng, [h])
    paths = it.explore(thunk)
    stats["paths"] += len(paths)
    stats["queries"] += it.queries
    terms = []
    for pc, r, exc in paths:
        if exc is not None:
            raise rsparse.Unsupported("panic while evaluating ownership: %s" % exc)
        terms.append(z3.And(*(pc + [rseval.to_bool(r)])))
    return z3.Or(*terms) if terms else z3.BoolVal(False)


def route_formulas(prog, n, p, live, h, stats):
    """dict target position -> z3 Bool (node p routes hash h to that node), plus local-flag consistency"""
    it = make_interp(prog, h)

    def thunk():
        st = build_state(n, p, live)
        it.call_method("InnerNodeManage", "update_nodes_index", st, [])
        nm = Struct("NodeManage", {"inner_node_manage": ActorAddr(st)})
        return it.call_method("NodeManage", "route_addr", nm, ["service-key"])
    paths = it.explore(thunk)
    stats["paths"] += len(paths)
    stats["queries"] += it.queries
    out = {i: [] for i in range(n)}
    bad_local = []
    for pc, r, exc in paths:
        if exc is not None:
            raise rsparse.Unsupported("panic while evaluating route_addr: %s" % exc)
        cond = z3.And(*pc) if pc else z3.BoolVal(True)
        if not isinstance(r, Enum) or r.ty != "NamingRouteAddr":
            raise rsparse.Unsupported("route_addr returned %r" % (r,))
        if r.variant == "Local":
            out[p].append(cond)
        else:
            addr = r.payload[1]
            tgt = [i for i in range(n) if "addr-%d" % IDS[i] == addr]
            if len(tgt) != 1:
                raise rsparse.Unsupported("route target %r not identifiable" % (addr,))
            if tgt[0] == p:
                bad_local.append(cond)
            out[tgt[0]].append(cond)
    return {i: (z3.Or(*c) if c else z3.BoolVal(False)) for i, c in out.items()}, (z3.Or(*bad_local) if bad_local else z3.BoolVal(False))


class NamingSink:
    def __init__(self):
        self.ty = "NamingAddr"
        self.sent = []


def variant_name(m):
    if isinstance(m, Enum):
        return m.variant
    if hasattr(m, "name"):
        return str(m.name).split("::")[-1]
    return str(m)


def liveness_obligation(prog, tier):
    """s14_liveness: the cached owner range follows the liveness transitions. Every history of k steps over
    {timer tick (check_node_status), a ping from a peer (active_node)} with the clock on a grid around the 15 s time-out: after every
    timer tick the range the node answers ownership questions with (current_range) is the range of the live set it would route by."""
    k = 3 if tier == "quick" else 4
    ob = {"engine": "smt", "harness": "s14_liveness_transitions", "encodes_files": FILES, "queries": 0, "solver_s": 0.0, "distinct": 0,
          "encodes": ["InnerNodeManage::{check_node_status,active_node,update_process_range,get_current_process_range,update_nodes_index,clear_timeout_process_range}", "ClusterInnerNode::is_valid"],
          "bound": "cluster of 3 nodes, local node = each of them; every history of %d steps over {timer tick, ping from either peer}; clock on the grid start + [1, 10, 20, 40] s (time-out 15 s)" % k}
    t0 = time.time()
    try:
        clock = {"now": 0}
        it = rseval.Interp(prog)
        it.lenient = True
        it.fn_models["now_millis"] = lambda interp, args: clock["now"]
        it.models[("NamingAddr", "do_send")] = lambda interp, recv, args: recv.sent.append(args[0]) or ()
        stepv = [z3.BitVec("step%d" % i, 8) for i in range(k)]
        timev = [z3.BitVec("time%d" % i, 8) for i in range(k)]
        BASE = 1_700_000_000_000  # epoch milliseconds: now_millis() - 15000 does not wrap
        GRID = [BASE + 1000, BASE + 10000, BASE + 20000, BASE + 40000]
        covers = {"a peer times out": 0, "a timed-out peer comes back": 0, "owner range changes at a tick": 0}
        viol = None
        npaths = 0
        for local_pos in range(3):
            peers = [i for i in range(3) if i != local_pos]

            def pick(var, options):
                for j, o in enumerate(options[:-1]):
                    if it.branch(var == j):
                        return o
                return options[-1]

            def thunk(local_pos=local_pos, peers=peers):
                live = [True, True, True]
                st = build_state(3, local_pos, [z3.BoolVal(True)] * 3)
                sink = NamingSink()
                st["naming_actor"] = Some(sink)
                for n_ in st["all_nodes"].values():
                    n_["status"] = Enum("NodeStatus", "Valid")
                    n_["last_active_time"] = BASE
                clock["now"] = BASE
                it.call_method("InnerNodeManage", "update_nodes_index", st, [])
                it.call_method("InnerNodeManage", "update_process_range", st, [])
                log = []
                last_t = BASE
                was_down = set()
                for i in range(k):
                    t = pick(timev[i], GRID)
                    if t < last_t:
                        raise rseval.PathAbort()
                    last_t = t
                    clock["now"] = t
                    op = pick(stepv[i], ["tick", "ping-a", "ping-b"])
                    if op == "tick":
                        before = (st["current_range"]["index"], st["current_range"]["len"])
                        n_sent = len(sink.sent)
                        it.call_method("InnerNodeManage", "check_node_status", st, [])
                        log.append(("tick", "+%ds" % ((t - BASE) // 1000)))
                        for nid, n_ in st["all_nodes"].items():
                            if isinstance(n_["status"], Enum) and n_["status"].variant == "Invalid":
                                if nid not in was_down:
                                    covers["a peer times out"] += 1
                                was_down.add(nid)
                        want = it.call_method("InnerNodeManage", "get_current_process_range", st, [])
                        have = st["current_range"]
                        if (have["index"], have["len"]) != (want["index"], want["len"]):
                            valid = [nid for nid, n_ in st["all_nodes"].items() if isinstance(n_["status"], Enum) and n_["status"].variant == "Valid"]
                            return ("violation", "after a timer tick node %d answers ownership with range (index %s of %s) although the live set %s gives (index %s of %s)"
                                    % (IDS[local_pos], have["index"], have["len"], valid, want["index"], want["len"]), log, "stale-owner-range")
                        if (have["index"], have["len"]) != before:
                            # the naming actor decides take-over (heartbeat supervision, at_process_range) by its own copy of the range
                            told = [m_ for m_ in sink.sent[n_sent:] if variant_name(m_) == "ClusterRefreshProcessRange"]
                            ok_ = False
                            for m_ in told:
                                a_ = m_.payload if isinstance(m_, Enum) else getattr(m_, "args", None)
                                if a_ and isinstance(a_[0], Struct) and (a_[0]["index"], a_[0]["len"]) == (have["index"], have["len"]):
                                    ok_ = True
                            covers["owner range changes at a tick"] = covers.get("owner range changes at a tick", 0) + 1
                            if not ok_:
                                return ("violation", "a peer's liveness changed and node %d now owns range (index %s of %s) instead of (index %s of %s), but its naming actor is not told: "
                                        "services it took over get no heartbeat supervision" % (IDS[local_pos], have["index"], have["len"], before[0], before[1]), log, "naming-actor-range-stale")
                    else:
                        peer = IDS[peers[0] if op == "ping-a" else peers[1]]
                        n_ = st["all_nodes"][peer]
                        if isinstance(n_["status"], Enum) and n_["status"].variant == "Invalid":
                            covers["a timed-out peer comes back"] += 1
                        it.call_method("InnerNodeManage", "active_node", st, [peer])
                        log.append(("ping from %d" % peer, "+%ds" % ((t - BASE) // 1000)))
                return ("ok", None, log, None)
            paths = it.explore(thunk, max_paths=200000)
            npaths += len(paths)
            for pc, r, exc in paths:
                if exc is not None:
                    viol = {"message": "panic in the node manager: %s" % exc, "tags": ["panic"], "model": {}}
                    break
                if r[0] == "violation":
                    viol = {"message": r[1], "tags": [r[3]], "model": {"local_node": IDS[local_pos], "history": [list(map(str, e)) for e in r[2]]}}
                    break
            if viol:
                break
        ob["queries"] = it.queries
        ob["solver_s"] = round(time.time() - t0, 1)
        ob["sample"] = {"paths_explored": npaths, "covers": covers, "opaque_symbols": sorted(it.opaque_seen)[:20]}
        missing = [c for c, n_ in covers.items() if n_ == 0]
        if viol:
            ob.update({"verdict": "violation", "message": viol["message"], "tags": viol["tags"], "counterexample": viol["model"]})
        elif missing:
            ob.update({"verdict": "inconclusive", "message": "reachability witness never reached: %s" % missing})
        else:
            ob.update({"verdict": "discharged", "distinct": npaths})
    except rsparse.Unsupported as e:
        ob.update({"verdict": "inconclusive", "message": "encoder met source it cannot encode: %s" % e})
    return ob


def membership_obligation(prog, tier):
    """s14_membership_changes: InnerNodeManage::update_nodes from source on a 3-node view {3, 7, 8} (local node = each of them), the new
    membership being: the same nodes, one peer removed (either one), one node added (id 20). Oracle: afterwards the cached owner range is
    the range of the new node set, and whenever it differs from the range before, the naming actor was sent exactly the new range."""
    ob = {"engine": "smt", "harness": "s14_membership_changes", "encodes_files": FILES, "queries": 0, "solver_s": 0.0, "distinct": 0,
          "encodes": ["InnerNodeManage::{update_nodes,update_nodes_index,update_process_range,get_current_process_range,refresh_process_range,get_this_node}"],
          "bound": "3-node view, every local node; new membership: unchanged / either peer removed / one node added (symbolic choice)"}
    t0 = time.time()
    try:
        it = rseval.Interp(prog)
        it.lenient = True
        it.fn_models["now_millis"] = lambda interp, args: 1_700_000_000_000
        it.models[("NamingAddr", "do_send")] = lambda interp, recv, args: recv.sent.append(args[0]) or ()

        class SyncSender:
            def __init__(self):
                self.ty = "SyncSenderAddr"
        it.fn_models["ClusteSyncSender::new"] = lambda interp, args: Struct("ClusteSyncSenderNew", {})
        it.models[("ClusteSyncSenderNew", "start")] = lambda interp, recv, args: SyncSender()
        it.models[("SyncSenderAddr", "do_send")] = lambda interp, recv, args: ()
        it.models[(None, "run_later")] = lambda interp, recv, args: ()
        choice = z3.BitVec("new_membership", 8)
        covers = {"a peer removed": 0, "a node added": 0, "membership unchanged": 0}
        viol = None
        npaths = 0
        for local_pos in range(3):
            def thunk(local_pos=local_pos):
                st = build_state(3, local_pos, [z3.BoolVal(True)] * 3)
                sink = NamingSink()
                st["naming_actor"] = Some(sink)
                st["cluster_sender"] = Some(Struct("ClusterSender", {}))
                st["first_query_snapshot"] = True
                for n_ in st["all_nodes"].values():
                    n_["status"] = Enum("NodeStatus", "Valid")
                it.call_method("InnerNodeManage", "update_nodes_index", st, [])
                it.call_method("InnerNodeManage", "update_process_range", st, [])
                before = (st["current_range"]["index"], st["current_range"]["len"])
                peers = [i for i in range(3) if i != local_pos]
                kind = None
                for j, k_ in enumerate(["same", "remove-a", "remove-b"]):
                    if it.branch(choice == j):
                        kind = k_
                        break
                kind = kind or "add"
                ids = [IDS[i] for i in range(3)]
                if kind == "remove-a":
                    ids.remove(IDS[peers[0]])
                elif kind == "remove-b":
                    ids.remove(IDS[peers[1]])
                elif kind == "add":
                    ids.append(20)
                covers["membership unchanged" if kind == "same" else ("a node added" if kind == "add" else "a peer removed")] += 1
                n0 = len(sink.sent)
                it.call_method("InnerNodeManage", "update_nodes", st, [[(i, "addr-%d" % i) for i in ids], "ctx"])
                have = (st["current_range"]["index"], st["current_range"]["len"])
                want_r = it.call_method("InnerNodeManage", "get_current_process_range", st, [])
                if sorted(st["all_nodes"].keys()) != sorted(ids):
                    return ("violation", "after the membership change %s node %d knows the nodes %s" % (ids, IDS[local_pos], sorted(st["all_nodes"].keys())), "membership-not-applied")
                if have != (want_r["index"], want_r["len"]):
                    return ("violation", "after the membership change %s node %d answers ownership with range %s, the node set gives %s" % (ids, IDS[local_pos], have, (want_r["index"], want_r["len"])), "stale-owner-range")
                if have != before:
                    told = [m_ for m_ in sink.sent[n0:] if variant_name(m_) == "ClusterRefreshProcessRange"]
                    ok_ = False
                    for m_ in told:
                        a_ = m_.payload if isinstance(m_, Enum) else getattr(m_, "args", None)
                        if a_ and isinstance(a_[0], Struct) and (a_[0]["index"], a_[0]["len"]) == have:
                            ok_ = True
                    if not ok_:
                        return ("violation", "the membership changed to %s and node %d now owns range (index %s of %s) instead of (index %s of %s), but its naming actor is not told: "
                                "services it took over get no heartbeat supervision" % (ids, IDS[local_pos], have[0], have[1], before[0], before[1]), "naming-actor-range-stale")
                return ("ok", None, None)
            paths = it.explore(thunk)
            npaths += len(paths)
            for pc, r, exc in paths:
                if exc is not None:
                    viol = {"message": "panic in update_nodes: %s" % exc, "tags": ["panic"], "model": {}}
                    break
                if r[0] == "violation":
                    viol = {"message": r[1], "tags": [r[2]], "model": {"local_node": IDS[local_pos]}}
                    break
            if viol:
                break
        ob["queries"] = it.queries
        ob["solver_s"] = round(time.time() - t0, 1)
        ob["sample"] = {"paths_explored": npaths, "covers": covers, "opaque_symbols": sorted(it.opaque_seen)[:12]}
        missing = [c for c, n_ in covers.items() if n_ == 0]
        if viol:
            ob.update({"verdict": "violation", "message": viol["message"], "tags": viol["tags"], "counterexample": viol["model"]})
        elif missing:
            ob.update({"verdict": "inconclusive", "message": "reachability witness never reached: %s" % missing})
        else:
            ob.update({"verdict": "discharged", "distinct": npaths})
    except rsparse.Unsupported as e:
        ob.update({"verdict": "inconclusive", "message": "encoder met source it cannot encode: %s" % e})
    return ob


def run(tier, seed):
    t0 = time.time()
    obligations = []
    info = {"files": FILES, "solver": "z3 " + z3.get_version_string(), "cmd": "python3-vt -m lib.main C14 (rs2smt/c14.py)"}
    try:
        prog = load_program(FILES)
    except rsparse.Unsupported as e:
        return {"obligations": [{"engine": "smt", "harness": "s14_parse", "verdict": "inconclusive", "message": "source not in the supported subset: %s" % e}], "info": info}
    sizes = [1, 2, 3] if tier == "quick" else [1, 2, 3, 4, 5]
    for n in sizes:
        ob = {"engine": "smt", "harness": "s14_n%d" % n, "bound": "cluster of %d nodes; liveness of every node symbolic (>=1 alive); hash value: all 2^64" % n,
              "encodes": ["InnerNodeManage::get_current_process_range", "InnerNodeManage::update_nodes_index", "InnerNodeManage::get_this_node",
                          "InnerNodeManage::get_all_nodes", "ClusterInnerNode::is_valid", "ProcessRange::is_range", "NodeManage::route_addr",
                          "NodeManage::get_all_valid_nodes", "Handler<NodeManageRequest>::handle (GetAllNodes arm)"],
              "encodes_files": FILES, "queries": 0, "solver_s": 0.0, "distinct": 0}
        stats = {"paths": 0, "queries": 0}
        try:
            live = [z3.Bool("live_%d" % i) for i in range(n)]
            h = z3.BitVec("hash", 64)
            owns = [owns_formula(prog, n, p, live, h, stats) for p in range(n)]
            routes = []
            bad_locals = []
            for p in range(n):
                r, bl = route_formulas(prog, n, p, live, h, stats)
                routes.append(r)
                bad_locals.append(bl)
            s = z3.Solver()
            s.set("timeout", 120000)
            s.add(z3.Or(*live))
            checks = []
            # K14.1 exactly one owner among live nodes
            cnt = z3.Sum([z3.If(z3.And(live[p], owns[p]), 1, 0) for p in range(n)])
            checks.append(("no-owner", cnt == 0, "service key has no owner among the live nodes"))
            checks.append(("several-owners", cnt >= 2, "service key has more than one owner among the live nodes"))
            # K14.2 every live node routes to the node that considers itself the owner
            mis = []
            for p in range(n):
                for t in range(n):
                    mis.append(z3.And(live[p], routes[p][t], z3.Not(z3.And(live[t], owns[t]))))
            checks.append(("route-to-non-owner", z3.Or(*mis), "write is routed to a node that does not consider itself the owner"))
            checks.append(("route-local-flag", z3.Or(*[z3.And(live[p], bad_locals[p]) for p in range(n)]), "route marks a remote node as itself"))
            # vacuity witnesses
            wit = [("dead-lower-id", z3.Or(*[z3.And(z3.Not(live[i]), live[j]) for i in range(n) for j in range(i + 1, n)])) ] if n > 1 else []
            verdict = "discharged"
            for key, bad, msg in checks:
                s.push()
                s.add(bad)
                ts = time.time()
                r = s.check()
                ob["solver_s"] += time.time() - ts
                ob["queries"] += 1
                if r == z3.sat:
                    m = s.model()
                    lv = [bool(m.eval(l, model_completion=True)) for l in live]
                    hv = m.eval(h, model_completion=True).as_long()
                    tags = []
                    if any((not lv[i]) and lv[j] for i in range(n) for j in range(i + 1, n)):
                        tags.append("dead-lower-id-node")
                    ob.update({"verdict": "violation", "message": msg, "tags": tags,
                               "counterexample": {"n": n, "ids": IDS[:n], "live": lv, "hash": hv, "check": key}})
                    verdict = "violation"
                    s.pop()
                    break
                if r != z3.unsat:
                    ob.update({"verdict": "inconclusive", "message": "solver answered %s on %s" % (r, key)})
                    verdict = "inconclusive"
                    s.pop()
                    break
                s.pop()
            if verdict == "discharged":
                for key, w in wit:
                    s.push()
                    s.add(w)
                    ob["queries"] += 1
                    if s.check() != z3.sat:
                        verdict = "inconclusive"
                        ob.update({"verdict": "inconclusive", "message": "witness %s not satisfiable (vacuous encoding)" % key})
                    s.pop()
            if verdict == "discharged":
                ob["verdict"] = "discharged"
                ob["distinct"] = len(checks)
            ob["queries"] += stats["queries"]
            ob["sample"] = {"paths_explored": stats["paths"], "owns_formula_node0": str(z3.simplify(owns[0]))[:300]}
        except rsparse.Unsupported as e:
            ob.update({"verdict": "inconclusive", "message": "encoder met source it cannot encode: %s" % e})
        obligations.append(ob)
    try:
        obligations.append(liveness_obligation(prog, tier))
        obligations.append(membership_obligation(prog, tier))
        obligations.append(validate_translator(prog, sizes, 4 if tier == "quick" else 16, seed))
    except rsparse.Unsupported as e:
        obligations.append({"engine": "smt", "harness": "s14_translator_validation", "verdict": "inconclusive", "message": str(e)})
    # what the naming actor does with a new range: the services inside it are taken over (model-only replay: replay_native writes the range)
    from . import c14actor
    obligations.append(c14actor.run(tier, seed))
    # replay of counterexamples against the real code
    for ob in obligations:
        if ob.get("verdict") == "violation":
            replay_native(ob)
    info["wall_s"] = round(time.time() - t0, 1)
    return {"obligations": obligations, "info": info}


def replay_native(ob):
    """the model (liveness vector, hash) is fed to the real functions through the native harness k14_n<N>
    (/verif/harness/c14_node_manage.rs); hash is reduced mod 60 = lcm(1..5): same residues for every n <= 5"""
    from lib import native
    if os.environ.get("VERIF_NO_NATIVE"):
        ob["replay_path"] = ""
        return
    ce = ob["counterexample"]
    if "live" not in ce:
        path = native.write_replay("C14", "c14", "model", [], {"engine": "smt", "mode": "model-only", "obligation": ob["harness"], "message": ob["message"], "model": ce})
        ob["replay_path"] = path
        ob["replay"] = {"path": path, "outcome": "model-only", "message": "history of timer ticks and pings for InnerNodeManage (the native clock cannot be set) / range handed to the naming actor"}
        return
    vals = [[1 if x else 0] for x in ce["live"]] + [[ce["hash"] % 60]]
    path = native.write_replay("C14", "c14", "k14_n%d" % ce["n"], vals, {"engine_s_model": ce})
    ob["replay_path"] = path
    exe, berr = native.build()
    if exe is None:
        ob.update({"verdict": "inconclusive", "message": "native replay build failed: " + berr[-400:]})
        return
    rr = native.run_replay(exe, path)
    ob["replay"] = {"path": path, "outcome": rr["outcome"], "message": rr["message"], "tags": rr["tags"]}
    if rr["outcome"] != "reproduced":
        ob.update({"verdict": "inconclusive",
                   "message": "solver counterexample did not reproduce against the real code (%s %s): encoder or model wrong" % (rr["outcome"], rr["message"])})
    else:
        ob["tags"] = sorted(set(ob.get("tags", [])) | set(rr["tags"]))
        ob["message"] = rr["message"] or ob["message"]


def validate_translator(prog, sizes, k, seed):
    """differential validation: k concrete views per size through the real code (native k14_dump) and through the
    encoding; any disagreement means the encoder is wrong -> inconclusive"""
    import random
    import re
    from lib import native
    rnd = random.Random(seed)
    if os.environ.get("VERIF_NO_NATIVE"):
        return {"engine": "smt", "harness": "s14_translator_validation", "verdict": "discharged", "bound": "skipped (VERIF_NO_NATIVE)", "queries": 0, "solver_s": 0.0, "distinct": 1}
    exe, berr = native.build()
    ob = {"engine": "smt", "harness": "s14_translator_validation", "bound": "%d concrete views per cluster size, chosen from VERIF_SEED" % k,
          "encodes": ["encoding of the C14 functions vs. the real functions (native build)"], "queries": 0, "solver_s": 0.0, "distinct": 0}
    if exe is None:
        ob.update({"verdict": "inconclusive", "message": "native build failed: " + berr[-400:]})
        return ob
    compared = 0
    for n in sizes:
        live = [z3.Bool("live_%d" % i) for i in range(n)]
        h = z3.BitVec("hash", 64)
        stats = {"paths": 0, "queries": 0}
        owns = [owns_formula(prog, n, p, live, h, stats) for p in range(n)]
        routes = [route_formulas(prog, n, p, live, h, stats)[0] for p in range(n)]
        for _ in range(k):
            lv = [rnd.random() < 0.6 for _ in range(n)]
            if not any(lv):
                lv[rnd.randrange(n)] = True
            hv = rnd.randrange(60)
            vals = [[n]] + [[1 if x else 0] for x in lv] + [[hv]]
            path = native.write_replay("C14", "c14", "k14_dump", vals, {"purpose": "translator validation"})
            rr = native.run_replay(exe, path)
            os.remove(path)
            out = rr.get("output", "")
            sub = [(l, z3.BoolVal(x)) for l, x in zip(live, lv)] + [(h, z3.BitVecVal(hv, 64))]
            for m in re.finditer(r"VERIF-OUT view=(\d+) owns=(\w+) route=(\d+)", out):
                vid, o, rt = int(m.group(1)), m.group(2) == "true", int(m.group(3))
                p = IDS.index(vid)
                enc_o = z3.is_true(z3.simplify(z3.substitute(owns[p], *sub)))
                enc_r = [t for t in range(n) if z3.is_true(z3.simplify(z3.substitute(routes[p][t], *sub)))]
                compared += 1
                if enc_o != o or enc_r != [IDS.index(rt)]:
                    ob.update({"verdict": "inconclusive", "message": "encoder disagrees with the real code on view n=%d live=%s h=%d node=%d: real owns=%s route=%d, encoding owns=%s route=%s"
                               % (n, lv, hv, vid, o, rt, enc_o, [IDS[t] for t in enc_r])})
                    return ob
    if compared == 0:
        ob.update({"verdict": "inconclusive", "message": "translator validation compared nothing"})
        return ob
    ob.update({"verdict": "discharged", "distinct": compared, "sample": {"views_compared": compared}})
    return ob


if __name__ == "__main__":
    import sys
    r = run(sys.argv[1] if len(sys.argv) > 1 else "quick", 0)
    print(json.dumps(r, indent=1, default=str)[:6000])
