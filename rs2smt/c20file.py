"""C20 — the file-backed record reader decodes exactly the records the store wrote.

FileMessageReader::{new, read_next, read_next_position, read_index_position, read_to_end, read_len} and read_varint64 /
inner_sizeof_varint (src/common/protobuf_utils.rs) evaluated from source over the in-memory file model of rs2smt/iomodel.py.
The file holds a prefix of `start` bytes (the 8-byte header of the index file, or nothing), then k length-prefixed records with
symbolic body bytes and lengths chosen from a set that includes records shorter than the 10-byte length peek, then either the end
of the file or zero padding (preallocated log files).

Oracle: read_next returns the records one by one, in order, each as written (prefix + body), and reports the end after the last
one - never earlier; read_to_end counts exactly k records; read_index_position(i) is the i-th record.
"""
import time

import z3

from . import rseval, rsparse, iomodel
from .c05 import make
from .common import load_program
from .rseval import Struct, Enum, NONE, Some, Ok, Uninterp

FILES = ["src/common/protobuf_utils.rs"]
LENS = [1, 4, 8, 9, 12]      # body lengths: 1 + len < 10 for the first three (the whole record is shorter than the 10-byte peek)


def pick(it, var, options):
    for k, o in enumerate(options[:-1]):
        if it.branch(var == k):
            return o
    return options[-1]


def run(tier, seed):
    t0 = time.time()
    k = 2 if tier == "quick" else 3
    ob = {"engine": "smt", "harness": "s20_5_file_reader", "encodes_files": FILES, "queries": 0, "solver_s": 0.0, "distinct": 0,
          "encodes": ["FileMessageReader::{new,read_next,read_next_position,read_index_position,read_to_end,read_len}", "read_varint64", "inner_sizeof_varint"],
          "bound": "files of %d records with body lengths from %s (bytes symbolic), behind a prefix of 0 or 8 bytes, followed by the end of the file or by 16 zero bytes" % (k, LENS)}
    try:
        prog = load_program(FILES)
        it, fs = make(prog)
        lenv = [z3.BitVec("len%d" % i, 8) for i in range(k)]
        body = [[z3.BitVec("b%d_%d" % (i, j), 64) for j in range(max(LENS))] for i in range(k)]
        prefv, padv = z3.Bool("file_has_8_byte_header"), z3.Bool("zero_padding_behind_the_records")
        rng = [z3.ULT(b, 256) for row in body for b in row]
        new_fn = prog.methods[("FileMessageReader", "new")]
        short_tail = [0]

        def build():
            start = 8 if it.branch(prefv) else 0
            data = [0xAB] * start
            recs = []
            for i in range(k):
                ln = pick(it, lenv[i], LENS)
                r = [ln] + body[i][:ln]      # one-byte canonical prefix (all lengths < 128)
                recs.append(r)
                data += r
            padded = it.branch(padv)
            if padded:
                data += [0] * 16
            fs.files.clear()
            fs.files["f"] = list(data)
            return start, recs, padded

        def open_reader(start):
            file = iomodel.FileHandle(fs, "f")
            file.posbox[0] = start       # the callers seek to the first record before they build the reader
            return it._invoke(new_fn, [file, start], self_ty="FileMessageReader")

        def same(got, want):
            if len(got) != len(want):
                return z3.BoolVal(False)
            return z3.And(*[rseval.to_bv(a) == rseval.to_bv(b) for a, b in zip(got, want)]) if want else z3.BoolVal(True)

        def thunk():
            start, recs, padded = build()
            if not padded and len(recs[-1]) < 10:
                short_tail[0] += 1
            rd = open_reader(start)
            for i, want in enumerate(recs):
                r = it.call_method("FileMessageReader", "read_next", rd, [])
                if not (isinstance(r, Enum) and r.variant == "Ok"):
                    return ("violation", "record %d of %d (%d bytes with its prefix, %s) is not returned: the reader reports the end of the stream"
                            % (i + 1, len(recs), len(want), "zero padding behind the records" if padded else "the file ends behind the last record"), "record-dropped")
                got = r.payload[0]
                ok = same(got, want)
                if not (z3.is_true(z3.simplify(ok))):
                    if it._feasible(z3.Not(ok)):
                        it.pc.append(z3.Not(ok))
                        return ("violation", "record %d is returned with other bytes / another length (%d) than written (%d)" % (i + 1, len(got), len(want)), "record-changed")
            r = it.call_method("FileMessageReader", "read_next", rd, [])
            if isinstance(r, Enum) and r.variant == "Ok":
                return ("violation", "a record is returned behind the last written one", "record-invented")
            # counting and positioning
            rd2 = open_reader(start)
            r = it.call_method("FileMessageReader", "read_to_end", rd2, [])
            if not (isinstance(r, Enum) and r.variant == "Ok") or r.payload[0][0] != len(recs):
                return ("violation", "read_to_end counts %s records, %d were written" % (r.payload[0][0] if isinstance(r, Enum) and r.variant == "Ok" else "?", len(recs)), "count-wrong")
            rd3 = open_reader(start)
            r = it.call_method("FileMessageReader", "read_index_position", rd3, [len(recs) - 1])
            want_pos = start + sum(len(x) for x in recs[:-1])
            if not (isinstance(r, Enum) and r.variant == "Ok") or r.payload[0]["position"] != want_pos or r.payload[0]["len"] != len(recs[-1]):
                return ("violation", "read_index_position(%d) does not point at the last record" % (len(recs) - 1), "position-wrong")
            return ("ok", None, None)
        it.solver.push()
        it.solver.add(*rng)
        paths = it.explore(thunk, max_paths=20000)
        it.solver.pop()
        s = z3.Solver()
        s.add(*rng)
        viol = None
        for pc, r, exc in paths:
            if exc is not None:
                viol = {"message": "panic in the file reader: %s" % exc, "tags": ["panic"], "model": {}}
                break
            if r[0] == "violation":
                s.push()
                s.add(*pc)
                if s.check() == z3.sat:
                    m = s.model()
                    viol = {"message": r[1], "tags": [r[2]], "model": {"record_lengths": [LENS[min(m.eval(v, model_completion=True).as_long(), len(LENS) - 1)] for v in lenv],
                                                                        "header": z3.is_true(m.eval(prefv, model_completion=True)), "zero_padding": z3.is_true(m.eval(padv, model_completion=True))}}
                s.pop()
                if viol:
                    break
        ob["queries"] = it.queries
        ob["solver_s"] = round(time.time() - t0, 1)
        ob["sample"] = {"paths_explored": len(paths), "paths_with_a_short_last_record_at_the_end_of_the_file": short_tail[0], "opaque_symbols": sorted(it.opaque_seen)[:12]}
        if viol:
            ob.update({"verdict": "violation", "message": viol["message"], "tags": viol["tags"], "counterexample": viol["model"]})
        elif short_tail[0] == 0:
            ob.update({"verdict": "inconclusive", "message": "reachability witness never reached: a last record shorter than the length peek at the very end of the file"})
        else:
            ob.update({"verdict": "discharged", "distinct": len(paths)})
    except rsparse.Unsupported as e:
        ob.update({"verdict": "inconclusive", "message": "encoder met source it cannot encode: %s" % e})
    return ob


if __name__ == "__main__":
    ob = run("quick", 0)
    print(ob["harness"], ob.get("verdict"), str(ob.get("message", ""))[:700], str(ob.get("counterexample"))[:400], ob.get("queries"), ob.get("solver_s"), str(ob.get("sample"))[:400])
