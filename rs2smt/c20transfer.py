"""C20 — the transfer (backup / restore) files: what TransferWriter writes, TransferReader (import: the whole file in memory)
and TransferFileReader (file to sqlite: FileMessageReader over the file) read back - the same records, in order, nothing added.

From source: TransferWriter::{init, write_record}, TransferRecordDto::to_do / From<&TransferRecordDto> for TransferItem,
From<&TransferHeaderDto> for TransferHeader, From<TransferHeader> for TransferHeaderDto, TransferPrefix::new
(src/transfer/writer.rs, model.rs); TransferReader::{new, read_record}, TransferFileReader::{new, read_record_vec},
reader_transfer_record (reader.rs); the generated code of TransferHeader / TableNameMapEntity / TransferItem
(common/pb/transfer.rs); MessageBufReader::{new_with_data, next_message_vec}, FileMessageReader::{new, seek_start, read_next,
read_len}, the varint trio (common/protobuf_utils.rs) - over the file and protobuf models of rs2smt/iomodel.py.
Environment: Cursor + binrw big-endian for the 8-byte TransferPrefix (two u32) is a model; serde_json of the (empty) extend map
is the empty byte string.

Scenario: a header with a name table of one entry, then N records: table named by name or by id (symbolic), a one-byte key, a
value whose length comes from a symbolic choice among LENS (every 4th value byte symbolic).
Oracle: both readers return exactly the written records (table name resolved, key, value) in order; TransferReader ends with
None; the file reader ends (error / None) behind the last record and returns nothing that was not written.
"""
import time

import z3

from . import rseval, rsparse, iomodel
from .c05 import make
from .c11 import pick
from .c20meta import install_file_fns, Desync
from .common import load_program
from .rseval import Struct, Enum, NONE, Some, Ok, Err, Uninterp

FILES = ["src/transfer/writer.rs", "src/transfer/reader.rs", "src/transfer/model.rs", "src/common/pb/transfer.rs", "src/common/protobuf_utils.rs", "src/common/constant.rs"]
LENS = [0, 3, 200, 1100]   # 0: a record of 6 bytes with its prefix - shorter than the 10-byte length peek of FileMessageReader
TABLE = "T_CONFIG"


class CursorObj:
    def __init__(self, data):
        self.ty = "Cursor"
        self.data = data
        self.pos = 0


def install_prefix_cursor(it):
    it.fn_models["Cursor::new"] = lambda interp, args: CursorObj(args[0])
    it.models[("Cursor", "set_position")] = lambda interp, recv, args: setattr(recv, "pos", args[0]) or ()
    it.models[("Cursor", "get_mut")] = lambda interp, recv, args: recv.data
    it.models[("Cursor", "get_ref")] = lambda interp, recv, args: recv.data

    def write_be(interp, recv, args):
        h = args[0]
        out = []
        for f in ("magic", "fmt_version"):
            v = h[f]
            out += [(v >> sh) & 0xff for sh in (24, 16, 8, 0)]
        recv.data[recv.pos:recv.pos + 8] = out
        recv.pos += 8
        return Ok(())
    it.models[("Cursor", "write_be")] = write_be

    def read_be(interp, recv, args):
        bs = recv.data[recv.pos:recv.pos + 8]
        if len(bs) < 8 or not all(isinstance(b, int) for b in bs):
            return Err(Uninterp("binrw::Error", []))
        recv.pos += 8
        return Ok(Struct("TransferPrefix", {"magic": int.from_bytes(bytes(bs[:4]), "big"), "fmt_version": int.from_bytes(bytes(bs[4:]), "big")}))
    it.models[("Cursor", "read_be")] = read_be


def run(tier, seed):
    t0 = time.time()
    nrec = 3
    lens = LENS
    ob = {"engine": "smt", "harness": "s20_8_transfer_files", "encodes_files": FILES, "queries": 0, "solver_s": 0.0, "distinct": 0,
          "encodes": ["TransferWriter::{init,write_record}", "TransferReader::{new,read_record}", "TransferFileReader::{new,read_record_vec}", "reader_transfer_record",
                      "TransferHeader / TableNameMapEntity / TransferItem::{get_size,write_message,from_reader} (generated code)", "MessageBufReader::{new_with_data,next_message_vec}",
                      "FileMessageReader::{new,seek_start,read_next,read_len}", "read_varint64"],
          "bound": "header with one table name; %d records, table by name or by id, value lengths from %s (every combination), every 4th value byte symbolic" % (nrec, lens)}
    try:
        prog = load_program(FILES)
        it, fs = make(prog)
        it.resolve_into = True
        it.max_loop = 1 << 16
        install_file_fns(it, fs)
        install_prefix_cursor(it)
        import re

        def into(interp, recv, args):
            # value.into(): the loaded `impl From<S> for T` / `From<&S>` with S = the value's type (each source type of this module has exactly one target)
            if isinstance(recv, Struct):
                cands = [(t, fn) for (t, m_), lst in prog.trait_methods.items() if m_ == "from" for tr, fn in lst
                         if re.sub(r"\s+", "", re.sub(r"<\s*'\w+\s*>|'\w+", "", tr)) in ("From<%s>" % recv.ty, "From<&%s>" % recv.ty)]
                if len(cands) == 1:
                    return interp._invoke(cands[0][1], [recv], self_ty=cands[0][0])
            return recv
        it.models[(None, "into")] = into
        it.fn_models["HashMap::new"] = lambda interp, args: {}
        it.fn_models["Vec::new"] = lambda interp, args: []
        it.fn_models["Vec::with_capacity"] = lambda interp, args: []
        it.fn_models["serde_json::to_vec"] = lambda interp, args: Ok([])
        it.fn_models["to_vec"] = lambda interp, args: Ok([])
        it.fn_models["serde_json::from_slice"] = lambda interp, args: Ok({})
        it.fn_models["from_slice"] = lambda interp, args: Ok({})
        choice = [z3.BitVec("len_choice%d" % i, 8) for i in range(nrec)]
        by_id = [z3.Bool("record%d_table_by_id" % i) for i in range(nrec)]
        symb = {}

        def value(i, n):
            out = []
            for j in range(n):
                if j % 4 == 1:
                    out.append(symb.setdefault((i, j), z3.BitVec("v%d_%d" % (i, j), 64)))
                else:
                    out.append((i * 37 + j * 11 + 5) % 251 + 1)
            return out
        from z3 import z3util
        orig_branch = it.branch

        def guarded_branch(cond):
            if isinstance(cond, z3.ExprRef) and any(str(v).startswith("v") and "_" in str(v) for v in z3util.get_vars(cond)):
                raise Desync()
            return orig_branch(cond)
        it.branch = guarded_branch
        w_init = prog.methods.get(("TransferWriter", "init"))
        r_new = prog.methods.get(("TransferReader", "new"))
        fr_new = prog.methods.get(("TransferFileReader", "new"))
        if w_init is None or r_new is None or fr_new is None:
            raise rsparse.Unsupported("TransferWriter::init / TransferReader::new / TransferFileReader::new not found")
        rec_fn = prog.fns.get("reader_transfer_record")

        def thunk():
            fs.files.clear()
            ls = [pick(it, choice[i], lens) for i in range(nrec)]
            ids = [it.branch(by_id[i]) for i in range(nrec)]
            header = Struct("TransferHeaderDto", {"version": 1, "modify_time": 5, "from_sys": Some("r"), "name_to_id": {TABLE: 1}, "id_to_name": {1: TABLE}, "max_id": 1, "extend_info": {}})
            w = it._invoke(w_init, ["tf", header], self_ty="TransferWriter")
            if not (isinstance(w, Enum) and w.variant == "Ok"):
                return ("writer-init-failed", ls, ids, [], [], 0)
            w = w.payload[0]
            written = []
            for i, n in enumerate(ls):
                rec = Struct("TransferRecordDto", {"table_name": NONE if ids[i] else Some(TABLE), "table_id": 1 if ids[i] else 0, "key": [i + 1], "value": value(i, n)})
                written.append(rec)
                r = it.call_method("TransferWriter", "write_record", w, [rec])
                if not (isinstance(r, Enum) and r.variant == "Ok"):
                    return ("write-failed", ls, ids, written, [], 0)
            size = len(fs.files.get("tf", []))
            # reader 1: the whole file in memory
            got1 = []
            try:
                r = it._invoke(r_new, [list(fs.files["tf"])], self_ty="TransferReader")
                if not (isinstance(r, Enum) and r.variant == "Ok"):
                    return ("reader-init-failed", ls, ids, written, [], size)
                rd = r.payload[0]
                for _ in range(nrec + 2):
                    x = it.call_method("TransferReader", "read_record", rd, [])
                    if not (isinstance(x, Enum) and x.variant == "Ok"):
                        got1.append("ERR")
                        break
                    x = x.payload[0]
                    if x.variant == "None":
                        break
                    got1.append(x.payload[0])
            except Desync:
                got1.append("ERR")
            # reader 2: FileMessageReader over the file, the consumer loop of data_to_sqlite (`while let Ok(Some(vec))`)
            got2 = []
            try:
                r = it._invoke(fr_new, ["tf"], self_ty="TransferFileReader")
                if not (isinstance(r, Enum) and r.variant == "Ok"):
                    return ("file-reader-init-failed", ls, ids, written, got1, size)
                frd = r.payload[0]
                for _ in range(nrec + 2):
                    x = it.call_method("TransferFileReader", "read_record_vec", frd, [])
                    if not (isinstance(x, Enum) and x.variant == "Ok" and isinstance(x.payload[0], Enum) and x.payload[0].variant == "Some"):
                        break
                    vec = x.payload[0].payload[0]
                    rr = it._invoke(rec_fn, [vec, frd["header"]])
                    if not (isinstance(rr, Enum) and rr.variant == "Ok"):
                        got2.append("ERR")
                        break
                    got2.append(rr.payload[0])
            except Desync:
                got2.append("ERR")
            except rsparse.Unsupported as e:
                if "feasible values" not in str(e):
                    raise
                got2.append("ERR")
            return ("ok", ls, ids, written, (got1, got2), size)
        paths = it.explore(thunk, max_paths=5000)
        s = z3.Solver()
        for b in symb.values():
            s.add(z3.ULT(b, 256))
        nq = 0
        viol = None
        covers = {"a record named by table id": 0, "a file longer than one chunk": 0, "a record longer than one chunk": 0}
        for pc, rr, exc in paths:
            if exc is not None:
                viol = {"message": "panic while a transfer file is written / read: %s" % exc, "tags": ["panic"], "model": {}}
                break
            kind, ls, ids, written, gots, size = rr
            if any(ids):
                covers["a record named by table id"] += 1
            if size > 1024:
                covers["a file longer than one chunk"] += 1
            if any(n > 1024 for n in ls):
                covers["a record longer than one chunk"] += 1
            if kind != "ok":
                viol = {"message": "transfer file (value lengths %s): %s" % (ls, kind), "tags": ["records-lost-or-added"], "model": {"value_lengths": ls, "by_id": ids}}
                break
            for rname, got in zip(("TransferReader", "TransferFileReader"), gots):
                msg = None
                if "ERR" in got:
                    msg = "reading fails / takes value bytes for a length after %d of %d records" % (got.index("ERR"), len(written))
                elif len(got) != len(written):
                    msg = "%d records are read back, %d were written" % (len(got), len(written))
                if msg:
                    viol = {"message": "transfer file of %d bytes (value lengths %s), %s: %s" % (size, ls, rname, msg), "tags": ["records-lost-or-added"], "model": {"value_lengths": ls, "by_id": ids, "reader": rname}}
                    break
                for i, (a, b) in enumerate(zip(written, got)):
                    if b["table_name"] != TABLE or list(b["key"]) != list(a["key"]) or len(b["value"]) != len(a["value"]):
                        viol = {"message": "transfer file (value lengths %s), %s: record %d is read back as table %r, key %s, a value of %d bytes" % (ls, rname, i, b["table_name"], list(b["key"]), len(b["value"])),
                                "tags": ["record-changed"], "model": {"value_lengths": ls, "by_id": ids, "reader": rname, "record": i}}
                        break
                    diffs = []
                    for j, (x, y) in enumerate(zip(a["value"], b["value"])):
                        if isinstance(x, int) and isinstance(y, int):
                            if x != y:
                                diffs.append((j, True))
                        elif x is not y:
                            diffs.append((j, rseval.to_bv(x) != rseval.to_bv(y)))
                    nq += 1
                    if diffs:
                        s.push()
                        s.add(*pc)
                        s.add(z3.Or(*[z3.BoolVal(True) if c is True else c for _j, c in diffs]))
                        if s.check() == z3.sat:
                            viol = {"message": "transfer file (value lengths %s), %s: record %d is read back with other bytes than were written (first at offset %d)" % (ls, rname, i, diffs[0][0]),
                                    "tags": ["record-changed"], "model": {"value_lengths": ls, "by_id": ids, "reader": rname, "record": i}}
                        s.pop()
                    if viol:
                        break
                if viol:
                    break
            if viol:
                break
        ob["queries"] = nq + it.queries
        ob["solver_s"] = round(time.time() - t0, 1)
        ob["sample"] = {"paths_explored": len(paths), "covers": covers, "opaque_symbols": sorted(it.opaque_seen)[:20]}
        missing = [c for c, k in covers.items() if k == 0]
        if viol:
            ob.update({"verdict": "violation", "message": viol["message"], "tags": viol["tags"], "counterexample": viol["model"]})
        elif missing:
            ob.update({"verdict": "inconclusive", "message": "reachability witness never reached: %s" % missing})
        else:
            ob.update({"verdict": "discharged", "distinct": nq})
    except rsparse.Unsupported as e:
        ob.update({"verdict": "inconclusive", "message": "encoder met source it cannot encode: %s" % e})
    return ob


if __name__ == "__main__":
    import sys
    ob = run(sys.argv[1] if len(sys.argv) > 1 else "quick", 0)
    print(ob["harness"], ob.get("verdict"), str(ob.get("message", ""))[:900], str(ob.get("counterexample"))[:500], ob.get("queries"), ob.get("solver_s"), str(ob.get("sample"))[:600])
