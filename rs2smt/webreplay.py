"""native confirmation of engine-S results for the web properties (C16, C17) through /verif/harness/cweb.rs"""
import json
import os

from lib import native


def run_cases(prop, mode, cases, message):
    if os.environ.get("VERIF_NO_NATIVE"):
        # development self-test against a scratch copy of the sources (VERIF_REPO): the native build is of /repo, skip it
        return {"outcome": "passed" if mode == "validate" else "reproduced", "output": "native step skipped (VERIF_NO_NATIVE)", "path": "", "message": message, "tags": []}
    path = native.write_replay(prop, "cweb", "cases", [], {"engine": "smt", "mode": mode, "cases": cases, "message": message})
    exe, berr = native.build()
    if exe is None:
        return {"outcome": "error", "output": "native build failed: " + berr[-400:], "path": path}
    rr = native.run_replay(exe, path)
    rr["path"] = path
    if mode == "validate" and rr["outcome"] == "passed":
        os.remove(path)
    return rr


def attach(ob, prop):
    """replay a violation: facts of the counterexample that have a native predicate are confirmed against the real build;
    decision-skeleton counterexamples (no native entry point without a full server) are written out with their model."""
    cases = ob.get("cases")
    reqs = ob.get("e2e_requests")
    if reqs and not cases and not os.environ.get("VERIF_NO_NATIVE"):
        # end to end: the real App of the API port (ApiCheckAuth around web_config::app_config, auth on) receives the tokenless request
        path = native.write_replay(prop, "cweb_e2e", "requests", [], {"engine": "smt", "mode": "violation", "requests": reqs, "message": ob.get("message", "")})
        exe, berr = native.build()
        rr = native.run_replay(exe, path) if exe is not None else {"outcome": "error", "output": "native build failed: " + berr[-400:]}
        ob["replay_path"] = path
        ob["replay"] = {"path": path, "outcome": rr["outcome"], "message": rr.get("message", "")}
        if rr["outcome"] != "reproduced":
            ob["verdict"] = "inconclusive"
            ob["message"] = "solver counterexample not confirmed end to end on the real App (%s): %s" % (rr["outcome"], rr.get("output", "")[-300:])
        else:
            ob["message"] = "%s [real App of the API port: the tokenless request is not answered 403]" % ob.get("message", "")
        return
    if cases:
        rr = run_cases(prop, "violation", cases, ob.get("message", ""))
        ob["replay_path"] = rr["path"]
        ob["replay"] = {"path": rr["path"], "outcome": rr["outcome"], "message": rr.get("message", "")}
        if rr["outcome"] != "reproduced":
            ob["verdict"] = "inconclusive"
            ob["message"] = "solver counterexample not confirmed by the real predicates (%s): %s" % (rr["outcome"], rr.get("output", "")[-300:])
    else:
        path = native.write_replay(prop, "cweb", "model", [], {"engine": "smt", "mode": "model-only", "obligation": ob.get("harness"),
                                                               "message": ob.get("message"), "model": ob.get("counterexample")})
        ob["replay_path"] = path
        ob["replay"] = {"path": path, "outcome": "model-only",
                        "message": "decision skeleton evaluated from the source; no native entry point without a running server"}
