"""C18 at the call sites: every console handler that acts on a namespace named by the request has checked that namespace first.

Every handler function of the console API modules (src/console/*.rs, src/console/v2/*.rs and the files they delegate to) is
evaluated from source in lenient mode:
  * request parameters (web::Query / Json / Form of a struct) are structs whose string fields are fresh symbolic strings; the
    fields that name a namespace (namespace, namespace_id, namespaceId, tenant) are the TAINT SOURCES;
  * `user_namespace_privilege!(req)` yields a privilege object whose check_permission(x) / check_option_value_permission(x, d)
    answer with a fresh Boolean per call (recorded with the taint sources x is built from); is_all() likewise;
  * everything reached through the shared application data (`app.xxx.send(..)`, `.do_send(..)`, route helpers) has no model: the
    evaluator records each such call with its arguments as a DATA ACCESS.
Oracle per path: a data access whose arguments are built from a taint source must be preceded by a check on a term built from
the same source whose answer the path has taken as `true`; or carry the privilege object itself (listing delegated to the index
filters, decided by s18_2). Handlers that never touch a taint source are outside the obligation (nothing namespace-specific).
Weaker than full equality of the checked and the used term (a handler that checks f(ns) and acts on g(ns) passes) - chosen so that
the unchanged tree raises no false alarm; it catches a forgotten check, a check on another field and acting before checking.
"""
import glob
import os
import time

import z3
from z3 import z3util

from . import rseval, rsparse
from .common import REPO
from .rseval import Struct, Enum, NONE, Some, Ok, Err, Uninterp

NS_FIELDS = ("namespace", "namespace_id", "namespaceId", "tenant")
HANDLER_GLOBS = ["src/console/*.rs", "src/console/v2/*.rs"]
SUPPORT_GLOBS = ["src/console/model/*.rs", "src/naming/ops/*.rs", "src/config/config_type.rs", "src/common/macros.rs", "src/config/utils.rs", "src/naming/naming_utils.rs",
                 "src/mcp/model/*.rs", "src/namespace/model.rs"]


COMPOSED_KEY_ROUTES = (".set_config", ".del_config")   # RaftConfigRoute: the key is serialised with ConfigKey::build_key and parsed again on apply
MOUNTED = set()   # (file, fn) of handlers outside src/console that console routes point to


class Priv:
    def __init__(self):
        self.ty = "VerifPrivilege"


def taint_of(v, acc=None, depth=0):
    """names of the taint sources a value is built from"""
    if acc is None:
        acc = set()
    if depth > 12:
        return acc
    if isinstance(v, z3.ExprRef):
        for x in z3util.get_vars(v):
            if str(x).startswith("ns_"):
                acc.add(str(x))
    elif isinstance(v, Uninterp):
        for a in v.args:
            taint_of(a, acc, depth + 1)
    elif isinstance(v, Enum):
        p = v.payload
        if isinstance(p, dict):
            for a in p.values():
                taint_of(a, acc, depth + 1)
        elif p:
            for a in p:
                taint_of(a, acc, depth + 1)
    elif isinstance(v, dict):
        for a in v.values():
            taint_of(a, acc, depth + 1)
    elif isinstance(v, (list, tuple)):
        for a in v:
            taint_of(a, acc, depth + 1)
    return acc


def has_priv(v, depth=0):
    if depth > 12:
        return False
    if isinstance(v, Priv):
        return True
    if isinstance(v, Uninterp):
        return any(has_priv(a, depth + 1) for a in v.args)
    if isinstance(v, Enum):
        p = v.payload
        return any(has_priv(a, depth + 1) for a in (p.values() if isinstance(p, dict) else (p or [])))
    if isinstance(v, dict):
        return any(has_priv(a, depth + 1) for a in v.values())
    if isinstance(v, (list, tuple)):
        return any(has_priv(a, depth + 1) for a in v)
    return False


STRUCT_DEFS = {}   # struct name -> [(file, fields)]: two modules define request structs of the same name (console / openapi models)


def _add(prog, items, rel):
    prog.add_items(items, rel)
    for it in items:
        if it[0] == "struct":
            STRUCT_DEFS.setdefault(it[1], []).append((rel, it[2]))


def scope_structs(prog, rel):
    """make the struct definitions visible from file `rel` the current ones: the definition that shares the longest directory prefix wins"""
    def common(a, b):
        pa, pb = a.split("/"), b.split("/")
        n = 0
        while n < min(len(pa), len(pb)) and pa[n] == pb[n]:
            n += 1
        return n
    for name, defs in STRUCT_DEFS.items():
        if len(defs) > 1:
            best = max(defs, key=lambda d: common(d[0], rel))
            prog.structs[name] = best[1]


def load():
    STRUCT_DEFS.clear()
    prog = rseval.Program()
    files = []
    for g in HANDLER_GLOBS + SUPPORT_GLOBS:
        files += sorted(glob.glob(os.path.join(REPO, g)))
    handlers = []
    for p in files:
        rel = os.path.relpath(p, REPO)
        try:
            items = rsparse.parse_file(p)
        except rsparse.Unsupported as e:
            raise rsparse.Unsupported("%s: %s" % (rel, e))
        _add(prog, items, rel)
        if any(rel.startswith(os.path.dirname(g)) and "/model/" not in rel for g in HANDLER_GLOBS):
            for it in items:
                if it[0] == "fn" and it[3] is not None:
                    handlers.append((rel, it))
                    fn_file[id(it)] = rel
    # handlers of other modules that the console mounts (console/api.rs routes requests of logged-in console users to OpenAPI handler functions)
    import re
    mounted = []
    for p in sorted(glob.glob(os.path.join(REPO, "src/console/*.rs"))):
        txt = open(p).read()
        for mod_path, name in re.findall(r"\.to\(\s*crate::((?:\w+::)+)(\w+)\s*\)", txt):
            if not mod_path.startswith("console::"):
                mounted.append((mod_path.rstrip(":").split("::"), name))
        used = set(re.findall(r"\.to\(\s*(\w+)\s*\)", txt))
        for mod_path, names in re.findall(r"use\s+crate::((?:\w+::)+)\{([^}]*)\}\s*;", txt):
            if mod_path.startswith("console::"):
                continue
            for nm in [x.strip() for x in names.split(",") if x.strip()]:
                if nm in used:
                    mounted.append((mod_path.rstrip(":").split("::"), nm))
    seen_files = {}
    for parts, name in sorted(set((tuple(a), b) for a, b in mounted)):
        base = os.path.join(REPO, "src", *parts)
        fpath = base + ".rs" if os.path.exists(base + ".rs") else os.path.join(base, "mod.rs")
        if not os.path.exists(fpath):
            raise rsparse.Unsupported("console route to crate::%s::%s: module file not found" % ("::".join(parts), name))
        rel = os.path.relpath(fpath, REPO)
        if rel not in seen_files:
            seen_files[rel] = rsparse.parse_file(fpath)
            _add(prog, seen_files[rel], rel)
            files.append(fpath)
            # request models next to the handlers
            for extra in sorted(glob.glob(os.path.join(os.path.dirname(fpath), "model*.rs"))) + sorted(glob.glob(os.path.join(os.path.dirname(fpath), "model", "*.rs"))):
                if extra not in files:
                    _add(prog, rsparse.parse_file(extra), os.path.relpath(extra, REPO))
                    files.append(extra)
        for it in seen_files[rel]:
            if it[0] == "fn" and it[1] == name and it[3] is not None:
                handlers.append((rel, it))
                fn_file[id(it)] = rel
                MOUNTED.add((rel, name))
    return prog, handlers, [os.path.relpath(p, REPO) for p in files]


def param_value(it, prog, pat, ty, counter):
    """a value for one handler parameter from its declared type"""
    t = (ty or "").replace(" ", "")
    base = t.split("<")[0].split("::")[-1]
    inner = t[t.index("<") + 1:-1] if "<" in t else ""
    if base in ("Query", "Json", "Form", "Path"):
        ity = inner.split("<")[0].split("::")[-1]
        if ity == "Vec" and "<" in inner:
            # web::Json<Vec<T>>: a list of request objects - one element with symbolic fields stands for every element (the handler treats them alike)
            ety = inner[inner.index("<") + 1:-1].split("<")[0].split("::")[-1]
            if ety in prog.structs and prog.structs[ety]:
                lst = [sym_struct(it, prog, ety, counter)]
                return Struct(base, {"0": lst})
        if ity in prog.structs and prog.structs[ity]:
            inner_v = sym_struct(it, prog, ity, counter)
            # web::Query<T> & co: `param.0`, `web::Query(param)`, `param.into_inner()` and (through Deref) `param.field`
            w = Struct(base, dict(inner_v))
            w["0"] = inner_v
            return w
        return rseval.Uninterp("param<%s>" % ity, [])
    if base == "HttpRequest":
        return Struct("HttpRequest", {})
    if base == "Data":
        return rseval.Uninterp("app", [])
    return rseval.Uninterp("arg<%s>" % base, [])


def sym_struct(it, prog, ty, counter, depth=0):
    fields = {}
    for f, fty in prog.structs[ty]:
        ft = (fty or "").replace(" ", "")
        opt = ft.startswith("Option<")
        core = ft[7:-1] if opt else ft
        cbase = core.split("<")[0].split("::")[-1]
        if cbase in ("Arc", "Box") and "<" in core:
            core = core[core.index("<") + 1:-1]
            cbase = core.split("<")[0].split("::")[-1]
        counter[0] += 1
        if cbase in ("String", "str"):
            name = ("ns_%s_%d" if f in NS_FIELDS else "p_%s_%d") % (f, counter[0])
            v = z3.String(name)
        elif cbase in ("u64", "usize", "u32", "i64", "i32", "u16", "u8"):
            v = z3.BitVec("p_%s_%d" % (f, counter[0]), 64)
        elif cbase == "bool":
            v = z3.Bool("p_%s_%d" % (f, counter[0]))
        elif cbase in prog.structs and prog.structs[cbase] and depth < 2:
            v = sym_struct(it, prog, cbase, counter, depth + 1)
        else:
            v = rseval.Uninterp("field<%s>" % f, [])
        fields[f] = Some(v) if opt else v
    return Struct(ty, fields)


def run(tier, seed, only=None):
    t0 = time.time()
    ob = {"engine": "smt", "harness": "s18_4_handler_call_sites", "queries": 0, "solver_s": 0.0, "distinct": 0,
          "encodes": ["every fn of src/console/*.rs and src/console/v2/*.rs with a request parameter that names a namespace"],
          "bound": "request parameters: every string field an arbitrary string (Option fields present), numeric fields arbitrary; every path through the handler body (lenient evaluation: "
                   "calls without a model are opaque terms that keep their arguments)"}
    try:
        prog, handlers, files = load()
        ob["encodes_files"] = files
        results = []
        allv = []
        viols = []
        viol = None
        skipped = {}
        checked_handlers = []
        composed_reported = set()
        nq = 0
        for rel, fn in handlers:
            name = fn[1]
            if only and name not in only:
                continue
            scope_structs(prog, rel)
            it = rseval.Interp(prog)
            it.lenient = True
            it.opaque_iteration = True
            it.max_loop = 64
            events = []
            counter = [0]

            def record_opaque(nm, args, it=it, events=events):
                it.opaque_seen.add(nm)
                u = Uninterp(nm, list(args))
                if nm.startswith(".") and args and isinstance(args[0], Uninterp) and root_is_app(args[0]):
                    events.append(("access", nm, list(args[1:]), list(it.pc)))
                return u
            it.mk_opaque = record_opaque

            def mk_check(kind):
                def f(interp, recv, args, events=events):
                    b = z3.Bool("chk_%d" % len(events))
                    events.append(("check", kind, taint_of(args[0]), b))
                    return b
                return f
            it.models[("VerifPrivilege", "check_permission")] = mk_check("check_permission")
            it.models[("VerifPrivilege", "check_option_value_permission")] = mk_check("check_option_value_permission")
            it.models[("VerifPrivilege", "is_all")] = lambda interp, recv, args, events=events: z3.Bool("is_all_%d" % len(events))
            it.models[("VerifPrivilege", "clone")] = lambda interp, recv, args: recv
            for wty in ("Query", "Json", "Form", "Path"):
                it.models[(wty, "into_inner")] = lambda interp, recv, args: recv["0"]
                it.models[(wty, "as_ref")] = lambda interp, recv, args: recv["0"]
                it.models[(wty, "clone")] = lambda interp, recv, args: recv
            def key_is_valid(interp, recv, args, events=events):
                # ConfigKey::is_valid (dataId and group are plain names: no separator character, rs2smt/c18key.py): Ok or Err, recorded
                b = z3.Bool("keyvalid_%d" % len(events))
                events.append(("valid", b))
                return Ok(()) if interp.branch(b) else Err(Uninterp("invalid-key", []))
            it.models[(None, "is_valid")] = key_is_valid
            it.macro_models["user_namespace_privilege"] = lambda interp, args: Priv()
            it.macro_models["user_no_namespace_permission"] = lambda interp, args: (_ for _ in ()).throw(rseval.ReturnEx(Uninterp("no-permission-response", [])))
            results.append(name)
            try:
                args = build_args(it, prog, fn, counter)
            except rsparse.Unsupported as e:
                skipped[name] = "parameters: %s" % e
                continue
            if args is None:
                skipped[name] = "no typed request parameter"
                continue
            if not any(taint_of(a) for a in args):
                skipped[name] = "no namespace field in its parameters"
                continue

            def thunk(it=it, fn=fn, args=args, events=events):
                del events[:]
                import copy
                it._invoke(fn, copy.deepcopy(args))
                return list(events)
            try:
                paths = it.explore(thunk, max_paths=3000)
            except rsparse.Unsupported as e:
                skipped[name] = "body: %s" % str(e)[:160]
                continue
            except (z3.Z3Exception, TypeError, KeyError, AttributeError, IndexError, ValueError) as e:
                skipped[name] = "body: evaluator error %s: %s" % (type(e).__name__, str(e)[:120])
                continue
            checked_handlers.append("%s::%s" % (rel, name))
            s = z3.Solver()
            for pc, evs, exc in paths:
                if exc is not None or evs is None:
                    continue
                passed = {}
                validated = []
                for i, ev in enumerate(evs):
                    if ev[0] == "check":
                        passed[i] = ev
                    elif ev[0] == "valid":
                        validated.append(ev[1])
                    elif ev[0] == "access":
                        _k, nm, aargs, pc_at = ev
                        if nm in COMPOSED_KEY_ROUTES and taint_of(aargs) and (rel, name) not in composed_reported:
                            # the key travels as one string (dataId U+0002 group U+0002 tenant): without the validity gate a group / dataId that contains
                            # the separator makes the state machine act on another tenant than the one this handler checked (kernel: s18_5_composed_key)
                            gate = False
                            for b in validated:
                                s.push()
                                s.add(*pc)
                                s.add(z3.Not(b))
                                nq += 1
                                if s.check() == z3.unsat:
                                    gate = True
                                s.pop()
                            if not gate:
                                composed_reported.add((rel, name))
                                viols.append({"message": "console handler %s (%s) hands a configuration key built from request strings to the raft route (%s) without ConfigKey::is_valid: a group or dataId that "
                                                         "contains the key separator U+0002 moves the request into another namespace than the one the handler checked" % (name, rel, nm),
                                              "tags": ["composed-key-unvalidated"], "model": {"handler": name, "file": rel, "access": nm, "unchecked": ["group / dataId (separator U+0002)"], "checked": [], "rule": "composed-key"}})
                        if has_priv(aargs):
                            continue
                        used = set()
                        for a in aargs:
                            taint_of(a, used)
                        if not used:
                            continue
                        # which sources were checked with answer true on this path before the access?
                        ok_sources = set()
                        for j, cev in passed.items():
                            s.push()
                            s.add(*pc)
                            s.add(z3.Not(cev[3]))
                            nq += 1
                            taken_true = s.check() == z3.unsat
                            s.pop()
                            if taken_true:
                                ok_sources |= cev[2]
                        missing = {strip(u) for u in used} - {strip(u) for u in ok_sources}
                        if missing:
                            allv.append("%s (%s) %s %s" % (name, rel, nm, sorted(missing)))
                            viol = {"message": "console handler %s (%s) reaches the data layer (%s) with the request's %s without a successful namespace-permission check on it"
                                               % (name, rel, nm, sorted(missing)), "tags": ["unchecked-namespace"],
                                    "model": {"handler": name, "file": rel, "access": nm, "unchecked": sorted(missing), "checked": sorted(strip(u) for u in ok_sources)}}
                            break
                if viol:
                    break
            if viol:
                viols.append(viol)
                viol = None
        ob["queries"] = nq
        ob["solver_s"] = round(time.time() - t0, 1)
        ob["sample"] = {"handlers_checked": checked_handlers, "handlers_outside": {k: v for k, v in skipped.items() if not v.startswith("no ")},
                        "handlers_without_a_namespace_parameter": sorted(k for k, v in skipped.items() if v.startswith("no "))}
        unevaluated = {k: v for k, v in skipped.items() if v.startswith("body:") or v.startswith("parameters:")}
        out = []
        for v in viols:
            o = dict(ob)
            o.update({"verdict": "violation", "message": v["message"], "tags": v["tags"] + ["handler:%s::%s" % (v["model"]["file"], v["model"]["handler"])], "counterexample": v["model"]})
            out.append(o)
        if unevaluated:
            o = dict(ob)
            o.update({"verdict": "inconclusive", "message": "handlers with a namespace parameter that the evaluator cannot follow (they would be outside the claim unnoticed): %s" % unevaluated})
            out.append(o)
        elif len(checked_handlers) < 30:
            o = dict(ob)
            o.update({"verdict": "inconclusive", "message": "reachability witness never reached: fewer than 30 handlers with a namespace parameter were evaluated (%d)" % len(checked_handlers)})
            out.append(o)
        elif not viols:
            ob.update({"verdict": "discharged", "distinct": len(checked_handlers)})
            out.append(ob)
        else:
            o = dict(ob)
            o["harness"] = "s18_4_handler_call_sites_others"
            o.update({"verdict": "discharged", "distinct": len(checked_handlers) - len(viols),
                      "bound": ob["bound"] + "; the %d handlers not reported above" % (len(checked_handlers) - len({v["model"]["handler"] + v["model"]["file"] for v in viols}))})
            out.append(o)
        return out
    except rsparse.Unsupported as e:
        ob.update({"verdict": "inconclusive", "message": "encoder met source it cannot encode: %s" % e})
    return [ob]


def strip(name):
    """ns_tenant_12 -> tenant"""
    parts = name.split("_")
    return "_".join(parts[1:-1])


fn_file = {}


def root_is_app(u, depth=0):
    if depth > 8 or not isinstance(u, Uninterp):
        return False
    if u.name == "app":
        return True
    return bool(u.args) and root_is_app(u.args[0], depth + 1)


def build_args(it, prog, fn, counter):
    params = fn[2]
    ptypes = None
    for (fname, n), tys in rsparse.FN_PARAM_TYPES.items():
        if n == fn[1] and fname.endswith(fn_file.get(id(fn), "?")):
            ptypes = tys
    if ptypes is None or len(ptypes) != len(params):
        return None
    return [param_value(it, prog, p, t, counter) for p, t in zip(params, ptypes)]


if __name__ == "__main__":
    import sys
    for ob in run("quick", 0, only=set(sys.argv[1:]) or None):
        print(ob["harness"], ob.get("verdict"), str(ob.get("message", ""))[:300], ob.get("tags"), ob.get("queries"), ob.get("solver_s"))
    smp = ob.get("sample") or {}
    print("checked:", len(smp.get("handlers_checked", [])))
    for k, v in (smp.get("handlers_outside") or {}).items():
        print("  outside:", k, "-", v)
