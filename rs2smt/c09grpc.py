"""C09 — one configuration, one key: the gRPC config handlers (publish, query, remove, batch listen) address the store with the
same key for the same (dataId, group, tenant) - in particular each of them maps the default namespace's name "public" to the
empty tenant the store uses. A handler that keeps the raw spelling publishes, reads or removes another key than the others:
"not found after a remove" and "listed exactly once" break for clients that spell the namespace "public".

From source, lenient mode: PayloadHandler::handle of ConfigPublishRequestHandler, ConfigQueryRequestHandler,
ConfigRemoveRequestHandler, ConfigChangeBatchListenRequestHandler (src/grpc/handler/config_*.rs) and ConfigUtils::default_tenant
(src/config/mod.rs). serde_json::from_slice yields the request struct with dataId, group, tenant ARBITRARY strings (z3);
ConfigKey::new records the key it is given; everything reached through the shared application data is opaque.
Oracle: every key a handler builds has dataId == request dataId, group == request group and tenant == "" when the request says
"public", the request's tenant otherwise - for every request, on every path; and every handler builds at least one key.
"""
import os
import time

import z3

from . import rseval, rsparse
from .common import load_program, REPO
from .c18sites import sym_struct
from .rseval import Struct, Enum, NONE, Some, Ok, Uninterp

HANDLERS = [("src/grpc/handler/config_publish.rs", "ConfigPublishRequestHandler", "ConfigPublishRequest"),
            ("src/grpc/handler/config_query.rs", "ConfigQueryRequestHandler", "ConfigQueryRequest"),
            ("src/grpc/handler/config_remove.rs", "ConfigRemoveRequestHandler", "ConfigRemoveRequest"),
            ("src/grpc/handler/config_change_batch_listen.rs", "ConfigChangeBatchListenRequestHandler", "ConfigBatchListenRequest")]
SUPPORT = ["src/grpc/api_model.rs", "src/config/mod.rs"]


def run(tier, seed):
    t0 = time.time()
    ob = {"engine": "smt", "harness": "s09_7_grpc_keys", "encodes_files": [h[0] for h in HANDLERS] + SUPPORT, "queries": 0, "solver_s": 0.0, "distinct": 0,
          "encodes": ["PayloadHandler::handle of the four gRPC config handlers", "ConfigUtils::default_tenant"],
          "bound": "dataId, group, tenant of the request arbitrary strings; every path through each handler (lenient evaluation: the data layer is opaque)"}
    try:
        viol = None
        nq = 0
        built = {}
        for file, ty, req_ty in HANDLERS:
            prog = load_program([file] + SUPPORT)
            it = rseval.Interp(prog)
            it.lenient = True
            it.opaque_iteration = True
            it.max_loop = 8
            keys = []
            it.fn_models["ConfigKey::new"] = lambda interp, args, keys=keys: keys.append((args[0], args[1], args[2])) or Struct("ConfigKey", {"data_id": args[0], "group": args[1], "tenant": args[2]})
            counter = [0]
            if req_ty not in prog.structs:
                raise rsparse.Unsupported("request struct %s not found" % req_ty)
            handle = prog.trait_method(ty, "handle", "PayloadHandler")
            if handle is None:
                raise rsparse.Unsupported("PayloadHandler::handle of %s not found" % ty)
            d, g, t = z3.String("data_id"), z3.String("group"), z3.String("tenant")

            def request():
                r = sym_struct(it, prog, req_ty, counter)
                if req_ty == "ConfigBatchListenRequest":
                    ctx = sym_struct(it, prog, "ConfigListenContext", counter)
                    ctx["data_id"], ctx["group"], ctx["tenant"] = d, g, Some(t)
                    r["config_listen_contexts"] = [ctx]
                    r["listen"] = True
                else:
                    r["data_id"], r["group"], r["tenant"] = d, g, t
                return r
            it.fn_models["serde_json::from_slice"] = lambda interp, args: Ok(request())
            it.fn_models["from_slice"] = lambda interp, args: Ok(request())

            def thunk():
                del keys[:]
                me = Struct(ty, {"app_data": Uninterp("app", [])})
                payload = Struct("Payload", {"body": Some(Struct("Any", {"value": []})), "metadata": NONE})
                it._invoke(handle, [me, payload, Uninterp("request_meta", [])], self_ty=ty)
                return list(keys)
            paths = it.explore(thunk, max_paths=3000)
            want_t = z3.If(t == z3.StringVal("public"), z3.StringVal(""), t)
            s = z3.Solver()
            s.set("timeout", 30000)
            nbuilt = 0
            for pc, ks, exc in paths:
                if exc is not None or ks is None:
                    continue
                for (kd, kg, kt) in ks:
                    nbuilt += 1
                    try:
                        bad = z3.Or(rseval.to_str(kd) != d, rseval.to_str(kg) != g, rseval.to_str(kt) != want_t)
                    except Exception:
                        raise rsparse.Unsupported("%s builds a key from values the encoder cannot follow: %r" % (ty, (kd, kg, kt)))
                    s.push()
                    s.add(*pc)
                    s.add(bad)
                    nq += 1
                    r_ = s.check()
                    if r_ == z3.sat:
                        m = s.model()
                        ev = lambda x: m.eval(rseval.to_str(x), model_completion=True).as_string()
                        viol = {"message": "gRPC handler %s addresses the store with key (dataId %r, group %r, tenant %r) for the request (dataId %r, group %r, tenant %r): the other handlers and the store use tenant %r"
                                           % (ty, ev(kd), ev(kg), ev(kt), ev(d), ev(g), ev(t), ev(want_t)), "tags": ["grpc-key-differs", "handler:" + ty],
                                "model": {"handler": ty, "request": {"dataId": ev(d), "group": ev(g), "tenant": ev(t)}, "key": {"dataId": ev(kd), "group": ev(kg), "tenant": ev(kt)}}}
                    s.pop()
                    if r_ == z3.unknown:
                        raise rsparse.Unsupported("z3 gives up on a key comparison")
                    if viol:
                        break
                if viol:
                    break
            built[ty] = nbuilt
            if viol:
                break
        ob["queries"] = nq
        ob["solver_s"] = round(time.time() - t0, 1)
        ob["sample"] = {"keys_built_per_handler": built}
        missing = [h[1] for h in HANDLERS if not built.get(h[1])] if not viol else []
        if viol:
            ob.update({"verdict": "violation", "message": viol["message"], "tags": viol["tags"], "counterexample": viol["model"]})
        elif missing:
            ob.update({"verdict": "inconclusive", "message": "reachability witness never reached: no key is built in %s" % missing})
        else:
            ob.update({"verdict": "discharged", "distinct": nq})
    except rsparse.Unsupported as e:
        ob.update({"verdict": "inconclusive", "message": "encoder met source it cannot encode: %s" % e})
    return ob


if __name__ == "__main__":
    ob = run("quick", 0)
    print(ob["harness"], ob.get("verdict"), str(ob.get("message", ""))[:900], str(ob.get("counterexample"))[:500], ob.get("queries"), ob.get("solver_s"), str(ob.get("sample"))[:500])
