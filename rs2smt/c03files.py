"""C03 at the level of the log manager: which log files a truncation reaches.

RaftLogManager::strip_log_to_index and LogRangeWrap::get_log_range_end_index (src/raft/filestore/raftlog/mod.rs) evaluated from
source. The catalogue is concrete - the shapes the store itself produces: [current], [snapshot pointer file, current] (after the
second compaction or a snapshot installation), [pointer, rolled-over file, current] - the cut index is symbolic. The per-file
actors are recording sinks.

Oracle (the file-level behaviour of one file is C03's other obligations): every file that holds entries at or above the cut is
sent StripLogToIndex(cut); no file below it is; the catalogue afterwards holds exactly the files whose first index is <= cut; the
current file is the last of them; the caller is answered Success.
"""
import time

import z3

from . import rseval, rsparse
from .common import load_program
from .rseval import Struct, Enum, NONE, Some, Ok, Uninterp

FILES = ["src/raft/filestore/raftlog/mod.rs"]
CATALOGUES = {
    "one open file": [(1, 1, None)],
    "snapshot pointer file + current file": [(0, 5, 1), (1, 6, None)],
    "pointer + rolled-over file + current file": [(0, 5, 1), (1, 6, 4), (2, 10, None)],
}
MAX_CUT = 13


class Actor:
    def __init__(self, name):
        self.ty = "LogActorAddr"
        self.name = name
        self.sent = []


class Tx:
    def __init__(self):
        self.ty = "OneshotSender"
        self.sent = []


def run(tier, seed):
    t0 = time.time()
    ob = {"engine": "smt", "harness": "s03_3_file_selection", "encodes_files": FILES, "queries": 0, "solver_s": 0.0, "distinct": 0,
          "encodes": ["RaftLogManager::strip_log_to_index", "LogRangeWrap::get_log_range_end_index"],
          "bound": "catalogues: %s; every cut index 0..=%d (symbolic)" % ("; ".join(CATALOGUES), MAX_CUT)}
    try:
        prog = load_program(FILES)
        it = rseval.Interp(prog)
        it.lenient = True
        it.models[("LogActorAddr", "do_send")] = lambda interp, recv, args: recv.sent.append(args[0]) or ()
        it.models[("OneshotSender", "send")] = lambda interp, recv, args: recv.sent.append(args[0]) or Ok(())
        cut = z3.BitVec("cut_index", 64)
        viol = None
        npaths = 0
        multi = 0
        for cname, files in CATALOGUES.items():
            def thunk(files=files):
                logs = []
                for fid, start, count in files:
                    rng = Struct("LogRange", {"id": fid, "pre_term": 0, "start_index": start, "record_count": count if count is not None else 0,
                                              "split_off_index": start, "is_close": count is not None, "mark_remove": False})
                    logs.append(Struct("LogRangeWrap", {"log_range": rng, "log_actor": Some(Actor("file-%d" % fid))}))
                mgr = Struct("RaftLogManager", {"logs": logs, "current_log_actor": logs[-1]["log_actor"], "base_path": "p", "index_info": NONE, "last_applied_log": 0,
                                                "index_manager": NONE, "pre_ready_snapshot_pointer": NONE, "last_ready_snapshot_pointer": NONE, "is_init": True})
                tx = Tx()
                actors = [w["log_actor"].payload[0] for w in logs]
                it.call_method("RaftLogManager", "strip_log_to_index", mgr, ["ctx", cut, Some(tx)])
                kept = [w["log_range"]["id"] for w in mgr["logs"]]
                cur = mgr["current_log_actor"]
                cur_name = cur.payload[0].name if isinstance(cur, Enum) and cur.variant == "Some" else None
                return [(a.name, list(a.sent)) for a in actors], kept, cur_name, list(tx.sent)
            it.solver.push()
            it.solver.add(z3.ULE(cut, MAX_CUT))
            paths = it.explore(thunk)
            it.solver.pop()
            npaths += len(paths)
            s = z3.Solver()
            s.add(z3.ULE(cut, MAX_CUT))
            for pc, r, exc in paths:
                if exc is not None:
                    viol = {"message": "panic in the log manager: %s" % exc, "tags": ["panic"], "model": {"catalogue": cname}}
                    break
                sent, kept, cur_name, answers = r
                bad = []
                for c in range(MAX_CUT + 1):
                    for (fid, start, count), (an, msgs) in zip(files, sent):
                        end = start + count if count is not None else 1 << 63
                        got = [m for m in msgs if (isinstance(m, Enum) and m.variant == "StripLogToIndex") or (isinstance(m, Uninterp) and m.name.endswith("StripLogToIndex"))]
                        if c < end and len(got) != 1:
                            bad.append((c, "file %d (entries %d..%s) holds entries at or above the cut %d but is not told to truncate" % (fid, start, "open" if count is None else end, c), "file-not-truncated"))
                        if c >= end and got:
                            bad.append((c, "file %d (entries %d..%d) lies below the cut %d but is told to truncate" % (fid, start, end, c), "file-truncated-below-cut"))
                    want = [fid for fid, start, _c in files if not c < start]
                    if kept != want:
                        bad.append((c, "after delete-from %d the catalogue holds files %s, expected %s" % (c, kept, want), "catalogue-wrong"))
                    elif want and cur_name != "file-%d" % want[-1]:
                        bad.append((c, "after delete-from %d the current file is %s, the last file of the catalogue is file-%d" % (c, cur_name, want[-1]), "current-file-wrong"))
                    if len(answers) != 1:
                        bad.append((c, "the caller of delete-from is answered %d times" % len(answers), "caller-not-answered"))
                # a path covers a region of cut values: is one of its members bad?
                for c, msg, tag in bad:
                    s.push()
                    s.add(*pc)
                    s.add(cut == c)
                    ob["queries"] += 1
                    if s.check() == z3.sat:
                        viol = {"message": "%s [catalogue: %s]" % (msg, cname), "tags": [tag], "model": {"catalogue": cname, "files": files, "cut": c, "kept_files": kept,
                                                                                                          "truncate_sent_to": [n for n, m in sent if m]}}
                    s.pop()
                    if viol:
                        break
                if viol:
                    break
                if len(files) > 1 and any(m for n, m in sent):
                    multi += 1
            if viol:
                break
        ob["queries"] += it.queries
        ob["solver_s"] = round(time.time() - t0, 1)
        ob["sample"] = {"paths_explored": npaths, "multi_file_paths_with_a_truncation": multi, "opaque_symbols": sorted(it.opaque_seen)[:12]}
        if viol:
            ob.update({"verdict": "violation", "message": viol["message"], "tags": viol["tags"], "counterexample": viol["model"]})
        elif multi == 0:
            ob.update({"verdict": "inconclusive", "message": "reachability witness never reached: a truncation in a catalogue of several files"})
        else:
            ob.update({"verdict": "discharged", "distinct": npaths})
    except rsparse.Unsupported as e:
        ob.update({"verdict": "inconclusive", "message": "encoder met source it cannot encode: %s" % e})
    return ob


if __name__ == "__main__":
    ob = run("quick", 0)
    print(ob["harness"], ob.get("verdict"), str(ob.get("message", ""))[:700], str(ob.get("counterexample"))[:500], ob.get("queries"), ob.get("solver_s"), str(ob.get("sample"))[:400])
