"""C03 at the level of the log manager: which log files a truncation reaches.

RaftLogManager::strip_log_to_index and LogRangeWrap::get_log_range_end_index (src/raft/filestore/raftlog/mod.rs) evaluated from
source. The catalogue is concrete - the shapes the store itself produces: [current], [snapshot pointer file, current] (after the
second compaction or a snapshot installation), [pointer, rolled-over file, current] - the cut index is symbolic. The per-file
actors are recording sinks.

Oracle (the file-level behaviour of one file is C03's other obligations): every file that holds entries at or above the cut is
sent StripLogToIndex(cut); no file below it is; the catalogue afterwards holds exactly the files whose first index is <= cut; the
current file is the last of them; the caller is answered Success.
"""
import time

import z3

from . import rseval, rsparse
from .common import load_program
from .rseval import Struct, Enum, NONE, Some, Ok, Uninterp

FILES = ["src/raft/filestore/raftlog/mod.rs"]
CATALOGUES = {
    "one open file": [(1, 1, None)],
    "snapshot pointer file + current file": [(0, 5, 1), (1, 6, None)],
    "pointer + rolled-over file + current file": [(0, 5, 1), (1, 6, 4), (2, 10, None)],
}
MAX_CUT = 13


class Actor:
    def __init__(self, name):
        self.ty = "LogActorAddr"
        self.name = name
        self.sent = []


class Tx:
    def __init__(self):
        self.ty = "OneshotSender"
        self.sent = []


def run(tier, seed):
    t0 = time.time()
    ob = {"engine": "smt", "harness": "s03_3_file_selection", "encodes_files": FILES, "queries": 0, "solver_s": 0.0, "distinct": 0,
          "encodes": ["RaftLogManager::strip_log_to_index", "LogRangeWrap::get_log_range_end_index"],
          "bound": "catalogues: %s; every cut index 0..=%d (symbolic)" % ("; ".join(CATALOGUES), MAX_CUT)}
    try:
        prog = load_program(FILES)
        it = rseval.Interp(prog)
        it.lenient = True
        it.models[("LogActorAddr", "do_send")] = lambda interp, recv, args: recv.sent.append(args[0]) or ()
        it.models[("OneshotSender", "send")] = lambda interp, recv, args: recv.sent.append(args[0]) or Ok(())
        saved3 = []

        class IndexAddr3:
            ty = "IndexAddr"
        it.models[("IndexAddr", "do_send")] = lambda interp, recv, args: saved3.append(args[0]) or ()
        it.fn_models["std::fs::remove_file"] = lambda interp, args: Ok(())
        it.fn_models["fs::remove_file"] = it.fn_models["std::fs::remove_file"]
        it.fn_models["Self::get_log_path"] = lambda interp, args: "p/log_%s" % (args[1]["id"] if isinstance(args[1], Struct) else "?")
        it.fn_models["get_log_path"] = it.fn_models["Self::get_log_path"]
        cut = z3.BitVec("cut_index", 64)
        viol = None
        npaths = 0
        multi = 0
        for cname, files in CATALOGUES.items():
            def thunk(files=files):
                logs = []
                for fid, start, count in files:
                    rng = Struct("LogRange", {"id": fid, "pre_term": 0, "start_index": start, "record_count": count if count is not None else 0,
                                              "split_off_index": start, "is_close": count is not None, "mark_remove": False})
                    logs.append(Struct("LogRangeWrap", {"log_range": rng, "log_actor": Some(Actor("file-%d" % fid))}))
                del saved3[:]
                mgr = Struct("RaftLogManager", {"logs": logs, "current_log_actor": logs[-1]["log_actor"], "base_path": "p", "index_info": NONE, "last_applied_log": 0,
                                                "index_manager": Some(IndexAddr3()), "pre_ready_snapshot_pointer": NONE, "last_ready_snapshot_pointer": NONE, "is_init": True})
                tx = Tx()
                actors = [w["log_actor"].payload[0] for w in logs]
                it.call_method("RaftLogManager", "strip_log_to_index", mgr, ["ctx", cut, Some(tx)])
                kept = [w["log_range"]["id"] for w in mgr["logs"]]
                cur = mgr["current_log_actor"]
                cur_name = cur.payload[0].name if isinstance(cur, Enum) and cur.variant == "Some" else None
                last_saved = None
                for m in saved3:
                    nm = m.variant if isinstance(m, Enum) else (m.name.split("::")[-1] if isinstance(m, Uninterp) else str(m))
                    pl = m.payload if isinstance(m, Enum) else (m.args if isinstance(m, Uninterp) else None)
                    if nm == "SaveLogs":
                        lst = pl[0] if isinstance(pl, (list, tuple)) and len(pl) == 1 and isinstance(pl[0], list) else pl
                        last_saved = [x["id"] for x in lst]
                last_open = (mgr["logs"][-1]["log_range"]["is_close"] is False) if mgr["logs"] else True
                return [(a.name, list(a.sent)) for a in actors], kept, cur_name, list(tx.sent), last_saved, last_open
            it.solver.push()
            it.solver.add(z3.ULE(cut, MAX_CUT))
            paths = it.explore(thunk)
            it.solver.pop()
            npaths += len(paths)
            s = z3.Solver()
            s.add(z3.ULE(cut, MAX_CUT))
            for pc, r, exc in paths:
                if exc is not None:
                    viol = {"message": "panic in the log manager: %s" % exc, "tags": ["panic"], "model": {"catalogue": cname}}
                    break
                sent, kept, cur_name, answers, last_saved, last_open = r
                bad = []
                for c in range(MAX_CUT + 1):
                    for (fid, start, count), (an, msgs) in zip(files, sent):
                        end = start + count if count is not None else 1 << 63
                        got = [m for m in msgs if (isinstance(m, Enum) and m.variant == "StripLogToIndex") or (isinstance(m, Uninterp) and m.name.endswith("StripLogToIndex"))]
                        if c < end and len(got) != 1:
                            bad.append((c, "file %d (entries %d..%s) holds entries at or above the cut %d but is not told to truncate" % (fid, start, "open" if count is None else end, c), "file-not-truncated"))
                        if c >= end and got:
                            bad.append((c, "file %d (entries %d..%d) lies below the cut %d but is told to truncate" % (fid, start, end, c), "file-truncated-below-cut"))
                    want = [fid for fid, start, _c in files if not c < start]
                    if kept != want:
                        bad.append((c, "after delete-from %d the catalogue holds files %s, expected %s" % (c, kept, want), "catalogue-wrong"))
                    elif want and cur_name != "file-%d" % want[-1]:
                        bad.append((c, "after delete-from %d the current file is %s, the last file of the catalogue is file-%d" % (c, cur_name, want[-1]), "current-file-wrong"))
                    if len(answers) != 1:
                        bad.append((c, "the caller of delete-from is answered %d times" % len(answers), "caller-not-answered"))
                    # (raft never truncates at or below a snapshot pointer: those entries are committed)
                    if kept == want and 0 < len(want) < len(files) and (len(files) == 1 or c > files[0][1]):
                        # whole files left the catalogue: what a restart finds is the catalogue in the index file
                        if last_saved != kept:
                            bad.append((c, "delete-from %d removes whole files from the catalogue in memory (files %s stay) but the catalogue saved to the index file is %s: a restart finds the "
                                           "removed files again - entries of the removed suffix come back, the append position is the removed file's" % (c, kept,
                                           "not rewritten" if last_saved is None else last_saved), "catalogue-not-saved"))
                        elif want and not last_open:
                            bad.append((c, "after delete-from %d the last file of the catalogue (file %d) takes the appends but is still marked closed in the catalogue" % (c, want[-1]),
                                        "current-file-marked-closed"))
                # a path covers a region of cut values: is one of its members bad?
                for c, msg, tag in bad:
                    s.push()
                    s.add(*pc)
                    s.add(cut == c)
                    ob["queries"] += 1
                    if s.check() == z3.sat:
                        viol = {"message": "%s [catalogue: %s]" % (msg, cname), "tags": [tag], "model": {"catalogue": cname, "files": files, "cut": c, "kept_files": kept,
                                                                                                          "truncate_sent_to": [n for n, m in sent if m]}}
                    s.pop()
                    if viol:
                        break
                if viol:
                    break
                if len(files) > 1 and any(m for n, m in sent):
                    multi += 1
            if viol:
                break
        ob["queries"] += it.queries
        ob["solver_s"] = round(time.time() - t0, 1)
        ob["sample"] = {"paths_explored": npaths, "multi_file_paths_with_a_truncation": multi, "opaque_symbols": sorted(it.opaque_seen)[:12]}
        if viol:
            ob.update({"verdict": "violation", "message": viol["message"], "tags": viol["tags"], "counterexample": viol["model"]})
        elif multi == 0:
            ob.update({"verdict": "inconclusive", "message": "reachability witness never reached: a truncation in a catalogue of several files"})
        else:
            ob.update({"verdict": "discharged", "distinct": npaths})
    except rsparse.Unsupported as e:
        ob.update({"verdict": "inconclusive", "message": "encoder met source it cannot encode: %s" % e})
    return ob


if __name__ == "__main__":
    ob = run("quick", 0)
    print(ob["harness"], ob.get("verdict"), str(ob.get("message", ""))[:700], str(ob.get("counterexample"))[:500], ob.get("queries"), ob.get("solver_s"), str(ob.get("sample"))[:400])


def run_reads(tier, seed):
    """C02 at the catalogue level: which files a read reaches, and what a rollover records.
    RaftLogManager::{get_query_log_actors, get_load_log_actors, switch_new_log} from source over the same catalogue shapes; the
    read range [start, end) is symbolic, the rollover index symbolic. Oracle: every file that holds an index of the range is asked,
    in ascending order (asking more files is harmless: each file answers only for its own range); a rollover closes the current file
    with record_count = next index - its first index, opens a file that starts at the next index, and sends the index manager the
    whole catalogue."""
    t0 = time.time()
    ob = {"engine": "smt", "harness": "s02_6_catalogue_reads_and_rollover", "encodes_files": FILES, "queries": 0, "solver_s": 0.0, "distinct": 0,
          "encodes": ["RaftLogManager::{get_query_log_actors,get_load_log_actors,switch_new_log}", "LogRangeWrap::get_log_range_end_index"],
          "bound": "catalogues: %s; every read range 0 <= start < end <= %d and every rollover index up to %d (symbolic)" % ("; ".join(CATALOGUES), MAX_CUT, MAX_CUT + 8)}
    try:
        prog = load_program(FILES)
        it = rseval.Interp(prog)
        it.lenient = True
        sent_index = []

        class IndexAddr:
            ty = "IndexAddr"
        it.models[("IndexAddr", "do_send")] = lambda interp, recv, args: sent_index.append(args[0]) or ()
        it.fn_models["Self::create_log_actor"] = lambda interp, args: Actor("new-file-%s" % (args[1]["id"] if isinstance(args[1], Struct) else "?"))
        it.fn_models["create_log_actor"] = it.fn_models["Self::create_log_actor"]
        st, en, nxt = z3.BitVec("read_start", 64), z3.BitVec("read_end", 64), z3.BitVec("rollover_index", 64)
        viol = None
        npaths = 0
        s = z3.Solver()
        for cname, files in CATALOGUES.items():
            def mk():
                logs = []
                for fid, start, count in files:
                    # the open file is partly compacted: its split-off index lies above its first index
                    rng = Struct("LogRange", {"id": fid, "pre_term": 0, "start_index": start, "record_count": count if count is not None else 0,
                                              "split_off_index": start + (2 if count is None else 0), "is_close": count is not None, "mark_remove": False})
                    logs.append(Struct("LogRangeWrap", {"log_range": rng, "log_actor": Some(Actor("file-%d" % fid))}))
                return Struct("RaftLogManager", {"logs": logs, "current_log_actor": logs[-1]["log_actor"], "base_path": "p", "index_info": NONE, "last_applied_log": 0,
                                                 "index_manager": Some(IndexAddr()), "pre_ready_snapshot_pointer": NONE, "last_ready_snapshot_pointer": NONE, "is_init": True})
            for fn_name in ("get_query_log_actors", "get_load_log_actors"):
                def thunk(fn_name=fn_name):
                    mgr = mk()
                    args = ["ctx", st, en] if fn_name == "get_query_log_actors" else [st, en]
                    r = it.call_method("RaftLogManager", fn_name, mgr, args)
                    return [a.name for a in r]
                it.solver.push()
                it.solver.add(z3.ULT(st, en), z3.ULE(en, MAX_CUT))
                paths = it.explore(thunk)
                it.solver.pop()
                npaths += len(paths)
                for pc, names, exc in paths:
                    if exc is not None:
                        viol = {"message": "panic in %s: %s" % (fn_name, exc), "tags": ["panic"], "model": {"catalogue": cname}}
                        break
                    for a in range(MAX_CUT):
                        for b in range(a + 1, MAX_CUT + 1):
                            need = ["file-%d" % fid for fid, fs_, cnt in files if a < (fs_ + cnt if cnt is not None else 1 << 62) and b > fs_]
                            asc = names == sorted(names, key=lambda n: int(n.split("-")[-1]))
                            if all(n in names for n in need) and asc:
                                continue
                            s.push()
                            s.add(*pc)
                            s.add(st == a, en == b)
                            ob["queries"] += 1
                            if s.check() == z3.sat:
                                viol = {"message": "%s(%d, %d) asks files %s; the entries of that range live in %s [catalogue: %s]" % (fn_name, a, b, names, need, cname),
                                        "tags": ["read-misses-a-file" if asc else "read-order"], "model": {"catalogue": cname, "files": files, "start": a, "end": b, "asked": names}}
                            s.pop()
                            if viol:
                                break
                        if viol:
                            break
                    if viol:
                        break
                if viol:
                    break
            if viol:
                break
            # rollover
            first_of_last = files[-1][1]

            def thunk2():
                del sent_index[:]
                mgr = mk()
                it.call_method("RaftLogManager", "switch_new_log", mgr, ["ctx", nxt, 7])
                return [dict(w["log_range"]) for w in mgr["logs"]], list(sent_index)
            it.solver.push()
            it.solver.add(z3.UGE(nxt, first_of_last + 2), z3.ULE(nxt, MAX_CUT + 8))
            paths = it.explore(thunk2)
            it.solver.pop()
            npaths += len(paths)
            for pc, r, exc in paths:
                if exc is not None:
                    viol = {"message": "panic in switch_new_log: %s" % exc, "tags": ["panic"], "model": {"catalogue": cname}}
                    break
                ranges, msgs = r
                bad = []
                if len(ranges) != len(files) + 1:
                    bad.append((z3.BoolVal(True), "a rollover leaves %d files in the catalogue, %d expected" % (len(ranges), len(files) + 1)))
                else:
                    old, new = ranges[-2], ranges[-1]
                    bad.append((z3.BoolVal(old["is_close"] is not True), "a rollover does not close the file it leaves"))
                    bad.append((rseval.to_bv(old["record_count"]) != nxt - first_of_last, "a rollover records a wrong number of entries for the file it closes"))
                    bad.append((rseval.to_bv(new["start_index"]) != nxt, "the new log file does not start at the next index"))
                    bad.append((z3.BoolVal(new["is_close"] is not False), "the new log file is not open"))
                    bad.append((z3.BoolVal(new["id"] != old["id"] + 1), "the new log file does not get the next id"))
                saves = [m for m in msgs if (isinstance(m, Enum) and m.variant == "SaveLogs") or (isinstance(m, Uninterp) and m.name.endswith("SaveLogs"))]
                if len(saves) != 1:
                    bad.append((z3.BoolVal(True), "a rollover sends the catalogue to the index manager %d times" % len(saves)))
                else:
                    lst = saves[0].payload[0] if isinstance(saves[0], Enum) else saves[0].args[0]
                    if [x["id"] for x in lst] != [x["id"] for x in ranges]:
                        bad.append((z3.BoolVal(True), "the catalogue saved at a rollover (%s) is not the catalogue in memory (%s)" % ([x["id"] for x in lst], [x["id"] for x in ranges])))
                for cond, msg in bad:
                    s.push()
                    s.add(*pc)
                    s.add(z3.UGE(nxt, first_of_last + 2), z3.ULE(nxt, MAX_CUT + 8), cond)
                    ob["queries"] += 1
                    if s.check() == z3.sat:
                        viol = {"message": "%s [catalogue: %s]" % (msg, cname), "tags": ["rollover"], "model": {"catalogue": cname, "rollover_index": s.model().eval(nxt, model_completion=True).as_long()}}
                    s.pop()
                    if viol:
                        break
                if viol:
                    break
            if viol:
                break
        ob["queries"] += it.queries
        ob["solver_s"] = round(time.time() - t0, 1)
        ob["sample"] = {"paths_explored": npaths, "opaque_symbols": sorted(it.opaque_seen)[:12]}
        if viol:
            ob.update({"verdict": "violation", "message": viol["message"], "tags": viol["tags"], "counterexample": viol["model"]})
        elif npaths < 6:
            ob.update({"verdict": "inconclusive", "message": "only %d paths explored (vacuous?)" % npaths})
        else:
            ob.update({"verdict": "discharged", "distinct": npaths})
    except rsparse.Unsupported as e:
        ob.update({"verdict": "inconclusive", "message": "encoder met source it cannot encode: %s" % e})
    return ob


def run_batch(tier, seed):
    """C02: a replicated batch that reaches the end of a log file.
    LogInnerManager::handle_request (WriteBatch arm) and RaftLogManager::write_batch's answer handling evaluated from source;
    LogInnerManager::write is an environment function that answers Success for the records that fit, SuccessToEnd for the record
    that fills the file (symbolic position) and Failure for every later one - the contract of write(). Batch of k records starting
    at a symbolic position of the list.
    Oracle: the answer is Success when every record fitted and none filled the file; SuccessToEnd when the last record of the batch
    filled it; otherwise FailureBatch(.., list, j) where j is the position of the first record that was not written (j < len), so
    that the manager can roll over and hand exactly the unwritten rest to the next file - never a position behind the list."""
    t0 = time.time()
    k = 3 if tier == "quick" else 4
    ob = {"engine": "smt", "harness": "s02_7_batch_at_the_end_of_a_file", "encodes_files": FILES, "queries": 0, "solver_s": 0.0, "distinct": 0,
          "encodes": ["LogInnerManager::handle_request (WriteBatch arm)"],
          "bound": "batches of %d records, written from position 0 or 1; the record that fills the file at every position or nowhere (symbolic)" % k}
    try:
        prog = load_program(FILES)
        it = rseval.Interp(prog)
        it.lenient = True
        fillv, startv = z3.BitVec("record_that_fills_the_file", 8), z3.BitVec("first_position_to_write", 8)
        handle = prog.methods[("LogInnerManager", "handle_request")]
        state = {}

        def write(interp, recv, args):
            i = state["next"]
            state["next"] += 1
            state["written"].append(i) if (state["fill"] is None or i <= state["fill"]) else None
            if state["fill"] is not None and i > state["fill"]:
                return Ok(Enum("LogWriteMark", "Failure", None))
            if state["fill"] is not None and i == state["fill"]:
                return Ok(Enum("LogWriteMark", "SuccessToEnd", None))
            return Ok(Enum("LogWriteMark", "Success", None))
        it.models[("LogInnerManager", "write")] = write
        it.models[("LogInnerManager", "get_end_index")] = lambda interp, recv, args: 1000 + len(state["written"])

        def pick(var, options):
            for j, o in enumerate(options[:-1]):
                if it.branch(var == j):
                    return o
            return options[-1]

        def thunk():
            start = pick(startv, [0, 1])
            fill = pick(fillv, [None] + list(range(start, k)))
            state.update({"next": start, "fill": fill, "written": []})
            lst = [Struct("LogRecordDto", {"index": 1000 + i, "term": 1, "value": [i]}) for i in range(k)]
            mgr = Struct("LogInnerManager", {"last_term": 1})
            r = it._invoke(handle, [mgr, Enum("RaftLogRequest", "WriteBatch", [lst, start])], self_ty="LogInnerManager")
            return r, start, fill, list(state["written"])
        paths = it.explore(thunk)
        viol = None
        seen_fill_last = 0
        for pc, rr, exc in paths:
            if exc is not None:
                viol = {"message": "panic while a batch is written: %s" % exc, "tags": ["panic"], "model": {}}
                break
            r, start, fill, written = rr
            what = "batch of %d records written from position %d, the record at position %s fills the file" % (k, start, fill)
            if not (isinstance(r, Enum) and r.variant == "Ok" and isinstance(r.payload[0], Enum) and r.payload[0].variant == "WriteResult"):
                viol = {"message": "the batch is not answered with a write result (%s)" % what, "tags": ["batch-answer"], "model": {"start": start, "fill": fill}}
                break
            res = r.payload[0].payload[0]
            kind = res.variant if isinstance(res, Enum) else str(res)
            if fill is None:
                want = ("Success", None)
            elif fill == k - 1:
                want = ("SuccessToEnd", None)
                seen_fill_last += 1
            else:
                want = ("FailureBatch", fill + 1)
            got_pos = res.payload[3] if kind == "FailureBatch" else None
            if (kind, got_pos) != want:
                viol = {"message": "%s: the file answers %s%s, expected %s%s" % (what, kind, "" if got_pos is None else " (continue at position %s of %d)" % (got_pos, k), want[0],
                                                                                     "" if want[1] is None else " (continue at position %d)" % want[1]),
                        "tags": ["batch-continue-position" if kind == "FailureBatch" else "batch-answer"], "model": {"batch": k, "start": start, "fill": fill, "answer": kind, "continue_at": got_pos}}
                break
        ob["queries"] = it.queries
        ob["solver_s"] = round(time.time() - t0, 1)
        ob["sample"] = {"paths_explored": len(paths), "paths_where_the_last_record_fills_the_file": seen_fill_last, "opaque_symbols": sorted(it.opaque_seen)[:12]}
        if viol:
            ob.update({"verdict": "violation", "message": viol["message"], "tags": viol["tags"], "counterexample": viol["model"]})
        elif len(paths) < 4:
            ob.update({"verdict": "inconclusive", "message": "only %d paths explored (vacuous?)" % len(paths)})
        else:
            ob.update({"verdict": "discharged", "distinct": len(paths)})
    except rsparse.Unsupported as e:
        ob.update({"verdict": "inconclusive", "message": "encoder met source it cannot encode: %s" % e})
    return ob


def run_compaction(tier, seed):
    """C02 / C03 at the catalogue level: what a compaction pointer does to the catalogue and what of it reaches the index file.
    Handler<RaftLogManagerRequest> arms SplitOff + InstallSnapshotPointerLog (what FileStore::finalize_snapshot_installation sends) and
    save_new_snapshot_pointer (what the second compaction triggers through begin_ready_to_load), with split_off, from source. The pointer
    index is symbolic; catalogues as above. The index manager is a recording sink: the LAST SaveLogs message is what a reopen finds.
    Oracle after the operation: (a) no file that lies wholly at or below the pointer stays in the catalogue; (b) the file the pointer falls
    into is marked split off behind the pointer - in memory AND in the saved catalogue (otherwise the entries removed by the compaction come
    back after a reopen); (c) the saved catalogue equals the in-memory one (ids, first indexes, split-off indexes, entry counts) and starts
    with the pointer's own range; (d) the live actor of the split file is told the same split index."""
    t0 = time.time()
    ob = {"engine": "smt", "harness": "s02_8_compaction_pointer_catalogue", "encodes_files": FILES, "queries": 0, "solver_s": 0.0, "distinct": 0,
          "encodes": ["RaftLogManager::{split_off,save_new_snapshot_pointer}", "Handler<RaftLogManagerRequest>::handle (SplitOff, InstallSnapshotPointerLog)", "LogRangeWrap::get_log_range_end_index"],
          "bound": "catalogues: %s; every pointer index 1..=%d (symbolic); with and without a preceding SplitOff(pointer + 1)" % ("; ".join(CATALOGUES), MAX_CUT)}
    try:
        prog = load_program(FILES)
        it = rseval.Interp(prog)
        it.lenient = True
        saved = []

        class IndexAddr:
            ty = "IndexAddr"
        it.models[("IndexAddr", "do_send")] = lambda interp, recv, args: saved.append(args[0]) or ()
        it.models[("LogActorAddr", "do_send")] = lambda interp, recv, args: recv.sent.append(args[0]) or ()
        it.fn_models["Self::create_log_actor"] = lambda interp, args: Actor("new-file-%s" % (args[1]["id"] if isinstance(args[1], Struct) else "?"))
        it.fn_models["create_log_actor"] = it.fn_models["Self::create_log_actor"]
        it.fn_models["std::fs::remove_file"] = lambda interp, args: Ok(())
        it.fn_models["fs::remove_file"] = it.fn_models["std::fs::remove_file"]
        it.fn_models["Self::get_log_path"] = lambda interp, args: "p/log_%s" % (args[1]["id"] if isinstance(args[1], Struct) else "?")
        it.fn_models["get_log_path"] = it.fn_models["Self::get_log_path"]
        handle = prog.trait_method("RaftLogManager", "handle", "RaftLogManagerRequest")
        if handle is None:
            raise rsparse.Unsupported("Handler<RaftLogManagerRequest> for RaftLogManager not found")
        ptr = z3.BitVec("pointer_index", 64)
        with_split = z3.Bool("preceded_by_split_off")
        viol = None
        npaths = 0
        inside = 0

        def kind(m):
            if isinstance(m, Enum):
                return m.variant, m.payload
            if isinstance(m, Uninterp):
                return m.name.split("::")[-1], m.args
            return str(m), None
        for cname, files in CATALOGUES.items():
            def thunk(files=files):
                del saved[:]
                logs = []
                for fid, start, count in files:
                    rng = Struct("LogRange", {"id": fid + 3, "pre_term": 0, "start_index": start, "record_count": count if count is not None else 0,
                                              "split_off_index": start, "is_close": count is not None, "mark_remove": False})
                    logs.append(Struct("LogRangeWrap", {"log_range": rng, "log_actor": Some(Actor("file-%d" % (fid + 3)))}))
                mgr = Struct("RaftLogManager", {"logs": logs, "current_log_actor": logs[-1]["log_actor"], "base_path": "p", "index_info": NONE, "last_applied_log": 0,
                                                "index_manager": Some(IndexAddr()), "pre_ready_snapshot_pointer": NONE, "last_ready_snapshot_pointer": NONE, "is_init": True})
                actors = {w["log_range"]["id"]: w["log_actor"].payload[0] for w in logs}
                rec = Struct("LogRecordDto", {"index": ptr, "term": 2, "tree": "", "value": []})
                ws = it.branch(with_split)
                if ws:
                    it._invoke(handle, [mgr, Enum("RaftLogManagerRequest", "SplitOff", [ptr + 1]), "ctx"], self_ty="RaftLogManager")
                it._invoke(handle, [mgr, Enum("RaftLogManagerRequest", "InstallSnapshotPointerLog", [rec]), "ctx"], self_ty="RaftLogManager")
                mem = [(w["log_range"]["id"], w["log_range"]["start_index"], w["log_range"]["split_off_index"], w["log_range"]["record_count"]) for w in mgr["logs"]]
                last_saved = None
                for m in saved:
                    k, payload = kind(m)
                    if k == "SaveLogs":
                        lst = payload[0] if isinstance(payload, (list, tuple)) and len(payload) == 1 and isinstance(payload[0], list) else payload
                        last_saved = [(x["id"], x["start_index"], x["split_off_index"], x["record_count"]) for x in lst]
                told = {fid: [kind(m) for m in a.sent] for fid, a in actors.items()}
                return mem, last_saved, told, ws
            rng_c = [z3.UGE(ptr, 1), z3.ULE(ptr, MAX_CUT)]
            it.solver.push()
            it.solver.add(*rng_c)
            paths = it.explore(thunk)
            it.solver.pop()
            npaths += len(paths)
            s = z3.Solver()
            s.add(*rng_c)
            for pc, r, exc in paths:
                if exc is not None:
                    viol = {"message": "panic in the log manager: %s" % exc, "tags": ["panic"], "model": {"catalogue": cname}}
                    break
                mem, last_saved, told, ws = r
                for c in range(1, MAX_CUT + 1):
                    s.push()
                    s.add(*pc)
                    s.add(ptr == c)
                    ob["queries"] += 1
                    feasible = s.check() == z3.sat
                    m_ = s.model() if feasible else None
                    s.pop()
                    if not feasible:
                        continue

                    def val(x):
                        return m_.eval(rseval.to_bv(x), model_completion=True).as_long() if isinstance(x, z3.ExprRef) else x
                    memc = [tuple(val(x) for x in row) for row in mem]
                    savc = [tuple(val(x) for x in row) for row in last_saved] if last_saved is not None else None
                    msg = tag = None
                    split = c + 1
                    for fid0, start, count in files:
                        fid = fid0 + 3
                        end = start + count if count is not None else 1 << 62
                        # the pointer's own range may reuse the id of a file that was just removed: a file is identified by (id, first index)
                        row = [x for x in memc if x[0] == fid and x[1] == start]
                        if split >= end and count is not None:
                            # (a pointer re-installed at the index of an existing pointer file gives a range identical to the removed one)
                            if row and start != c:
                                msg, tag = "file %d (entries %d..%d) lies wholly at or below the pointer %d but stays in the catalogue" % (fid, start, end - 1, c), "compacted-file-kept"
                        elif start < split < end:
                            inside += 1
                            if not row:
                                msg, tag = "file %d (entries %d..) holds entries behind the pointer %d but is dropped from the catalogue" % (fid, start, c), "live-file-dropped"
                            elif row[0][2] != split:
                                msg, tag = "file %d: the pointer %d falls into it but its split-off index in the catalogue is %d, not %d" % (fid, c, row[0][2], split), "split-off-not-recorded"
                            else:
                                so = [p for k_, p in told.get(fid, []) if k_ == "SplitOff"]
                                if not so or val(so[-1][0] if isinstance(so[-1], (list, tuple)) else so[-1]) != split:
                                    msg, tag = "file %d: the pointer %d falls into it but its live actor is not told to split off at %d" % (fid, c, split), "actor-not-told"
                        if msg:
                            break
                    if not msg:
                        if savc is None:
                            msg, tag = "a snapshot pointer at %d is installed but no catalogue is saved to the index file" % c, "catalogue-not-saved"
                        elif savc != memc:
                            msg, tag = ("after the pointer %d the catalogue saved to the index file %s differs from the one in memory %s (id, first index, split-off index, entries): "
                                        "a reopen sees another log than the running process" % (c, savc, memc)), "saved-catalogue-differs"
                        elif not memc or memc[0][1] != c:
                            msg, tag = "after the pointer %d the catalogue does not start with the pointer's own range: %s" % (c, memc), "pointer-range-missing"
                    if msg:
                        viol = {"message": "%s [catalogue: %s%s]" % (msg, cname, ", SplitOff first" if ws else ""), "tags": [tag],
                                "model": {"catalogue": cname, "files": [(f + 3, a, b) for f, a, b in files], "pointer": c, "split_off_first": ws, "memory": memc, "saved": savc}}
                        break
                if viol:
                    break
            if viol:
                break
        ob["queries"] += it.queries
        ob["solver_s"] = round(time.time() - t0, 1)
        ob["sample"] = {"paths_explored": npaths, "pointer_positions_inside_a_file": inside, "opaque_symbols": sorted(it.opaque_seen)[:12]}
        if viol:
            ob.update({"verdict": "violation", "message": viol["message"], "tags": viol["tags"], "counterexample": viol["model"]})
        elif inside == 0:
            ob.update({"verdict": "inconclusive", "message": "reachability witness never reached: a pointer that falls inside a file"})
        else:
            ob.update({"verdict": "discharged", "distinct": npaths})
    except rsparse.Unsupported as e:
        ob.update({"verdict": "inconclusive", "message": "encoder met source it cannot encode: %s" % e})
    return ob


def run_install_none(tier, seed):
    """C08 / C03 at the catalogue level: a snapshot installation whose delete_through is None (the follower's own log ends at or below the
    snapshot; async-raft: "all entries of the log are to be deleted"). FileStore::finalize_snapshot_installation is evaluated from source with
    the log manager's address dispatching into the real Handler<RaftLogManagerRequest> (SplitOff, InstallSnapshotPointerLog -> split_off,
    save_new_snapshot_pointer, write, switch_new_log from source); snapshot / apply / index managers are recording sinks. Oracle after the
    installation, for every catalogue shape and every snapshot index: every old file has left the catalogue (and its actor was told to close),
    the catalogue is exactly one open file that starts at the snapshot index, that file is the append target (current_log_actor) and got the
    pointer record, and the catalogue saved to the index file equals the one in memory."""
    t0 = time.time()
    ob = {"engine": "smt", "harness": "s08_8_installation_empties_the_log", "encodes_files": FILES + ["src/raft/filestore/core.rs"], "queries": 0, "solver_s": 0.0, "distinct": 0,
          "encodes": ["FileStore::finalize_snapshot_installation", "Handler<RaftLogManagerRequest>::handle (SplitOff, InstallSnapshotPointerLog)",
                      "RaftLogManager::{split_off,save_new_snapshot_pointer,write,switch_new_log}", "LogRangeWrap::get_log_range_end_index"],
          "bound": "catalogues: %s; every snapshot index 1..=%d (symbolic), delete_through = None" % ("; ".join(CATALOGUES), MAX_CUT + 7)}
    try:
        prog = load_program(FILES + ["src/raft/filestore/core.rs"])
        it = rseval.Interp(prog)
        it.lenient = True
        saved = []
        sinks = []

        class IndexAddr:
            ty = "IndexAddr"

        class Sink:
            def __init__(self, name):
                self.ty = "SinkAddr"
                self.name = name
        it.models[("IndexAddr", "do_send")] = lambda interp, recv, args: saved.append(args[0]) or ()
        it.models[("SinkAddr", "send")] = lambda interp, recv, args: sinks.append((recv.name, args[0])) or Ok(Ok(Uninterp("answer_of_" + recv.name, [])))
        it.models[("LogActorAddr", "do_send")] = lambda interp, recv, args: recv.sent.append(args[0]) or ()
        it.models[("LogActorAddr", "send")] = lambda interp, recv, args: recv.sent.append(args[0]) or Ok(Ok(Enum("RaftLogResponse", "WriteResult", [Enum("LogWriteResult", "Success", [])])))
        created = []

        def create(interp, args):
            a = Actor("new-file-%s" % (args[1]["id"] if isinstance(args[1], Struct) else "?"))
            created.append(a)
            return a
        it.fn_models["Self::create_log_actor"] = create
        it.fn_models["create_log_actor"] = create
        it.fn_models["std::fs::remove_file"] = lambda interp, args: Ok(())
        it.fn_models["fs::remove_file"] = it.fn_models["std::fs::remove_file"]
        it.fn_models["Self::get_log_path"] = lambda interp, args: "p/log_%s" % (args[1]["id"] if isinstance(args[1], Struct) else "?")
        it.fn_models["get_log_path"] = it.fn_models["Self::get_log_path"]
        it.fn_models["Entry::new_snapshot_pointer"] = lambda interp, args: Struct("Entry", {"index": args[0], "term": args[1]})
        it.fn_models["StoreUtils::entry_to_record"] = lambda interp, args: Ok(Struct("LogRecordDto", {"index": args[0]["index"], "term": args[0]["term"], "tree": "", "value": []}))
        handle = prog.trait_method("RaftLogManager", "handle", "RaftLogManagerRequest")
        fin = prog.trait_method("FileStore", "finalize_snapshot_installation", "RaftStorage")
        if handle is None or fin is None:
            raise rsparse.Unsupported("Handler<RaftLogManagerRequest> / FileStore::finalize_snapshot_installation not found")
        mgr_box = [None]

        class LogMgrAddr:
            ty = "LogMgrAddr"

        def mgr_send(interp, recv, args):
            r = interp._invoke(handle, [mgr_box[0], args[0], "ctx"], self_ty="RaftLogManager")
            return Ok(r)
        it.models[("LogMgrAddr", "send")] = mgr_send
        it.models[("FileStore", "get_membership_config")] = lambda interp, recv, args: Ok(Uninterp("membership", []))
        idx = z3.BitVec("snapshot_index", 64)
        top = MAX_CUT + 7
        viol = None
        npaths = 0
        removed_open = 0
        for cname, files in CATALOGUES.items():
            def thunk(files=files):
                del saved[:], sinks[:], created[:]
                logs = []
                for fid, start, count in files:
                    rng = Struct("LogRange", {"id": fid + 3, "pre_term": 0, "start_index": start, "record_count": count if count is not None else 0,
                                              "split_off_index": start, "is_close": count is not None, "mark_remove": False})
                    logs.append(Struct("LogRangeWrap", {"log_range": rng, "log_actor": Some(Actor("file-%d" % (fid + 3)))}))
                mgr = Struct("RaftLogManager", {"logs": logs, "current_log_actor": logs[-1]["log_actor"], "base_path": "p", "index_info": NONE, "last_applied_log": 0,
                                                "index_manager": Some(IndexAddr()), "pre_ready_snapshot_pointer": NONE, "last_ready_snapshot_pointer": NONE, "is_init": True})
                mgr_box[0] = mgr
                old = [w["log_actor"].payload[0] for w in logs]
                store = Struct("FileStore", {"snapshot_manager": Sink("snapshot"), "apply_manager": Sink("apply"), "log_manager": LogMgrAddr(), "index_manager": Sink("index"), "id": 1})
                r = it._invoke(fin, [store, idx, 2, NONE, "7", "snapshot-file"], self_ty="FileStore")
                mem = [(w["log_range"]["id"], w["log_range"]["start_index"], w["log_range"]["split_off_index"], w["log_range"]["record_count"], w["log_range"]["is_close"]) for w in mgr["logs"]]
                last_saved = None
                for m in saved:
                    k, payload = (m.variant, m.payload) if isinstance(m, Enum) else ((m.name.split("::")[-1], m.args) if isinstance(m, Uninterp) else (str(m), None))
                    if k == "SaveLogs":
                        lst = payload[0] if isinstance(payload, (list, tuple)) and len(payload) == 1 and isinstance(payload[0], list) else payload
                        last_saved = [(x["id"], x["start_index"], x["split_off_index"], x["record_count"], x["is_close"]) for x in lst]
                cur = mgr["current_log_actor"]
                cur_a = cur.payload[0] if isinstance(cur, Enum) and cur.variant == "Some" else None
                only = mgr["logs"][0]["log_actor"].payload[0] if len(mgr["logs"]) == 1 and isinstance(mgr["logs"][0]["log_actor"], Enum) and mgr["logs"][0]["log_actor"].variant == "Some" else None
                return (r, mem, last_saved, [[getattr(m, "variant", str(m)) for m in a.sent] for a in old], cur_a, only,
                        [[(m.variant, m.payload) if isinstance(m, Enum) else (str(m), None) for m in a.sent] for a in created], [a.name for a in created])
            rng_c = [z3.UGE(idx, 1), z3.ULE(idx, top)]
            it.solver.push()
            it.solver.add(*rng_c)
            paths = it.explore(thunk)
            it.solver.pop()
            npaths += len(paths)
            s = z3.Solver()
            s.add(*rng_c)
            for pc, r, exc in paths:
                if exc is not None:
                    viol = {"message": "panic in the snapshot installation: %s" % exc, "tags": ["panic"], "model": {"catalogue": cname}}
                    break
                res, mem, last_saved, old_sent, cur_a, only, new_sent, new_names = r
                s.push()
                s.add(*pc)
                ob["queries"] += 1
                if s.check() != z3.sat:
                    s.pop()
                    continue
                m_ = s.model()
                s.pop()

                def val(x):
                    return m_.eval(rseval.to_bv(x), model_completion=True).as_long() if isinstance(x, z3.ExprRef) else x
                c = val(idx)
                memc = [tuple(val(x) if not isinstance(x, bool) else x for x in row) for row in mem]
                savc = [tuple(val(x) if not isinstance(x, bool) else x for x in row) for row in last_saved] if last_saved is not None else None
                msg = tag = None
                if not (isinstance(res, Enum) and res.variant == "Ok"):
                    msg, tag = "finalize_snapshot_installation does not answer Ok (%r)" % (res,), "installation-fails"
                elif not memc:
                    msg, tag = ("delete_through = None, snapshot index %d: every file left the catalogue and no new one was started - the pointer record went to the actor of a removed file "
                                "(the append target was not reset)" % c), "append-target-stale"
                elif len(memc) != 1 or memc[0][1] != c or memc[0][4]:
                    msg, tag = ("delete_through = None, snapshot index %d: the catalogue afterwards is %s (id, first index, split-off, entries, closed) - it must be one open file that starts at the "
                                "snapshot index: an old file that stays is the append target and refuses the entry behind the snapshot" % (c, memc)), "log-not-emptied"
                elif cur_a is None or cur_a is not only:
                    msg, tag = "snapshot index %d: the new log file is in the catalogue but the append target is %s" % (c, "none" if cur_a is None else "the actor of a removed file (%s)" % cur_a.name), "append-target-stale"
                elif savc != memc:
                    msg, tag = "snapshot index %d: the catalogue saved to the index file %s differs from the one in memory %s" % (c, savc, memc), "saved-catalogue-differs"
                elif not any(k == "Write" for sent in new_sent for k, _p in sent):
                    msg, tag = "snapshot index %d: the snapshot pointer record is not written to the new log file" % c, "pointer-not-written"
                elif any("Close" not in sent for sent in old_sent):
                    msg, tag = "snapshot index %d: an old log file is removed from the catalogue but its actor is not told to close" % c, "old-actor-not-closed"
                else:
                    # the checks above were made on one model of the path; the index-dependent ones once more for EVERY snapshot index of the path
                    diffs = [rseval.to_bv(mem[0][1]) != idx]
                    if last_saved is not None and len(last_saved) == len(mem):
                        for a_, b_ in zip(last_saved, mem):
                            diffs += [rseval.to_bv(x_) != rseval.to_bv(y_) for x_, y_ in zip(a_[:4], b_[:4])]
                    s.push()
                    s.add(*pc)
                    s.add(z3.Or(diffs))
                    ob["queries"] += 1
                    if s.check() == z3.sat:
                        c = s.model().eval(idx, model_completion=True).as_long()
                        msg, tag = "snapshot index %d: the new log file does not start at the snapshot index, or the saved catalogue differs from the one in memory" % c, "log-not-emptied"
                    s.pop()
                    if not msg:
                        removed_open += 1
                if msg:
                    viol = {"message": "%s [catalogue before: %s]" % (msg, cname), "tags": [tag], "model": {"catalogue": cname, "files": [(f + 3, a, b) for f, a, b in files], "snapshot_index": c, "memory": memc, "saved": savc}}
                    break
            if viol:
                break
        ob["queries"] += it.queries
        ob["solver_s"] = round(time.time() - t0, 1)
        ob["sample"] = {"paths_explored": npaths, "installations_that_start_a_new_file": removed_open, "opaque_symbols": sorted(it.opaque_seen)[:12]}
        if viol:
            ob.update({"verdict": "violation", "message": viol["message"], "tags": viol["tags"], "counterexample": viol["model"]})
        elif removed_open == 0:
            ob.update({"verdict": "inconclusive", "message": "reachability witness never reached: an installation that ends with a new log file"})
        else:
            ob.update({"verdict": "discharged", "distinct": npaths})
    except rsparse.Unsupported as e:
        ob.update({"verdict": "inconclusive", "message": "encoder met source it cannot encode: %s" % e})
    return ob
