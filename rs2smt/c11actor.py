"""C11 / C12 at the level of the NamingActor (src/naming/core.rs): the per-connection reverse map `client_instance_set` always
matches the stored instances, and a connection close removes exactly the instances that connection owns.

Symbolic evaluation of the real source of NamingActor::{update_instance, remove_instance, remove_client_instance,
remove_client_instance_key, create_empty_service, get_service, do_notify, notify_to_subscriber} (src/naming/core.rs),
Service::{update_instance, remove_instance, get_instance, exist_priority_metadata} (service.rs), Instance / InstanceKey /
ServiceKey helpers (model.rs), NamespaceIndex / ServiceIndex::insert_service (service_index.rs), TimeoutSet (dependency).

Scenario: every history of N operations on one service with two addresses over
  G(c, p): gRPC registration of address p by connection c in {c1, c2} (from_grpc, client id = c), ephemeral flag symbolic
  H(p):    HTTP / console registration of address p (no client id), ephemeral flag symbolic, update tag absent or all-false
  R(p, x): deregistration of p carrying client id x in {none, c1, c2}
  D(c):    connection c closes (NamingCmd::RemoveClient -> remove_client_instance)
Oracles after every operation:
  (a) every (connection, key) in client_instance_set names a stored instance whose client id is that connection
  (b) every stored instance with a non-empty client id is listed under that connection
  (c) D(c) removes every instance owned by c and nothing else; (d) the Service-level counters stay exact
"""
import os
import time

import z3

from . import rseval, rsparse
from .c11 import load as load_service, pick, new_service
from .common import REPO, concretize
from .rseval import Struct, Enum, NONE, Some, Uninterp

FILES = ["src/naming/core.rs", "src/naming/service.rs", "src/naming/model.rs", "src/naming/service_index.rs"]


class Sink:
    def __init__(self, name):
        self.ty = "Sink"
        self.name = name
        self.notified = []


def load():
    prog = load_service()
    for f in ("src/naming/core.rs", "src/naming/service_index.rs"):
        prog.add_items(rsparse.parse_file(os.path.join(REPO, f)), f)
    return prog


SKEY = Struct("ServiceKey", {"namespace_id": "public", "group_name": "g", "service_name": "svc"})


def make_interp(prog):
    it = rseval.Interp(prog)
    it.lenient = True
    it.fn_models["now_millis"] = lambda interp, args: 1000
    it.fn_models["now_millis_i64"] = lambda interp, args: 1000
    it.fn_models["get_hash_value"] = lambda interp, args: 7
    it.fn_models["HashSet::new"] = lambda interp, args: []
    it.fn_models["BTreeSet::new"] = lambda interp, args: []
    it.fn_models["HashMap::new"] = lambda interp, args: {}
    it.fn_models["BTreeMap::new"] = lambda interp, args: {}
    it.fn_models["LinkedList::new"] = lambda interp, args: []
    it.fn_models["Local::now"] = lambda interp, args: Struct("DateTime", {})
    it.models[("DateTime", "timestamp_millis")] = lambda interp, recv, args: 1000
    it.fn_models["NamingUtils::get_group_and_service_name"] = lambda interp, args: "%s@@%s" % (args[1], args[0])
    it.models[("Sink", "notify")] = lambda interp, recv, args: recv.notified.append(args[0]) or ()
    return it


def new_actor(it):
    def tset():
        return Struct("TimeoutSet", {"time_list": {}})
    return Struct("NamingActor", {
        "service_map": {}, "last_id": 0, "listener_addr": NONE, "delay_notify_addr": NONE, "subscriber": Sink("subscriber"),
        "sys_config": Struct("NamingSysConfig", {"once_time_check_size": 10000, "service_time_out_millis": 30000, "instance_metadata_time_out_millis": 60000,
                                                  "instance_health_timeout_millis": 15000, "instance_timeout_millis": 30000, "perpetual_instance_probe_interval": 5}),
        "empty_service_set": tset(), "instance_metadate_set": tset(), "namespace_index": it.default_of_type("NamespaceIndex"),
        "client_instance_set": {}, "cluster_node_manage": NONE, "cluster_delay_notify": NONE, "namespace_actor": NONE, "current_range": NONE,
        "node_id": 1, "disable_notify": False, "net_sniffing_addr": NONE, "last_perpetual_instance_probe_time": 0, "raft_router": NONE, "meta_manager_addr": NONE,
    })


def skey(port):
    return Struct("InstanceShortKey", {"ip": "1.1.1.1", "port": port})


def ikey(port):
    return Struct("InstanceKey", {"namespace_id": "public", "group_name": "g", "service_name": "svc", "ip": "1.1.1.1", "port": port})


def scenario(prog, nops, stats):
    it = make_interp(prog)
    opv = [z3.BitVec("op%d" % i, 8) for i in range(nops)]
    portv = [z3.BitVec("port%d" % i, 8) for i in range(nops)]
    cidv = [z3.BitVec("cid%d" % i, 8) for i in range(nops)]
    eph = [z3.Bool("s%d_ephemeral" % i) for i in range(nops)]
    tagv = [z3.Bool("s%d_has_empty_tag" % i) for i in range(nops)]
    covers = stats.setdefault("covers", {})
    ops_box = [[]]

    def cover(c):
        covers[c] = covers.get(c, 0) + 1

    def possible(cond):
        if isinstance(cond, bool):
            return cond
        cond = z3.simplify(cond)
        if z3.is_false(cond):
            return False
        if it._feasible(cond):
            it.pc.append(cond)
            return True
        return False

    def instances(actor):
        svc = actor["service_map"].get(SKEY)
        return dict(svc["instances"]) if svc is not None else {}

    def snapshot(actor):
        return {"instances": {str(k["port"]): {"client_id": v["client_id"], "ephemeral": v["ephemeral"], "from_grpc": v["from_grpc"]} for k, v in instances(actor).items()},
                "client_instance_set": {c: sorted(k["port"] for k in ks) for c, ks in actor["client_instance_set"].items() if ks}}

    def check_maps(actor, log):
        inst = instances(actor)
        for c, keys in actor["client_instance_set"].items():
            for k in keys:
                v = inst.get(skey(k["port"]))
                if v is None:
                    return ("violation", "the reverse map of connection %s lists address %s which is not registered" % (c, k["port"]), log, "reverse-map-stale")
                if v["client_id"] != c:
                    return ("violation", "the reverse map of connection %s lists address %s which is owned by '%s'" % (c, k["port"], v["client_id"]), log, "reverse-map-stale")
        for k, v in inst.items():
            c = v["client_id"]
            if c != "":
                ks = actor["client_instance_set"].get(c, [])
                if ikey(k["port"]) not in ks:
                    return ("violation", "address %s is owned by connection %s but missing from its reverse map (a connection close would leave it registered)" % (k["port"], c), log,
                            "reverse-map-missing")
        svc = actor["service_map"].get(SKEY)
        if svc is not None and svc["instance_size"] != len(inst):
            return ("violation", "instance count reported for the service differs from the number of instances it holds", log, "bookkeeping")
        return None

    def thunk():
        r = thunk_inner()
        return (r, list(ops_box[0]))

    def thunk_inner():
        actor = new_actor(it)
        rec = ops_box[0] = []
        log = []
        for i in range(nops):
            op = pick(it, opv[i], ["grpc_register", "http_register", "remove", "disconnect"])
            if op in ("grpc_register", "http_register"):
                port = pick(it, portv[i], [1, 2]) if i > 0 else 1
                c = pick(it, cidv[i], ["c1", "c2"]) if op == "grpc_register" else ""
                has_tag = it.branch(tagv[i]) if op == "http_register" else False
                ins = Struct("Instance", {
                    "id": "", "ip": "1.1.1.1", "port": port, "weight": 1.0, "enabled": True, "healthy": True, "ephemeral": eph[i], "cluster_name": "DEFAULT",
                    "service_name": "svc", "group_name": "g", "group_service": "g@@svc", "metadata": {}, "last_modified_millis": 0, "register_time": 0,
                    "namespace_id": "public", "app_name": "", "from_grpc": op == "grpc_register", "from_cluster": 0, "client_id": c})
                tag = Some(Struct("InstanceUpdateTag", {"weight": False, "metadata": False, "enabled": False, "ephemeral": False, "from_update": False})) if has_tag else NONE
                rec.append({"op": op, "port": port, "client_id": c, "ephemeral": eph[i], "empty_tag": has_tag})
                before = instances(actor)
                it.call_method("NamingActor", "update_instance", actor, [SKEY, ins, tag, False, NONE])
                log.append((op, port, c, "tag" if has_tag else ""))
                if skey(port) not in instances(actor):
                    return ("violation", "a registered instance is not stored", log, "register-lost")
                old = before.get(skey(port))
                if op == "http_register" and old is not None and old["from_grpc"] is True:
                    cover("HTTP registration over a gRPC-owned instance")
                if op == "grpc_register" and old is not None and old["client_id"] not in ("", c):
                    cover("gRPC registration over another connection's instance")
            elif op == "remove":
                port = pick(it, portv[i], [1, 2])
                x = pick(it, cidv[i], [None, "c1", "c2"])
                rec.append({"op": "remove", "port": port, "client_id": x})
                it.call_method("NamingActor", "remove_instance", actor, [SKEY, skey(port), Some(x) if x is not None else NONE])
                log.append(("remove", port, x))
            else:
                c = pick(it, cidv[i], ["c1", "c2"])
                before = instances(actor)
                rec.append({"op": "disconnect", "client_id": c})
                it.call_method("NamingActor", "remove_client_instance", actor, [c])
                log.append(("disconnect", c))
                after = instances(actor)
                for k, v in before.items():
                    if v["client_id"] == c:
                        if k in after:
                            return ("violation", "connection %s closed but its instance at address %s stays registered" % (c, k["port"]), log, "disconnect-leaves-own")
                        cover("disconnect removes an own instance")
                    elif k not in after:
                        return ("violation", "connection %s closed and the instance at address %s owned by '%s' was removed" % (c, k["port"], v["client_id"]), log, "disconnect-removes-foreign")
                    elif before[k]["client_id"] != "" or len(before) > 1:
                        cover("disconnect keeps a foreign instance")
            rec[-1]["model_state"] = snapshot(actor)
            bad = check_maps(actor, log)
            if bad:
                return bad
        return ("ok", None, log, None)
    paths = it.explore(thunk, max_paths=400000)
    stats["paths"] += len(paths)
    stats["queries"] += it.queries
    stats["opaque"] = sorted(it.opaque_seen)
    s = z3.Solver()
    ok_paths = []
    for pc, rr, exc in paths:
        if exc is not None:
            return {"message": "panic in the naming actor: %s" % exc, "tags": ["panic"], "model": {}}
        r, ops = rr
        if r[0] == "violation":
            s.push()
            s.add(*pc)
            if s.check() == z3.sat:
                m = s.model()
                s.pop()
                return {"message": r[1], "tags": [r[3]], "model": {"history": [list(map(str, e)) for e in r[2]]}, "ops": concretize(ops, m)}
            s.pop()
        else:
            ok_paths.append((pc, ops))
    import random
    rnd = random.Random(stats.get("seed", 0))
    hist = []
    for pc, ops in rnd.sample(ok_paths, min(stats.get("n_validate", 12), len(ok_paths))):
        s.push()
        s.add(*pc)
        if s.check() == z3.sat:
            hist.append({"ops": concretize(ops, s.model())})
        s.pop()
    stats["validate"] = hist
    return None


NEED = ["HTTP registration over a gRPC-owned instance", "gRPC registration over another connection's instance", "disconnect removes an own instance",
        "disconnect keeps a foreign instance"]


def obligation(tier, seed, name):
    n = 3 if tier == "quick" else 4
    ob = {"engine": "smt", "harness": name, "encodes_files": FILES,
          "encodes": ["NamingActor::{update_instance,remove_instance,remove_client_instance,remove_client_instance_key,create_empty_service,do_notify}",
                      "Service::{update_instance,remove_instance,get_instance,exist_priority_metadata}", "NamespaceIndex::insert_service", "TimeoutSet::add"],
          "bound": "every history of %d operations over {gRPC register by c1/c2, HTTP register (no tag / all-false tag), deregister with client id none/c1/c2, connection close c1/c2} "
                   "on one service with 2 addresses; ephemeral flags symbolic; no cluster range (single node)" % n,
          "queries": 0, "solver_s": 0.0, "distinct": 0}
    stats = {"paths": 0, "queries": 0, "seed": seed, "n_validate": 12 if tier == "quick" else 40}
    try:
        prog = load()
        ts = time.time()
        viol = scenario(prog, n, stats)
        ob["solver_s"] = round(time.time() - ts, 1)
        ob["queries"] = stats["queries"]
        cov = {c: stats.get("covers", {}).get(c, 0) for c in NEED}
        ob["sample"] = {"paths_explored": stats["paths"], "opaque_symbols": stats.get("opaque", [])[:20], "covers": cov}
        ob["_validate"] = stats.get("validate", [])
        missing = [c for c, k in cov.items() if k == 0]
        if viol is not None:
            ob.update({"verdict": "violation", "message": viol["message"], "tags": viol["tags"], "counterexample": viol["model"], "_ops": viol.get("ops")})
        elif missing:
            ob.update({"verdict": "inconclusive", "message": "reachability witness never reached: %s" % missing})
        else:
            ob.update({"verdict": "discharged", "distinct": stats["paths"]})
    except rsparse.Unsupported as e:
        ob.update({"verdict": "inconclusive", "message": "encoder met source it cannot encode: %s" % e})
    return ob


if __name__ == "__main__":
    import sys
    ob = obligation(sys.argv[1] if len(sys.argv) > 1 else "quick", 0, "s11_2_actor_reverse_map")
    ob.pop("_validate", None)
    print(ob["harness"], ob.get("verdict"), str(ob.get("message", ""))[:600], str(ob.get("counterexample"))[:900], ob.get("queries"), ob.get("solver_s"), str(ob.get("sample"))[:600])
