"""C19 — several nodes draw ids from one named sequence through their SequenceManager (src/sequence/mod.rs): ids are never
issued twice, and a node never hands out an id below one it handed out before.

From source: Handler<SequenceRequest>::handle (GetNextId, FillRange, GetDirectRange), SequenceManager::{do_next_id,
async_handle, get_next_range, handle_result} (mod.rs), SeqGroup / SeqRange (model.rs), and - as the replicated table behind
raft_router.request - Handler<SequenceRaftReq>::handle / SequenceDbManager::{next_id, next_range} (core.rs).

The handler is a ResponseActFuture: its synchronous prologue runs when the message is taken from the mailbox, the raft request
and handle_result run later, other messages in between. Modelled exactly so: `Self::async_handle(..)` yields a deferred
future that remembers the middle state, `.into_actor(self).map(closure)` attaches the continuation; a scheduler step "complete"
evaluates the real async_handle (the range is allocated from the table at that moment) and then the continuation
(handle_result), whose ctx.address().do_send(FillRange) lands in the node's mailbox and is delivered by a later step.
Assumption (same as K19.1): a node's outstanding fetches complete in the order they were issued; across nodes any order.

Scenario: two nodes A and B, one key, range step 2 (caches run dry quickly); every schedule of N steps over
  A.get / B.get          a client asks the node for the next id (prologue)
  A.run / B.run          the node's oldest deferred future completes
  A.mail / B.mail        the node takes its oldest self-sent message (FillRange) from the mailbox (prologue)
Oracle over the ids answered to clients: pairwise distinct over both nodes; on one node a request made after an earlier request
had been answered gets a larger id (overlapping requests have no order).
"""
import time

import z3

from . import rseval, rsparse
from .c11 import pick
from .common import load_program
from .rseval import Struct, Enum, NONE, Some, Ok, Err, Uninterp

FILES = ["src/sequence/mod.rs", "src/sequence/model.rs", "src/sequence/core.rs"]
KEY = "seq-k"
DRAIN = 8   # sequential requests per node in the drain closure


class Deferred:
    def __init__(self, args):
        self.ty = "Deferred"
        self.args = args      # (middle_state, raft_router, step)
        self.cont = None
        self.act = None


class Router:
    def __init__(self, table):
        self.ty = "RaftRoute"
        self.table = table


class Ctx:
    def __init__(self, mailbox):
        self.ty = "ActorCtx"
        self.mailbox = mailbox


class Addr:
    def __init__(self, mailbox):
        self.ty = "SelfAddr"
        self.mailbox = mailbox


def run(tier, seed):
    t0 = time.time()
    n = 7 if tier == "quick" else 9
    ob = {"engine": "smt", "harness": "s19_7_sequence_manager", "encodes_files": FILES, "queries": 0, "solver_s": 0.0, "distinct": 0,
          "encodes": ["Handler<SequenceRequest>::handle", "SequenceManager::{do_next_id,async_handle,get_next_range,handle_result}", "SeqGroup::{next_id,apply_range,need_apply,mark_apply,clear_apply_mark}", "SeqRange",
                      "Handler<SequenceRaftReq>::handle", "SequenceDbManager::{next_id,next_range}"],
          "bound": "two nodes, one key, range step 2; every schedule of %d steps over {client request at A / B, completion of A's / B's oldest outstanding fetch, delivery of A's / B's oldest self-sent FillRange}" % n}
    try:
        prog = load_program(FILES)
        it = rseval.Interp(prog)
        it.lenient = True
        it.fn_models["HashMap::new"] = lambda interp, args: {}
        handle = prog.trait_method("SequenceManager", "handle", "SequenceRequest")
        table_h = prog.trait_method("SequenceDbManager", "handle", "SequenceRaftReq")
        async_handle = prog.methods.get(("SequenceManager", "async_handle"))
        if handle is None or table_h is None or async_handle is None:
            raise rsparse.Unsupported("SequenceManager / SequenceDbManager handlers not found")
        # the deferred future
        it.fn_models["Self::async_handle"] = lambda interp, args: Deferred(list(args))
        it.fn_models["SequenceManager::async_handle"] = lambda interp, args: Deferred(list(args))

        def into_actor(interp, recv, args):
            recv.act = args[0]
            return recv
        it.models[("Deferred", "into_actor")] = into_actor

        def fut_map(interp, recv, args):
            recv.cont = args[0]
            return recv
        it.models[("Deferred", "map")] = fut_map
        it.fn_models["Box::pin"] = lambda interp, args: args[0]

        def route_request(interp, recv, args):
            req = args[0]
            inner = None
            if isinstance(req, Struct) and "req" in req:
                inner = req["req"]   # ClientRequest::SequenceReq { req } (the enum itself is not loaded: a struct literal by its last path segment)
            elif isinstance(req, Enum):
                pl = req.payload
                inner = pl["req"] if isinstance(pl, (dict, Struct)) and "req" in pl else (pl[0] if isinstance(pl, (list, tuple)) and pl else None)
            elif isinstance(req, Uninterp) and req.args:
                a0 = req.args[0]
                inner = a0["req"] if isinstance(a0, (dict, Struct)) and "req" in a0 else a0
            if not isinstance(inner, Enum):
                raise rsparse.Unsupported("ClientRequest::SequenceReq without a SequenceRaftReq inside: %r" % (req,))
            r = interp._invoke(table_h, [recv.table, inner, "ctx"], self_ty="SequenceDbManager")
            if isinstance(r, Enum) and r.variant == "Ok":
                return Ok(Enum("ClientResponse", "SequenceResp", {"resp": r.payload[0]}))
            return Err(Uninterp("table-error", []))
        it.models[("RaftRoute", "request")] = route_request
        it.models[("ActorCtx", "address")] = lambda interp, recv, args: Addr(recv.mailbox)
        it.models[("SelfAddr", "do_send")] = lambda interp, recv, args: recv.mailbox.append(args[0]) or ()
        opv = [z3.BitVec("step%d" % i, 8) for i in range(n)]
        covers = {"both nodes draw from the key": 0, "a background FillRange completes": 0, "a node runs dry and fetches in the foreground": 0, "two fetches of one node are outstanding": 0}
        sched_box = [[]]

        def thunk():
            table = Struct("SequenceDbManager", {"seq_map": {}, "init": False})
            router = Router(table)
            nodes = {}
            for nm in ("A", "B"):
                nodes[nm] = {"mgr": Struct("SequenceManager", {"seq_map": {}, "raft_router": Some(router), "seq_step": 2}), "pending": [], "mailbox": [], "answers": []}
            sched = sched_box[0] = []
            all_ids = []

            def start(nm, msg, client):
                nd = nodes[nm]
                d = it._invoke(handle, [nd["mgr"], msg, Ctx(nd["mailbox"])], self_ty="SequenceManager")
                if not isinstance(d, Deferred):
                    raise rsparse.Unsupported("Handler<SequenceRequest>::handle does not return the deferred future")
                nd["pending"].append((d, (len(sched) if client else None)))
                if len(nd["pending"]) >= 2 and sum(1 for x, _ in nd["pending"] if True) >= 2:
                    covers["two fetches of one node are outstanding"] += 1

            def complete(nm):
                nd = nodes[nm]
                d, client = nd["pending"].pop(0)
                before = it._invoke(async_handle, d.args, self_ty="SequenceManager")
                ms = d.args[0]
                res = it.call_value(d.cont, [before, nd["mgr"], Ctx(nd["mailbox"])])
                if isinstance(ms, Enum) and ms.variant == "FillRange":
                    covers["a background FillRange completes"] += 1
                if isinstance(ms, Enum) and ms.variant == "NextId" and isinstance(ms.payload[1], Enum) and ms.payload[1].variant == "None":
                    covers["a node runs dry and fetches in the foreground"] += 1
                if client is not None:
                    if isinstance(res, Enum) and res.variant == "Ok" and isinstance(res.payload[0], Enum) and res.payload[0].variant == "NextId":
                        return (client, res.payload[0].payload[0])
                    return "no-id"
                return None

            def record(nm, got, op):
                """an answered client request: returns a violation tuple or None"""
                nd = nodes[nm]
                if got == "no-id":
                    # SequenceResult::None for a client: the request failed, no id was issued (allowed; the client retries)
                    sched.append(op + " -> none")
                    return None
                if got is None:
                    sched.append(op)
                    return None
                issued_at, got = got
                sched.append("%s -> %s (asked at step %d)" % (op, got, issued_at + 1))
                if not isinstance(got, int):
                    raise rsparse.Unsupported("symbolic id in a concrete scenario: %r (%s)" % (got, sorted(it.opaque_seen)))
                if got in all_ids:
                    return ("violation", "id %d is handed out twice (schedule: %s)" % (got, ", ".join(sched)), "id-issued-twice")
                # never backwards: a request that was made after an earlier one had been answered gets a larger id (overlapping requests have no order)
                for (i0, c0, id0) in nd["answers"]:
                    if c0 < issued_at and got <= id0:
                        return ("violation", "node %s answers a request made at step %d with id %d although it had answered id %d at step %d before: ids go backwards (schedule: %s)"
                                % (nm, issued_at + 1, got, id0, c0 + 1, ", ".join(sched)), "id-backwards")
                all_ids.append(got)
                nd["answers"].append((issued_at, len(sched) - 1, got))
                return None
            for i in range(n):
                op = pick(it, opv[i], ["A.get", "B.get", "A.run", "B.run", "A.mail", "B.mail"])
                nm, what = op.split(".")
                nd = nodes[nm]
                if what == "get":
                    start(nm, Enum("SequenceRequest", "GetNextId", [KEY]), True)
                elif what == "run":
                    if not nd["pending"]:
                        raise rseval.PathAbort()
                    bad = record(nm, complete(nm), op)
                    if bad:
                        return bad
                    continue
                else:
                    if not nd["mailbox"]:
                        raise rseval.PathAbort()
                    start(nm, nd["mailbox"].pop(0), False)
                sched.append(op)
            if nodes["A"]["answers"] and nodes["B"]["answers"]:
                covers["both nodes draw from the key"] += 1
            # drain closure: whatever is outstanding completes, then each node serves DRAIN more requests one after the other (ranges that the
            # schedule left in the buffers in a wrong order are consumed here: a fall-back to an older range shows whatever the length of the schedule)
            for nm in ("A", "B"):
                nd = nodes[nm]
                for k in range(DRAIN + 8):
                    while nd["pending"] or nd["mailbox"]:
                        if nd["pending"]:
                            bad = record(nm, complete(nm), "%s.run" % nm)
                            if bad:
                                return (bad[0], bad[1] + " [drain behind the schedule]", bad[2])
                        else:
                            start(nm, nd["mailbox"].pop(0), False)
                    if k >= DRAIN:
                        break
                    start(nm, Enum("SequenceRequest", "GetNextId", [KEY]), True)
                    sched.append("%s.get" % nm)
            return ("ok", None, None)
        paths = it.explore(lambda: thunk() + (list(sched_box[0]),), max_paths=2000000, stop=lambda r: r[0] == "violation")
        viol = None
        for pc, r, exc in paths:
            if exc is not None:
                viol = {"message": "panic in the sequence manager: %s" % exc, "tags": ["panic"], "model": {}}
                break
            if r[0] == "violation":
                viol = {"message": r[1], "tags": [r[2]], "model": {"schedule": r[3]}}
                break
        ob["queries"] = it.queries
        ob["solver_s"] = round(time.time() - t0, 1)
        ob["sample"] = {"paths_explored": len(paths), "covers": covers, "opaque_symbols": sorted(it.opaque_seen)[:20]}
        missing = [c for c, k in covers.items() if k == 0]
        if viol:
            ob.update({"verdict": "violation", "message": viol["message"], "tags": viol["tags"], "counterexample": viol["model"]})
        elif missing:
            ob.update({"verdict": "inconclusive", "message": "reachability witness never reached: %s" % missing})
        else:
            ob.update({"verdict": "discharged", "distinct": len(paths)})
    except rsparse.Unsupported as e:
        ob.update({"verdict": "inconclusive", "message": "encoder met source it cannot encode: %s" % e})
    return ob


if __name__ == "__main__":
    import sys
    ob = run(sys.argv[1] if len(sys.argv) > 1 else "quick", 0)
    print(ob["harness"], ob.get("verdict"), str(ob.get("message", ""))[:900], str(ob.get("counterexample"))[:900], ob.get("queries"), ob.get("solver_s"), str(ob.get("sample"))[:800])
