"""C14 — what a node does with its owner range: the services that fall into the range are taken over - their instances that
another node supervised so far become this node's (no other node supervises them any more: routing sends every write here) -
and nothing else is touched.

From source: NamingActor::{refresh_process_range, update_instance, create_empty_service} (src/naming/core.rs),
ProcessRange::is_range (cluster/model.rs), Service::{do_refresh_process_range, update_instance} (service.rs), TimeoutSet
(inner-mem-cache, from the dependency's source). get_hash_value is a table: the three services of the scenario hash to 0, 1, 2.

Scenario: three services, each with two ephemeral HTTP instances synced from node 2 (from_cluster = 2; one healthy, one already
marked unhealthy by its old owner - flags symbolic) and one gRPC instance synced from node 2; the node's range (index, len) is
symbolic with len in 1..=3, index < len; NamingCmd::ClusterRefreshProcessRange(range) arrives.
Oracle: the actor's range is the new one; for a service inside the range (hash % len == index, or len < 2) every HTTP instance
is local afterwards (from_cluster == 0) AND is under a timer of this node (its key is queued in the healthy or the unhealthy
time-out set - time_check, the only supervisor, works off these queues) whatever its health; a gRPC instance keeps its owner
(its connection); for a service outside the range nothing changes.
"""
import time

import z3

from . import rseval, rsparse
from .c11 import pick
from .c11actor import load as load_actor, make_interp, new_actor
from .rseval import Struct, Enum, NONE, Some, Ok, Uninterp

FILES = ["src/naming/core.rs", "src/naming/service.rs", "src/naming/model.rs", "src/naming/cluster/model.rs"]


def skey_of(i):
    return Struct("ServiceKey", {"namespace_id": "public", "group_name": "g", "service_name": "svc%d" % i})


def run(tier, seed):
    t0 = time.time()
    ob = {"engine": "smt", "harness": "s14_5_range_takeover", "encodes_files": FILES, "queries": 0, "solver_s": 0.0, "distinct": 0,
          "encodes": ["NamingActor::{refresh_process_range,update_instance,create_empty_service}", "ProcessRange::is_range", "Service::{do_refresh_process_range,update_instance}", "TimeoutSet::add"],
          "bound": "three services hashing to 0, 1, 2; per service two HTTP instances synced from node 2 (healthy flags symbolic) and one gRPC instance; every range (index < len, len in 1..=3)"}
    try:
        import os
        from .common import REPO
        prog = load_actor()
        prog.add_items(rsparse.parse_file(os.path.join(REPO, "src/naming/cluster/model.rs")), "src/naming/cluster/model.rs")
        it = make_interp(prog)
        hashes = {"svc0": 0, "svc1": 1, "svc2": 2}
        it.fn_models["get_hash_value"] = lambda interp, args: hashes[args[0]["service_name"]]
        lenv, idxv = z3.BitVec("range_len", 8), z3.BitVec("range_index", 8)
        hv = [[z3.Bool("svc%d_inst%d_healthy" % (i, j)) for j in range(2)] for i in range(3)]
        covers = {"a service enters the range": 0, "a service stays outside the range": 0, "an unhealthy instance is taken over": 0}

        def queued(svc, key):
            for ts in ("healthy_timeout_set", "unhealthy_timeout_set"):
                for _t, keys in svc[ts]["time_list"].items():
                    if any(k == key for k in keys):
                        return True
            return False

        def thunk():
            actor = new_actor(it)
            ln = pick(it, lenv, [1, 2, 3])
            ix = pick(it, idxv, list(range(ln)))
            flags = {}
            for i in range(3):
                for j in range(3):
                    grpc = j == 2
                    h = True if grpc else it.branch(hv[i][j])
                    flags[(i, j)] = h
                    ins = Struct("Instance", {
                        "id": "", "ip": "1.1.1.%d" % (j + 1), "port": 8000 + j, "weight": 1.0, "enabled": True, "healthy": h, "ephemeral": True, "cluster_name": "DEFAULT",
                        "service_name": "svc%d" % i, "group_name": "g", "group_service": "g@@svc%d" % i, "metadata": {}, "last_modified_millis": 1000, "register_time": 500,
                        "namespace_id": "public", "app_name": "", "from_grpc": grpc, "from_cluster": 2, "client_id": "2_conn" if grpc else ""})
                    it.call_method("NamingActor", "update_instance", actor, [skey_of(i), ins, NONE, True, NONE])
            before = {i: {k: dict(v) for k, v in actor["service_map"][skey_of(i)]["instances"].items()} for i in range(3)}
            rng = Struct("ProcessRange", {"index": ix, "len": ln})
            r = it.call_method("NamingActor", "refresh_process_range", actor, [rng])
            if not (isinstance(r, Enum) and r.variant == "Ok"):
                return ("violation", "refresh_process_range fails", "refresh-error", ln, ix)
            cur = actor["current_range"]
            if not (isinstance(cur, Enum) and cur.variant == "Some" and cur.payload[0]["index"] == ix and cur.payload[0]["len"] == ln):
                return ("violation", "the naming actor does not keep the range (%d of %d) it was told" % (ix, ln), "range-not-stored", ln, ix)
            for i in range(3):
                svc = actor["service_map"][skey_of(i)]
                inside = ln < 2 or (hashes["svc%d" % i] % ln) == ix
                covers["a service enters the range" if inside else "a service stays outside the range"] += 1
                for key, v in svc["instances"].items():
                    b = before[i][key]
                    grpc = v["from_grpc"] is True
                    if not inside or grpc:
                        if v["from_cluster"] != b["from_cluster"] or v["client_id"] != b["client_id"]:
                            return ("violation", "service svc%d (hash %d) is %s the range (%d of %d) but its %s instance %s changes owner" % (i, hashes["svc%d" % i], "inside" if inside else "outside", ix, ln,
                                                                                                                                      "gRPC" if grpc else "HTTP", key["port"]), "foreign-instance-touched", ln, ix)
                        continue
                    if v["from_cluster"] != 0:
                        return ("violation", "service svc%d falls into the range (%d of %d) but its HTTP instance %s still counts as owned by node %s" % (i, ix, ln, key["port"], v["from_cluster"]), "not-taken-over", ln, ix)
                    if not queued(svc, key):
                        return ("violation", "service svc%d falls into the range (%d of %d): its HTTP instance %s (%s at the take-over) is this node's now but under none of its timers - nobody supervises it any more"
                                % (i, ix, ln, key["port"], "healthy" if flags[(i, key["port"] - 8000)] else "already unhealthy"), "taken-over-unsupervised", ln, ix)
                    if not flags[(i, key["port"] - 8000)]:
                        covers["an unhealthy instance is taken over"] += 1
            return ("ok", None, None, ln, ix)
        paths = it.explore(thunk, max_paths=200000, stop=lambda r: r[0] == "violation")
        viol = None
        for pc, r, exc in paths:
            if exc is not None:
                viol = {"message": "panic in the take-over: %s" % exc, "tags": ["panic"], "model": {}}
                break
            if r[0] == "violation":
                viol = {"message": r[1], "tags": [r[2]], "model": {"range_len": r[3], "range_index": r[4]}}
                break
        ob["queries"] = it.queries
        ob["solver_s"] = round(time.time() - t0, 1)
        ob["sample"] = {"paths_explored": len(paths), "covers": covers, "opaque_symbols": sorted(it.opaque_seen)[:20]}
        missing = [c for c, k in covers.items() if k == 0]
        if viol:
            ob.update({"verdict": "violation", "message": viol["message"], "tags": viol["tags"], "counterexample": viol["model"]})
        elif missing:
            ob.update({"verdict": "inconclusive", "message": "reachability witness never reached: %s" % missing})
        else:
            ob.update({"verdict": "discharged", "distinct": len(paths)})
    except rsparse.Unsupported as e:
        ob.update({"verdict": "inconclusive", "message": "encoder met source it cannot encode: %s" % e})
    return ob


if __name__ == "__main__":
    ob = run("quick", 0)
    print(ob["harness"], ob.get("verdict"), str(ob.get("message", ""))[:900], str(ob.get("counterexample"))[:300], ob.get("queries"), ob.get("solver_s"), str(ob.get("sample"))[:600])
