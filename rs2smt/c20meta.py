"""C20 — the naming metadata files ("metadata files" of the property): records written by InstanceMetaRepository are read back
exactly, however the file falls into the reader's 1024-byte read chunks.

InstanceMetaRepository::{write_records_to_file, read_records_from_file, save_file_map, load_file_map}
(src/naming/instance_meta_repository.rs), InstanceMetaDto::to_proto, From<InstanceMetaDo> for InstanceMetaDoOwned, the generated
message code of InstanceMetaDo / InstanceFileDo (pb/service_meta.rs), MessageBufReader and the varint trio
(common/protobuf_utils.rs) evaluated from source over the file model of rs2smt/iomodel.py (read returns the bytes that exist, at
most the buffer's length; create truncates; rename replaces). The chunk size (1024) and the reader's buffer handling are the
source's own.

Scenario A (records file): 3 records whose metadata value lengths come from a symbolic choice among LENS (every combination):
files below one chunk, of exactly / not exactly a multiple of the chunk, records spanning two and three chunks; every 4th value
byte symbolic, the others concrete and position-dependent.
Scenario B (file map): 2..=4 services with file names of 32 / 500 / 700 bytes, so that the map spans chunks too.
Oracle: the reader returns exactly the written records, in order, with the same fields - none dropped, none added.
"""
import time

import z3

from . import rseval, rsparse, iomodel
from .c05 import make
from .c11 import pick
from .common import load_program
from .rseval import Struct, Enum, NONE, Some, Ok, Err, Uninterp

FILES = ["src/naming/instance_meta_repository.rs", "src/common/pb/service_meta.rs", "src/common/protobuf_utils.rs", "src/naming/model.rs"]
LENS = [3, 300, 700, 1100, 2100]


class Desync(Exception):
    pass


def install_file_fns(it, fs):
    def create(interp, args):
        name = args[0]
        fs.files[name] = []
        return iomodel.io_ok(iomodel.FileHandle(fs, name))

    def open_(interp, args):
        name = args[0]
        if name not in fs.files:
            return Err(Struct("IoError", {"kind": "NotFound"}))
        return iomodel.io_ok(iomodel.FileHandle(fs, name))

    def rename(interp, args):
        a, b = args
        if a not in fs.files:
            return Err(Struct("IoError", {"kind": "NotFound"}))
        fs.files[b] = fs.files.pop(a)
        return iomodel.io_ok(())
    it.fn_models["File::create"] = create
    it.fn_models["File::open"] = open_
    it.fn_models["fs::rename"] = rename
    it.fn_models["rename"] = rename
    it.models[("IoError", "kind")] = lambda interp, recv, args: recv["kind"]
    it.models[("InstanceMetaRepository", "build_file_path")] = lambda interp, recv, args: args[0]


def run(tier, seed):
    t0 = time.time()
    nrec = 3 if tier == "quick" else 4
    lens = LENS if tier != "quick" else [3, 300, 700]
    ob = {"engine": "smt", "harness": "s20_7_metadata_files", "encodes_files": FILES, "queries": 0, "solver_s": 0.0, "distinct": 0,
          "encodes": ["InstanceMetaRepository::{write_records_to_file,read_records_from_file,save_file_map,load_file_map}", "InstanceMetaDto::to_proto", "From<InstanceMetaDo> for InstanceMetaDoOwned",
                      "InstanceMetaDo / InstanceFileDo::{get_size,write_message,from_reader} (generated code)", "MessageBufReader::{new,append_next_buf,next_message_vec}", "read_varint64"],
          "bound": "records file: %d records, metadata value lengths from %s (every combination), every 4th value byte symbolic; file map: 2..=4 services, file names of 32 / 500 / 700 bytes; "
                   "the reader's own 1024-byte chunks" % (nrec, lens)}
    try:
        prog = load_program(FILES)
        it, fs = make(prog)
        it.resolve_into = True
        it.max_loop = 1 << 16
        install_file_fns(it, fs)
        it.fn_models["HashMap::new"] = lambda interp, args: {}
        it.fn_models["Vec::new"] = lambda interp, args: []
        it.fn_models["MessageBufReader::new"] = it.fn_models.get("MessageBufReader::new") or None
        if it.fn_models["MessageBufReader::new"] is None:
            del it.fn_models["MessageBufReader::new"]
        choice = [z3.BitVec("len_choice%d" % i, 8) for i in range(nrec)]
        symb = {}

        def value(i, n):
            out = []
            for j in range(n):
                if j % 4 == 1:
                    out.append(symb.setdefault((i, j), z3.BitVec("v%d_%d" % (i, j), 64)))
                else:
                    out.append((i * 37 + j * 11 + 5) % 95 + 32)
            return out
        from z3 import z3util
        orig_branch = it.branch

        def guarded_branch(cond):
            if isinstance(cond, z3.ExprRef) and any(str(v).startswith("v") and "_" in str(v) for v in z3util.get_vars(cond)):
                raise Desync()
            return orig_branch(cond)
        it.branch = guarded_branch
        skey = Struct("ServiceKey", {"namespace_id": "public", "group_name": "g", "service_name": "svc"})

        def repo():
            return Struct("InstanceMetaRepository", {"base_path": "base", "file_map": {}})

        def thunk():
            fs.files.clear()
            ls = [pick(it, choice[i], lens) for i in range(nrec)]
            recs = [Struct("InstanceMetaDto", {"service_key": skey, "instance_key": Struct("InstanceShortKey", {"ip": "1.1.1.%d" % (i + 1), "port": 8000 + i}), "metadata": {"k": value(i, n)}})
                    for i, n in enumerate(ls)]
            r = it.call_method("InstanceMetaRepository", "write_records_to_file", repo(), ["f1", recs])
            if not (isinstance(r, Enum) and r.variant == "Ok"):
                return ("write-failed", ls, recs, [], len(fs.files.get("f1", [])))
            size = len(fs.files.get("f1", []))
            try:
                r = it.call_method("InstanceMetaRepository", "read_records_from_file", repo(), ["f1"])
            except Desync:
                return ("desync", ls, recs, [], size)
            except rsparse.Unsupported as e:
                if "feasible values" not in str(e):
                    raise
                return ("desync", ls, recs, [], size)
            if not (isinstance(r, Enum) and r.variant == "Ok"):
                return ("read-failed", ls, recs, [], size)
            return ("ok", ls, recs, r.payload[0], size)
        paths = it.explore(thunk, max_paths=5000)
        s = z3.Solver()
        for b in symb.values():
            s.add(z3.ULT(b, 256))
        nq = 0
        viol = None
        covers = {"a file below one chunk": 0, "a file longer than one chunk whose size is not a multiple of the chunk": 0, "a record spanning a chunk boundary": 0}
        for pc, rr, exc in paths:
            if exc is not None:
                viol = {"message": "panic while a metadata file is written / read: %s" % exc, "tags": ["panic"], "model": {}}
                break
            kind, ls, written, got, size = rr
            if size < 1024:
                covers["a file below one chunk"] += 1
            if size > 1024 and size % 1024:
                covers["a file longer than one chunk whose size is not a multiple of the chunk"] += 1
            if size > 1024:
                covers["a record spanning a chunk boundary"] += 1
            msg = None
            if kind != "ok":
                msg = {"write-failed": "writing the file fails", "read-failed": "reading the file fails", "desync": "the reader takes value bytes for a length prefix / tag (it is out of step with the records)"}[kind]
            elif len(got) != len(written):
                msg = "%d records are read back, %d were written" % (len(got), len(written))
            if msg:
                viol = {"message": "metadata file of %d bytes (value lengths %s): %s" % (size, ls, msg), "tags": ["records-lost-or-added"], "model": {"value_lengths": ls, "file_size": size}}
                break
            for i, (a, b) in enumerate(zip(written, got)):
                md = b["metadata"]
                if isinstance(md, list):   # a collect() of (key, value) pairs whose target type the evaluator does not see
                    md = dict(md)
                bv = md.get("k") if isinstance(md, dict) else None
                av = a["metadata"]["k"]
                if isinstance(bv, str):
                    bv = list(bv.encode())
                if b["ip"] != a["instance_key"]["ip"] or b["port"] != a["instance_key"]["port"] or bv is None or len(bv) != len(av):
                    viol = {"message": "metadata file of %d bytes (value lengths %s): record %d is read back as another record (address %s:%s, value of %s bytes)"
                                       % (size, ls, i, b["ip"], b["port"], None if bv is None else len(bv)), "tags": ["record-changed"], "model": {"value_lengths": ls, "file_size": size, "record": i}}
                    break
                diffs = []
                for j, (x, y) in enumerate(zip(av, bv)):
                    if isinstance(x, int) and isinstance(y, int):
                        if x != y:
                            diffs.append((j, True))
                    elif x is not y:
                        diffs.append((j, rseval.to_bv(x) != rseval.to_bv(y)))
                nq += 1
                if diffs:
                    s.push()
                    s.add(*pc)
                    s.add(z3.Or(*[z3.BoolVal(True) if c is True else c for _j, c in diffs]))
                    if s.check() == z3.sat:
                        viol = {"message": "metadata file of %d bytes (value lengths %s): record %d is read back with other bytes than were written (first at offset %d of its value)" % (size, ls, i, diffs[0][0]),
                                "tags": ["record-changed"], "model": {"value_lengths": ls, "file_size": size, "record": i, "first_offset": diffs[0][0]}}
                    s.pop()
                if viol:
                    break
            if viol:
                break
        # ---- scenario B: the file map
        npaths_b = 0
        if not viol:
            nsv = z3.BitVec("services", 8)
            fl = [z3.BitVec("file_name_len%d" % i, 8) for i in range(4)]
            flens = [32, 500, 700]

            def thunk_b():
                fs.files.clear()
                nsvc = pick(it, nsv, [2, 3, 4])
                names = []
                rp = repo()
                for i in range(nsvc):
                    ln = pick(it, fl[i], flens)
                    nm = ("%d" % i) * ln
                    names.append(nm)
                    rp["file_map"][Struct("ServiceKey", {"namespace_id": "public", "group_name": "g", "service_name": "svc%d" % i})] = nm
                r = it.call_method("InstanceMetaRepository", "save_file_map", rp, [])
                if not (isinstance(r, Enum) and r.variant == "Ok"):
                    return ("write-failed", names, {}, 0)
                size = len(fs.files.get("file_map", []))
                fresh = repo()
                r = it.call_method("InstanceMetaRepository", "load_file_map", fresh, [])
                if not (isinstance(r, Enum) and r.variant == "Ok"):
                    return ("read-failed", names, {}, size)
                return ("ok", names, dict(fresh["file_map"]), size)
            pb = it.explore(thunk_b, max_paths=5000)
            npaths_b = len(pb)
            big = 0
            for pc, rr, exc in pb:
                if exc is not None:
                    viol = {"message": "panic while the metadata file map is written / read: %s" % exc, "tags": ["panic"], "model": {}}
                    break
                kind, names, got, size = rr
                if size > 1024 and size % 1024:
                    big += 1
                want = {"svc%d" % i: nm for i, nm in enumerate(names)}
                have = {k["service_name"]: v for k, v in got.items()}
                nq += 1
                if kind != "ok" or want != have:
                    viol = {"message": "file map of %d bytes (%d services, file-name lengths %s): %s" % (size, len(names), [len(x) for x in names],
                                       "cannot be written / read" if kind != "ok" else "%d entries are read back, %d were written%s" % (len(have), len(want), "" if len(have) != len(want) else " (with other file names)")),
                            "tags": ["records-lost-or-added"], "model": {"file_name_lengths": [len(x) for x in names], "file_size": size, "file": "file_map"}}
                    break
            if not viol and big == 0:
                covers["a file map longer than one chunk"] = 0
        ob["queries"] = nq + it.queries
        ob["solver_s"] = round(time.time() - t0, 1)
        ob["sample"] = {"paths_explored": len(paths) + npaths_b, "covers": covers, "opaque_symbols": sorted(it.opaque_seen)[:20]}
        missing = [c for c, k in covers.items() if k == 0]
        if viol:
            ob.update({"verdict": "violation", "message": viol["message"], "tags": viol["tags"], "counterexample": viol["model"]})
        elif missing:
            ob.update({"verdict": "inconclusive", "message": "reachability witness never reached: %s" % missing})
        else:
            ob.update({"verdict": "discharged", "distinct": nq})
    except rsparse.Unsupported as e:
        ob.update({"verdict": "inconclusive", "message": "encoder met source it cannot encode: %s" % e})
    return ob


if __name__ == "__main__":
    import sys
    ob = run(sys.argv[1] if len(sys.argv) > 1 else "quick", 0)
    print(ob["harness"], ob.get("verdict"), str(ob.get("message", ""))[:900], str(ob.get("counterexample"))[:900], ob.get("queries"), ob.get("solver_s"), str(ob.get("sample"))[:800])
