"""C01 — users survive a restart from the snapshot: the table component (src/raft/db/table.rs) behind the user manager.

Handler<TableManagerReq>::handle (Set, Remove, Drop), TableManager::{insert, remove, get, drop_table, build_snapshot,
query_page_list, query_list_count}, RaftDataHandler::load_snapshot (src/raft/filestore/raftdata.rs: the dispatch of a snapshot
record to its component by tree name) evaluated from source. The snapshot writer is a recording sink; the table address of the
data handler dispatches into the real Handler<TableManagerReq> of a fresh TableManager; every other component is a counting sink.

Scenario: every history of N committed table requests on the user table (T_USER) with two user names over
  set(user, value)   value an ARBITRARY string (the encoded user record), with or without an explicit sequence id
  remove(user)
  drop               the whole table
then the table is written to snapshot records and every record goes through load_snapshot into a fresh table manager.
Oracle: the restarted manager answers Get for both users exactly as the live one (same value / not found), lists the same
number of users, and no record of the user table is handed to another component or dropped by the dispatch.
"""
import copy
import time

import z3

from . import rseval, rsparse
from .c11 import pick
from .common import load_program
from .rseval import Struct, Enum, NONE, Some, Ok, Uninterp

FILES = ["src/raft/db/table.rs", "src/raft/filestore/raftdata.rs", "src/common/constant.rs", "src/common/sequence_utils.rs", "src/common/string_utils.rs"]
USERS = ["alice", "bob"]
T_USER = "T_USER"


class Writer:
    def __init__(self):
        self.ty = "WriterAddr"
        self.records = []


class TableAddr:
    def __init__(self, mgr):
        self.ty = "TableAddr"
        self.mgr = mgr


class Counting:
    def __init__(self, name, log):
        self.ty = "Counting"
        self.name = name
        self.log = log


def run(tier, seed):
    t0 = time.time()
    n = 3 if tier == "quick" else 4
    ob = {"engine": "smt", "harness": "s01_7_user_table_snapshot_roundtrip", "encodes_files": FILES, "queries": 0, "solver_s": 0.0, "distinct": 0,
          "encodes": ["Handler<TableManagerReq>::handle (Set, Remove, Drop)", "TableManager::{insert,remove,get,drop_table,build_snapshot,query_page_list,query_list_count}",
                      "RaftDataHandler::load_snapshot (dispatch by tree name)", "SimpleSequence::set_last_id"],
          "bound": "every history of %d committed requests (set with an arbitrary string value, remove, drop) on two users of the user table, then build_snapshot -> load_snapshot into a fresh table manager" % n}
    try:
        prog = load_program(FILES)
        it = rseval.Interp(prog)
        it.lenient = True
        it.fn_models["HashMap::new"] = lambda interp, args: {}
        it.fn_models["BTreeMap::new"] = lambda interp, args: {}
        it.fn_models["String::from_utf8_lossy"] = lambda interp, args: args[0]
        it.fn_models["String::from_utf8"] = lambda interp, args: Ok(args[0])
        it.models[(None, "as_bytes")] = lambda interp, recv, args: recv
        it.models[(None, "to_vec")] = lambda interp, recv, args: recv
        handle = prog.trait_method("TableManager", "handle", "TableManagerReq")
        load_snapshot = prog.methods.get(("RaftDataHandler", "load_snapshot"))
        if handle is None or load_snapshot is None:
            raise rsparse.Unsupported("Handler<TableManagerReq> for TableManager / RaftDataHandler::load_snapshot not found")
        # the constant as the program defines it (lazy_static): a renamed tree must still round-trip
        tname = it.eval_path_value("USER_TREE_NAME") if hasattr(it, "eval_path_value") else None

        def writer_do_send(interp, recv, args):
            msg = args[0]
            payload = msg.payload if isinstance(msg, Enum) else getattr(msg, "args", None)
            recv.records.append(payload[0] if isinstance(payload, (list, tuple)) else payload)
            return ()
        it.models[("WriterAddr", "do_send")] = writer_do_send

        def table_send(interp, recv, args):
            return Ok(interp._invoke(handle, [recv.mgr, args[0], "ctx"], self_ty="TableManager"))
        it.models[("TableAddr", "send")] = table_send
        it.models[("Counting", "send")] = lambda interp, recv, args: recv.log.append(recv.name) or Ok(Ok(()))
        it.models[("Counting", "do_send")] = lambda interp, recv, args: recv.log.append(recv.name) or ()
        opv = [z3.BitVec("op%d" % i, 8) for i in range(n)]
        uv = [z3.Bool("op%d_user_b" % i) for i in range(n)]
        val = [z3.String("value%d" % i) for i in range(n)]
        sq = [z3.Bool("op%d_has_seq_id" % i) for i in range(n)]
        covers = {"a user set twice comes back with the last value": 0, "a removed user stays removed": 0, "two users in the snapshot": 0}
        trace_box = [[]]

        def new_mgr():
            return Struct("TableManager", {"table_map": {}, "raft": NONE, "cache_manager": NONE, "direct_cache_manager": NONE})

        def get(mgr, user):
            r = it.call_method("TableManager", "get", mgr, [T_USER, user])
            return r

        def thunk():
            mgr = new_mgr()
            trace = trace_box[0] = []
            sets = {}
            removed = False
            for i in range(n):
                op = pick(it, opv[i], ["set", "remove", "drop"])
                if op == "drop":
                    it._invoke(handle, [mgr, Enum("TableManagerReq", "Drop", [T_USER]), "ctx"], self_ty="TableManager")
                    trace.append(("drop",))
                    sets.clear()
                    continue
                u = USERS[1] if it.branch(uv[i]) else USERS[0]
                if op == "set":
                    s_id = Some(100 + i) if it.branch(sq[i]) else NONE
                    it._invoke(handle, [mgr, Enum("TableManagerReq", "Set", {"table_name": T_USER, "key": u, "value": val[i], "last_seq_id": s_id}), "ctx"], self_ty="TableManager")
                    trace.append(("set", u, i))
                    sets[u] = sets.get(u, 0) + 1
                else:
                    it._invoke(handle, [mgr, Enum("TableManagerReq", "Remove", {"table_name": T_USER, "key": u}), "ctx"], self_ty="TableManager")
                    trace.append(("remove", u))
                    if sets.pop(u, 0):
                        removed = True
            before = [get(mgr, u) for u in USERS]
            cnt_before = it.call_method("TableManager", "query_list_count", mgr, [T_USER, NONE])
            w = Writer()
            r = it.call_method("TableManager", "build_snapshot", mgr, [w])
            if not (isinstance(r, Enum) and r.variant == "Ok"):
                return ("build-failed", None, None, 0, [], (0, 0), sets, removed, list(trace))
            fresh = new_mgr()
            others = []
            handler = Struct("RaftDataHandler", {"config": Counting("config", others), "table": TableAddr(fresh), "namespace": Counting("namespace", others), "sequence_db": Counting("sequence", others),
                                                 "mcp_manager": Counting("mcp", others), "naming_actor": Counting("naming", others), "direct_cache_manager": Counting("cache", others)})
            for rec in w.records:
                rr = it._invoke(load_snapshot, [handler, copy.deepcopy(rec)], self_ty="RaftDataHandler")
                if not (isinstance(rr, Enum) and rr.variant == "Ok"):
                    return ("load-failed", None, None, len(w.records), others, (0, 0), sets, removed, list(trace))
            after = [get(fresh, u) for u in USERS]
            cnt_after = it.call_method("TableManager", "query_list_count", fresh, [T_USER, NONE])
            return ("ok", before, after, len(w.records), list(others), (cnt_before, cnt_after), dict(sets), removed, list(trace))
        paths = it.explore(thunk, max_paths=200000)
        s = z3.Solver()
        nq = 0
        viol = None

        def model_trace(trace, m):
            out = []
            for ev in trace:
                if ev[0] == "set":
                    out.append({"op": "set", "user": ev[1], "value": m.eval(val[ev[2]], model_completion=True).as_string()})
                else:
                    out.append({"op": ev[0], "user": ev[1] if len(ev) > 1 else None})
            return out
        for pc, rr, exc in paths:
            if exc is not None:
                viol = {"message": "panic in the table component: %s" % exc, "tags": ["panic"], "model": {}}
                break
            status, before, after, nrec, others, cnt, sets, removed, trace = rr
            s.push()
            s.add(*pc)
            s.check()
            hist = model_trace(trace, s.model())
            s.pop()
            if status != "ok":
                viol = {"message": "the user table's snapshot cannot be %s" % ("built" if status == "build-failed" else "loaded"), "tags": ["snapshot-error"], "model": {"history": hist}}
                break
            if others:
                viol = {"message": "a snapshot record of the user table is handed to another component (%s) on load" % sorted(set(others)), "tags": ["record-misrouted"], "model": {"history": hist}}
                break
            for u, b, a in zip(USERS, before, after):
                fb = isinstance(b, Enum) and b.variant == "Some"
                fa = isinstance(a, Enum) and a.variant == "Some"
                if fb != fa:
                    viol = {"message": "user %s is %s before the stop and %s after a restart from the snapshot" % (u, "stored" if fb else "not found", "stored" if fa else "not found"),
                            "tags": ["user-lost" if fb else "user-resurrected"], "model": {}}
                    break
                if fb:
                    c = it.eq(b.payload[0], a.payload[0])
                    nq += 1
                    if c is False or (c is not True and _sat(s, pc, z3.Not(c))):
                        viol = {"message": "user %s comes back from the snapshot with another record than the one stored before the stop" % u, "tags": ["user-changed"], "model": {}}
                        break
            if not viol and cnt[0] != cnt[1]:
                viol = {"message": "the user table lists %s users before the stop and %s after a restart from the snapshot" % cnt, "tags": ["user-count"], "model": {}}
            if viol:
                viol["model"] = {"history": hist}
                break
            if any(v >= 2 for v in sets.values()):
                covers["a user set twice comes back with the last value"] += 1
            if removed:
                covers["a removed user stays removed"] += 1
            if nrec >= 2:
                covers["two users in the snapshot"] += 1
        ob["queries"] = nq + it.queries
        ob["solver_s"] = round(time.time() - t0, 1)
        ob["sample"] = {"paths_explored": len(paths), "covers": covers, "opaque_symbols": sorted(it.opaque_seen)[:20]}
        missing = [c for c, k in covers.items() if k == 0]
        if viol:
            ob.update({"verdict": "violation", "message": viol["message"], "tags": viol["tags"], "counterexample": viol["model"]})
        elif missing:
            ob.update({"verdict": "inconclusive", "message": "reachability witness never reached: %s" % missing})
        else:
            ob.update({"verdict": "discharged", "distinct": len(paths)})
    except rsparse.Unsupported as e:
        ob.update({"verdict": "inconclusive", "message": "encoder met source it cannot encode: %s" % e})
    return ob


def _sat(s, pc, cond):
    s.push()
    s.add(*pc)
    s.add(cond)
    r = s.check() == z3.sat
    s.pop()
    return r


if __name__ == "__main__":
    import sys
    ob = run(sys.argv[1] if len(sys.argv) > 1 else "quick", 0)
    print(ob["harness"], ob.get("verdict"), str(ob.get("message", ""))[:900], str(ob.get("counterexample"))[:900], ob.get("queries"), ob.get("solver_s"), str(ob.get("sample"))[:800])
