"""Symbolic evaluator for the Rust subset parsed by rsparse: executes functions of /repo's current
source over values that are concrete Python objects or z3 terms.

* control flow on a symbolic condition forks; forks are explored by re-execution from the start with
  a growing decision prefix (no state cloning, so in-place mutation through &mut self is safe);
  infeasible prefixes are pruned with the solver;
* `&&`, `||`, `!`, comparisons and arithmetic on symbolic operands build terms, they do not fork;
* data structures have concrete shape (lists, dicts, structs as Python dicts) and symbolic leaves;
* method calls resolve to (1) user methods found in the parsed impl blocks, (2) an allow-list of std
  methods with fixed meaning, (3) harness-registered models; anything else raises Unsupported, which
  the caller reports as INCONCLUSIVE.

Integers: concrete Python ints or 64-bit bit-vectors (unsigned ops; `as` casts between integer types
are identities at 64 bits: stated in evidence). Strings: Python str or z3 String.
"""
import re
import z3

from .rsparse import Unsupported


class ReturnEx(Exception):
    def __init__(self, v):
        self.v = v


class BreakEx(Exception):
    def __init__(self, v=None):
        self.v = v


class ContinueEx(Exception):
    pass


class PathAbort(Exception):
    """current decision prefix is infeasible"""


class RustPanic(Exception):
    pass


class Enum:
    __slots__ = ("ty", "variant", "payload")

    def __init__(self, ty, variant, payload=None):
        self.ty = ty
        self.variant = variant
        self.payload = payload  # list (tuple variant) | dict (struct variant) | None

    def __repr__(self):
        return "%s::%s%s" % (self.ty, self.variant, "" if self.payload is None else repr(self.payload))

    def __eq__(self, o):
        return isinstance(o, Enum) and (self.variant, self.payload) == (o.variant, o.payload)

    def __hash__(self):
        return hash((self.variant, repr(self.payload)))


class SymEnum:
    """symbolic value of a field-less enum: variant -> z3 Bool (exclusive, exhaustive)"""

    def __init__(self, ty, conds):
        self.ty = ty
        self.conds = conds

    def __repr__(self):
        return "SymEnum(%s)" % self.ty


def Some(v):
    return Enum("Option", "Some", [v])


NONE = Enum("Option", "None")


def Ok(v):
    return Enum("Result", "Ok", [v])


def Err(v):
    return Enum("Result", "Err", [v])


class Struct(dict):
    """struct value: dict of fields + type name"""

    def __init__(self, ty, fields):
        super().__init__(fields)
        self.ty = ty

    def __repr__(self):
        return "%s%s" % (self.ty, dict.__repr__(self))

    def _key(self):
        return (self.ty, tuple(sorted((k, _hk(v)) for k, v in self.items())))

    def __hash__(self):
        # by content when every field is concrete (map keys such as ConfigKey); identity otherwise
        try:
            return hash(self._key())
        except TypeError:
            return id(self)

    def __eq__(self, o):
        if not isinstance(o, Struct):
            return False
        if self is o:
            return True
        try:
            return self._key() == o._key()
        except TypeError:
            return False

    def __ne__(self, o):
        return not self.__eq__(o)

    def __lt__(self, o):
        return self._key() < o._key()


def _hk(v):
    if isinstance(v, Struct):
        return v._key()
    if isinstance(v, (list, dict)) or is_sym_raw(v):
        raise TypeError("unhashable")
    return v


def is_sym_raw(v):
    return isinstance(v, z3.ExprRef)


NUMERIC_CONSTS = {"u64::MAX": (1 << 64) - 1, "usize::MAX": (1 << 64) - 1, "u32::MAX": (1 << 32) - 1, "u16::MAX": (1 << 16) - 1, "u8::MAX": 255,
                  "i64::MAX": (1 << 63) - 1, "i32::MAX": (1 << 31) - 1, "u64::MIN": 0, "usize::MIN": 0, "u32::MIN": 0}


class Closure:
    def __init__(self, params, body, env):
        self.params = params
        self.body = body
        self.env = env


class Uninterp:
    """opaque value of an unmodelled call (compared structurally)"""

    def __init__(self, name, args):
        self.name = name
        self.args = args

    def __repr__(self):
        return "%s(%s)" % (self.name, ", ".join(map(repr, self.args)))

    def __eq__(self, o):
        return isinstance(o, Uninterp) and self.name == o.name and self.args == o.args

    def __hash__(self):
        return hash(self.name)


class Regex:
    def __init__(self, pattern):
        self.pattern = pattern


def is_sym(v):
    return isinstance(v, z3.ExprRef)


def to_bv(v):
    if isinstance(v, bool):
        raise Unsupported("bool used as integer")
    if isinstance(v, int):
        return z3.BitVecVal(v & ((1 << 64) - 1), 64)
    return v


def to_str(v):
    if isinstance(v, str):
        return z3.StringVal(v)
    return v


def to_bool(v):
    if isinstance(v, bool):
        return z3.BoolVal(v)
    return v


class Env:
    def __init__(self, parent=None):
        self.vars = {}
        self.parent = parent

    def lookup(self, name):
        e = self
        while e is not None:
            if name in e.vars:
                return e.vars[name]
            e = e.parent
        raise KeyError(name)

    def has(self, name):
        e = self
        while e is not None:
            if name in e.vars:
                return True
            e = e.parent
        return False

    def set_existing(self, name, v):
        e = self
        while e is not None:
            if name in e.vars:
                e.vars[name] = v
                return
            e = e.parent
        raise Unsupported("assignment to unknown variable " + name)

    def define(self, name, v):
        self.vars[name] = v


class Program:
    """parsed items of several files, indexed"""

    def __init__(self):
        self.fns = {}  # name -> fn item (free functions)
        self.methods = {}  # (TypeName, method) -> fn item
        self.consts = {}  # name -> expr (const / static / lazy_static)
        self.enums = {}  # enum name -> {variant: shape}
        self.variant_owner = {}  # variant name -> enum name (when unique)
        self.structs = {}
        self.const_cache = {}
        self.trait_methods = {}  # (TypeName, method) -> [(trait string, fn item)]
        self.type_alias = {}
        # several modules define constants / free functions of the same name (API_PATH ...): names are resolved in the
        # file of the function being evaluated first, then globally
        self.file_consts = {}  # (file, name) -> expr
        self.file_fns = {}  # (file, name) -> fn item
        self.item_file = {}  # id(fn item) -> file

    def trait_method(self, ty, name, trait_substr):
        for tr, fn in self.trait_methods.get((ty, name), []):
            if trait_substr in tr:
                return fn
        return None

    def add_items(self, items, file=None):
        for it in items:
            k = it[0]
            if k == "fn":
                self.fns[it[1]] = it
                self.file_fns[(file, it[1])] = it
                self.item_file[id(it)] = file
            elif k == "impl":
                ty = it[1].split("<")[0].strip().split("::")[-1].strip()
                ty = ty.split(" ")[0]
                for sub in it[3]:
                    if sub[0] == "fn":
                        self.item_file[id(sub)] = file
                        if it[2] is not None:
                            self.trait_methods.setdefault((ty, sub[1]), []).append((it[2], sub))
                            if (ty, sub[1]) in self.methods and sub[1] == "handle":
                                # several Handler<M> impls: resolved through trait_methods
                                continue
                        self.methods[(ty, sub[1])] = sub
                    elif sub[0] == "const":
                        self.consts[ty + "::" + sub[1]] = sub[3]
            elif k == "const":
                self.consts[it[1]] = it[3]
                self.file_consts[(file, it[1])] = it[3]
            elif k == "lazy_static":
                for c in it[1]:
                    self.consts[c[1]] = c[3]
                    self.file_consts[(file, c[1])] = c[3]
            elif k == "enum":
                self.enums[it[1]] = dict(it[2])
                for v, _shape in it[2]:
                    self.variant_owner.setdefault(v, set()).add(it[1])
            elif k == "struct":
                self.structs[it[1]] = it[2]
            elif k == "mod":
                self.add_items(it[2], file)
            elif k == "type_alias":
                self.type_alias[it[1]] = it[2].split("<")[0].strip().split("::")[-1].strip()


class MutRef:
    """`&mut` to a scalar slot of a map (HashMap::get_mut on a map of numbers): `*r` reads the slot, `*r = v` / `*r += v` write it"""

    def __init__(self, container, key):
        self.container = container
        self.key = key

    def get(self):
        return self.container[self.key]

    def set(self, v):
        self.container[self.key] = v

    def __repr__(self):
        return "&mut %r" % (self.get(),)


def unref(v):
    return v.get() if isinstance(v, MutRef) else v


class SliceView(list):
    """a mutable sub-slice (split_at_mut): a copy of base[lo:hi] whose writes go through to the base vector"""

    def __init__(self, base, lo, hi):
        super().__init__(base[lo:hi])
        self.base = base
        self.lo = lo

    def __setitem__(self, i, v):
        super().__setitem__(i, v)
        if isinstance(i, slice):
            start, stop, step = i.indices(len(self))
            self.base[self.lo + start:self.lo + stop:step] = v
        else:
            self.base[self.lo + (i if i >= 0 else len(self) + i)] = v


class Interp:
    def __init__(self, prog, solver=None):
        self.prog = prog
        self.models = {}  # (type or None, method name) -> python callable(interp, recv, args)
        self.fn_models = {}  # function path tail -> python callable(interp, args)
        self.decisions = []
        self.dpos = 0
        self.pc = []
        self.solver = solver or z3.Solver()
        self.queries = 0
        self.type_alias = prog.type_alias
        self.max_loop = 4096
        # lenient mode: calls/methods/names without a model evaluate to opaque Uninterp values (and conditions on them
        # to fresh Booleans) instead of aborting; used for decision skeletons whose side computations (metrics, response
        # building) do not matter. Every opaque symbol met is recorded in self.opaque_seen (reported in evidence).
        self.cur_file = [None]
        self.concretizer = None  # optional callable(interp, term) -> int: forks over the feasible values of a term needed as a number
        self.call_type = None
        self.let_type = None
        self.lenient = False
        self.signed_cmp = False   # obligations over code whose integers are all i32 / i64 switch to signed comparisons
        self.resolve_into = False
        self.opaque_iteration = False  # lenient extras for decision skeletons: iterate opaque collections once, drop field stores into opaque values
        self.macro_models = {}  # macro name -> python callable(interp, evaluated args)
        self.events = []
        self.opaque = {}
        self.opaque_seen = set()

    def opaque_bool(self, u):
        key = repr(u)
        if key not in self.opaque:
            self.opaque[key] = z3.Bool("opaque_%d" % len(self.opaque))
        return self.opaque[key]

    def mk_opaque(self, name, args):
        self.opaque_seen.add(name)
        return Uninterp(name, list(args))

    def emit(self, name, payload=None):
        self.events.append((name, list(self.pc), payload))

    # ---------------- path exploration ----------------
    def explore(self, thunk, max_paths=20000, stop=None):
        """run thunk() under every feasible decision sequence; yields (pc list, result or exception);
        stop(result) -> True ends the exploration early (a violation was found: the remaining paths cannot change the verdict)"""
        results = []
        self.all_events = []
        stack = [[]]
        while stack:
            prefix = stack.pop()
            self.decisions = list(prefix)
            self.dpos = 0
            self.pc = []
            self._pending = []
            self.events = []
            try:
                r = thunk()
                results.append((list(self.pc), r, None))
                self.all_events.append((list(self.pc), list(self.events)))
                if stop is not None and stop(r):
                    return results
            except PathAbort:
                pass
            except RustPanic as e:
                results.append((list(self.pc), None, e))
            # alternatives discovered on this run beyond the given prefix
            for alt in self._pending:
                stack.append(alt)
            if len(results) > max_paths:
                raise Unsupported("path explosion (> %d paths)" % max_paths)
        return results

    def branch(self, cond):
        """decide a branch condition; forks when symbolic"""
        if isinstance(cond, bool):
            return cond
        if isinstance(cond, Uninterp):
            if not self.lenient:
                raise Unsupported("branch on unmodelled value %r" % (cond,))
            cond = self.opaque_bool(cond)
        cond = z3.simplify(cond)
        if z3.is_true(cond):
            return True
        if z3.is_false(cond):
            return False
        if self.dpos < len(self.decisions):
            d = self.decisions[self.dpos]
            self.dpos += 1
            self.pc.append(cond if d else z3.Not(cond))
            return d
        # new decision point: feasibility of both sides
        can_t = self._feasible(cond)
        can_f = self._feasible(z3.Not(cond))
        if not can_t and not can_f:
            raise PathAbort()
        if can_t and can_f:
            self._pending.append(self.decisions[:self.dpos] + [False])
            d = True
        else:
            d = can_t
        self.decisions = self.decisions[:self.dpos] + [d]
        self.dpos += 1
        self.pc.append(cond if d else z3.Not(cond))
        return d

    def _feasible(self, extra):
        self.queries += 1
        self.solver.push()
        for c in self.pc:
            self.solver.add(c)
        self.solver.add(extra)
        r = self.solver.check()
        self.solver.pop()
        if r == z3.unknown:
            raise Unsupported("solver answered unknown on a path condition")
        return r == z3.sat

    # ---------------- calls ----------------
    def call_fn(self, name, args):
        if name in self.fn_models:
            return self.fn_models[name](self, args)
        it = self.prog.file_fns.get((self.cur_file[-1], name)) or self.prog.fns.get(name)
        if it is None:
            raise Unsupported("unknown function " + name)
        return self._invoke(it, args)

    def call_method(self, ty, name, recv, args):
        it = self.prog.methods.get((ty, name))
        if it is None:
            raise Unsupported("unknown method %s::%s" % (ty, name))
        has_self = it[2] and it[2][0] == ("p_bind", "self", None)
        return self._invoke(it, ([recv] if has_self else []) + list(args), self_ty=ty)

    def _invoke(self, it, args, self_ty=None):
        _k, name, params, body = it[:4]
        if body is None:
            raise Unsupported("function without body " + name)
        if len(params) != len(args):
            raise Unsupported("arity mismatch calling %s" % name)
        env = Env()
        env.define("Self", self_ty)
        for p, a in zip(params, args):
            if not self.bind(p, a, env):
                raise Unsupported("refutable parameter pattern in " + name)
        self.cur_file.append(self.prog.item_file.get(id(it), self.cur_file[-1]))
        try:
            if body[0] == "block" and not body[1] and body[2] is not None and self._is_default_call(body[2]) and self_ty in self.prog.structs \
                    and "Default::default" not in self.fn_models:
                return self.default_of_type(self_ty)
            return self.eval(body, env)
        except ReturnEx as r:
            return r.v
        finally:
            self.cur_file.pop()

    def call_value(self, f, args):
        if isinstance(f, Closure):
            env = Env(f.env)
            if len(f.params) != len(args):
                if len(f.params) == 1 and len(args) > 1:
                    args = [tuple(args)]
                else:
                    raise Unsupported("closure arity")
            for p, a in zip(f.params, args):
                if not self.bind(p, a, env):
                    raise Unsupported("refutable closure parameter")
            try:
                return self.eval(f.body, env)
            except ReturnEx as r:
                return r.v
        if callable(f):
            return f(*args)
        if isinstance(f, tuple) and f and f[0] in ("extern", "fnref"):
            nm = f[1]
            tail2 = "::".join(nm.split("::")[-2:])
            if tail2 in ("Arc::new", "Box::new", "Rc::new", "String::from", "Arc::from") and len(args) == 1 and tail2 not in self.fn_models:
                # smart-pointer / owned-string constructors used as function values: `opt.map(Arc::new)`
                return args[0]
            if tail2 in self.fn_models:
                return self.fn_models[tail2](self, list(args))
            if nm.split("::")[-1] in self.fn_models:
                return self.fn_models[nm.split("::")[-1]](self, list(args))
            if nm.split("::")[-1] in self.prog.fns:
                return self.call_fn(nm.split("::")[-1], list(args))
        if isinstance(f, tuple) and f and f[0] == "ctor":
            return {"Some": Some, "Ok": Ok, "Err": Err}[f[1]](args[0])
        if isinstance(f, tuple) and f and f[0] == "methodref" and (f[1], f[2]) in self.prog.methods:
            # a path to an associated function used as a value: `opt.map(Self::helper)`
            return self._invoke(self.prog.methods[(f[1], f[2])], list(args), self_ty=f[1])
        raise Unsupported("call of non-callable %r" % (f,))

    # ---------------- patterns ----------------
    def bind(self, pat, v, env):
        """match value against pattern; returns True/False (concrete) — forks on symbolic tests"""
        k = pat[0]
        if k == "p_wild" or k == "p_rest":
            return True
        if k == "p_bind":
            if pat[2] is not None:
                if not self.bind(pat[2], v, env):
                    return False
            env.define(pat[1], v)
            return True
        if k == "p_ref":
            return self.bind(pat[1], v, env)
        if k == "p_lit":
            return self.branch(self.eq(v, pat[1]))
        if k == "p_range":
            lo, hi, inc = pat[1], pat[2], pat[3]
            c = self.land(self.cmp(">=", v, lo), self.cmp("<=" if inc else "<", v, hi))
            return self.branch(c)
        if k == "p_or":
            for alt in pat[1]:
                e2 = Env(env)
                if self.bind(alt, v, e2):
                    env.vars.update(e2.vars)
                    return True
            return False
        if isinstance(v, Uninterp) and k in ("p_tuple", "p_path", "p_tstruct", "p_struct"):
            if not self.lenient:
                raise Unsupported("pattern against unmodelled value %r" % (v,))
            if k == "p_tuple":
                for i, p in enumerate(pat[1]):
                    self.bind(p, self.mk_opaque("proj%d" % i, [v]), env)
                return True
            name = pat[1][-1]
            if not self.branch(self.opaque_bool(Uninterp("is_" + name, [v]))):
                return False
            if k == "p_tstruct":
                for i, p in enumerate(pat[2]):
                    if not self.bind(p, self.mk_opaque("%s.%d" % (name, i), [v]), env):
                        return False
            elif k == "p_struct":
                for fname, p in pat[2]:
                    if not self.bind(p, self.mk_opaque("%s.%s" % (name, fname), [v]), env):
                        return False
            return True
        if k == "p_tuple":
            if not isinstance(v, (tuple, list)):
                raise Unsupported("tuple pattern against %r" % (v,))
            ps = pat[1]
            if any(p[0] == "p_rest" for p in ps):
                raise Unsupported("rest in tuple pattern")
            if len(ps) != len(v):
                return False
            for p, x in zip(ps, v):
                if not self.bind(p, x, env):
                    return False
            return True
        if k == "p_path":
            segs = pat[1]
            name = segs[-1]
            # constant?
            cname = "::".join(segs) if len(segs) > 1 and ("::".join(segs[-2:]) in self.prog.consts) else name
            if cname in self.prog.consts or "::".join(segs[-2:]) in self.prog.consts:
                cv = self.const("::".join(segs[-2:]) if "::".join(segs[-2:]) in self.prog.consts else name)
                return self.branch(self.eq(v, cv))
            if name == "None" and isinstance(v, Enum):
                return v.variant == "None"
            if isinstance(v, SymEnum):
                return self.branch(v.conds.get(name, False))
            if isinstance(v, Enum):
                return v.variant == name
            if is_sym(v) and hasattr(v, "_enum_ty"):
                raise Unsupported("symbolic enum")
            raise Unsupported("path pattern %s against %r" % ("::".join(segs), v))
        if k == "p_tstruct":
            segs, ps, rest = pat[1], pat[2], pat[3]
            name = segs[-1]
            if not isinstance(v, Enum):
                if isinstance(v, Struct) and v.ty == name and "0" in v:
                    vals = [v[str(i)] for i in range(len(ps))]
                    return all(self.bind(p, x, env) for p, x in zip(ps, vals))
                raise Unsupported("tuple-struct pattern %s against %r" % (name, v))
            if v.variant != name:
                return False
            payload = v.payload or []
            if not rest and len(ps) != len(payload):
                raise Unsupported("variant arity %s" % name)
            for p, x in zip(ps, payload):
                if not self.bind(p, x, env):
                    return False
            return True
        if k == "p_struct":
            segs, fs, _rest = pat[1], pat[2], pat[3]
            name = segs[-1]
            if isinstance(v, Enum):
                if v.variant != name:
                    return False
                src = v.payload or {}
            elif isinstance(v, Struct):
                src = v
            else:
                raise Unsupported("struct pattern against %r" % (v,))
            for fname, p in fs:
                if fname not in src:
                    raise Unsupported("field %s missing in %r" % (fname, v))
                if not self.bind(p, src[fname], env):
                    return False
            return True
        raise Unsupported("pattern kind " + k)

    # ---------------- primitive operations ----------------
    def eq(self, a, b):
        a, b = unref(a), unref(b)
        if isinstance(a, SymEnum) or isinstance(b, SymEnum):
            if isinstance(a, SymEnum) and isinstance(b, SymEnum):
                r = False
                for v, c in a.conds.items():
                    r = self.lor(r, self.land(c, b.conds.get(v, False)))
                return r
            se, ce = (a, b) if isinstance(a, SymEnum) else (b, a)
            if not isinstance(ce, Enum):
                raise Unsupported("comparison of symbolic enum with %r" % (ce,))
            return se.conds.get(ce.variant, False)
        if isinstance(a, Enum) and isinstance(b, Enum):
            if a.variant != b.variant:
                return False
            pa, pb = a.payload, b.payload
            if pa is None or pb is None:
                return pa is None and pb is None
            if isinstance(pa, dict):
                r = True
                for k in pa:
                    r = self.land(r, self.eq(pa[k], pb[k]))
                return r
            r = True
            for x, y in zip(pa, pb):
                r = self.land(r, self.eq(x, y))
            return r
        if isinstance(a, list) and isinstance(b, str):
            b = list(b.encode())
        if isinstance(b, list) and isinstance(a, str):
            a = list(a.encode())
        if isinstance(a, (tuple, list)) and isinstance(b, (tuple, list)):
            if len(a) != len(b):
                return False
            r = True
            for x, y in zip(a, b):
                r = self.land(r, self.eq(x, y))
            return r
        if isinstance(a, Struct) and isinstance(b, Struct):
            r = True
            for k in a:
                r = self.land(r, self.eq(a[k], b[k]))
            return r
        if isinstance(a, Uninterp) or isinstance(b, Uninterp):
            if a is b or (isinstance(a, Uninterp) and isinstance(b, Uninterp) and a == b):
                return True
            if self.lenient:
                return self.opaque_bool(Uninterp("eq", [a, b]))
            raise Unsupported("comparison with unmodelled value")
        if not is_sym(a) and not is_sym(b):
            return a == b
        if isinstance(a, str) or isinstance(b, str) or (is_sym(a) and a.sort() == z3.StringSort()) or (is_sym(b) and b.sort() == z3.StringSort()):
            return to_str(a) == to_str(b)
        if isinstance(a, bool) or isinstance(b, bool) or (is_sym(a) and z3.is_bool(a)) or (is_sym(b) and z3.is_bool(b)):
            return to_bool(a) == to_bool(b)
        return to_bv(a) == to_bv(b)

    def cmp(self, op, a, b):
        a, b = unref(a), unref(b)
        if isinstance(a, Uninterp) or isinstance(b, Uninterp):
            if self.lenient:
                return self.opaque_bool(Uninterp(op, [a, b]))
            raise Unsupported("comparison with unmodelled value")
        if not is_sym(a) and not is_sym(b):
            return {"<": a < b, "<=": a <= b, ">": a > b, ">=": a >= b}[op]
        if (is_sym(a) and z3.is_fp(a)) or (is_sym(b) and z3.is_fp(b)):
            fa, fb = self.to_fp(a), self.to_fp(b)
            return {"<": z3.fpLT, "<=": z3.fpLEQ, ">": z3.fpGT, ">=": z3.fpGEQ}[op](fa, fb)
        a, b = to_bv(a), to_bv(b)
        if self.signed_cmp:
            return {"<": lambda x, y: x < y, "<=": lambda x, y: x <= y, ">": lambda x, y: x > y, ">=": lambda x, y: x >= y}[op](a, b)
        return {"<": z3.ULT, "<=": z3.ULE, ">": z3.UGT, ">=": z3.UGE}[op](a, b)

    def to_fp(self, v):
        if is_sym(v):
            return v
        return z3.FPVal(float(v), z3.Float32())

    def _b(self, x):
        if isinstance(x, Uninterp):
            if not self.lenient:
                raise Unsupported("boolean use of unmodelled value %r" % (x,))
            return self.opaque_bool(x)
        return x

    def land(self, a, b):
        a, b = self._b(a), self._b(b)
        if isinstance(a, bool):
            return b if a else False
        if isinstance(b, bool):
            return a if b else False
        return z3.And(a, b)

    def lor(self, a, b):
        a, b = self._b(a), self._b(b)
        if isinstance(a, bool):
            return True if a else b
        if isinstance(b, bool):
            return True if b else a
        return z3.Or(a, b)

    def lnot(self, a):
        a = self._b(a)
        if isinstance(a, bool):
            return not a
        return z3.Not(a)

    def arith(self, op, a, b):
        a, b = unref(a), unref(b)
        if isinstance(a, Uninterp) or isinstance(b, Uninterp):
            if self.lenient:
                return self.mk_opaque(op, [a, b])
            raise Unsupported("arithmetic on unmodelled value")
        if not is_sym(a) and not is_sym(b):
            if isinstance(a, float) or isinstance(b, float):
                if op == "/":
                    # IEEE semantics (no panic): x / 0.0 is +-inf, 0.0 / 0.0 is NaN
                    if b == 0:
                        return float("nan") if (a == 0 or a != a) else (float("inf") if a > 0 else float("-inf"))
                    return a / b
                return {"+": lambda: a + b, "-": lambda: a - b, "*": lambda: a * b}[op]()
            if op == "+":
                return a + b
            if op == "-":
                if a - b < 0:
                    raise RustPanic("attempt to subtract with overflow")
                return a - b
            if op == "*":
                return a * b
            if op == "/":
                if b == 0:
                    raise RustPanic("attempt to divide by zero")
                return a // b
            if op == "%":
                if b == 0:
                    raise RustPanic("attempt to calculate the remainder with a divisor of zero")
                return a % b
            if op == "&":
                return a & b
            if op == "|":
                return a | b
            if op == "^":
                return a ^ b
            if op == "<<":
                return (a << b) & ((1 << 64) - 1)
            if op == ">>":
                return a >> b
        if (is_sym(a) and z3.is_fp(a)) or (is_sym(b) and z3.is_fp(b)) or isinstance(a, float) or isinstance(b, float):
            fa, fb = self.to_fp(a), self.to_fp(b)
            rm = z3.RNE()
            return {"+": lambda: z3.fpAdd(rm, fa, fb), "-": lambda: z3.fpSub(rm, fa, fb), "*": lambda: z3.fpMul(rm, fa, fb),
                    "/": lambda: z3.fpDiv(rm, fa, fb)}[op]()
        a, b = to_bv(a), to_bv(b)
        if op == "+":
            return a + b
        if op == "-":
            if self.branch(z3.ULT(a, b)):
                raise RustPanic("attempt to subtract with overflow")
            return a - b
        if op == "*":
            return a * b
        if op in ("/", "%"):
            if self.branch(b == 0):
                raise RustPanic("division by zero")
            return z3.UDiv(a, b) if op == "/" else z3.URem(a, b)
        if op == "&":
            return a & b
        if op == "|":
            return a | b
        if op == "^":
            return a ^ b
        if op == "<<":
            return a << b
        if op == ">>":
            return z3.LShR(a, b)
        raise Unsupported("operator " + op)

    # ---------------- constants ----------------
    def const(self, name):
        f = self.cur_file[-1]
        if (f, name) in self.prog.file_consts:
            key = (f, name)
            e = self.prog.file_consts[key]
            cf = f
        else:
            key = (None, name)
            e = self.prog.consts.get(name)
            cf = None
            if e is not None:
                # remember the defining file so that nested constant references resolve there
                for (ff, nn), ee in self.prog.file_consts.items():
                    if nn == name and ee is e:
                        cf = ff
                        break
        if key in self.prog.const_cache:
            return self.prog.const_cache[key]
        if e is None:
            raise Unsupported("unknown constant " + name)
        self.cur_file.append(cf)
        try:
            v = self.eval(e, Env())
        finally:
            self.cur_file.pop()
        self.prog.const_cache[key] = v
        return v

    # ---------------- expression evaluation ----------------
    def eval(self, e, env):
        k = e[0]
        m = getattr(self, "ev_" + k, None)
        if m is None:
            raise Unsupported("expression kind " + k)
        return m(e, env)

    def ev_lit(self, e, env):
        return e[1]

    def ev_path(self, e, env):
        segs = e[1]
        name = segs[-1]
        if len(segs) == 1:
            if env.has(name):
                return env.lookup(name)
            if name in self.prog.consts:
                return self.const(name)
            if name == "None":
                return NONE
            if name in self.prog.variant_owner:
                owners = self.prog.variant_owner[name]
                return Enum(sorted(owners)[0], name)
            if name in self.prog.fns or name in self.fn_models:
                return ("fnref", name)
            if name in ("Some", "Ok", "Err"):
                return ("ctor", name)
            if self.lenient:
                return self.mk_opaque(name, [])
            raise Unsupported("unknown name " + name)
        # multi segment
        full2 = "::".join(segs[-2:])
        if full2 in NUMERIC_CONSTS:
            return NUMERIC_CONSTS[full2]
        if full2 in self.prog.consts:
            return self.const(full2)
        if name in self.prog.consts and segs[-2] not in self.prog.enums:
            return self.const(name)
        owner = segs[-2]
        if owner == "Self" and env.has("Self"):
            owner = env.lookup("Self")
        owner = self.type_alias.get(owner, owner)
        if owner in self.prog.enums and name in self.prog.enums[owner]:
            shape = self.prog.enums[owner][name]
            if shape[0] == "unit":
                return Enum(owner, name)
            return ("variant_ctor", owner, name)
        if (owner, name) in self.prog.methods:
            return ("methodref", owner, name)
        if name in self.prog.fns or name in self.fn_models:
            return ("fnref", name)
        if full2 in self.fn_models:
            return ("fnref", full2)
        return ("extern", "::".join(segs))

    def ev_field(self, e, env):
        v = self.eval(e[1], env)
        return self.get_field(v, e[2])

    def get_field(self, v, name):
        if isinstance(v, Struct):
            if name in v:
                return v[name]
            raise Unsupported("no field %s in %s" % (name, v.ty))
        if isinstance(v, dict) and name in v:
            return v[name]
        if self.lenient:
            return self.mk_opaque("." + name, [v])
        raise Unsupported("field %s of %r" % (name, v))

    def ev_tupidx(self, e, env):
        v = self.eval(e[1], env)
        if isinstance(v, (tuple, list)):
            return v[e[2]]
        if isinstance(v, Struct) and str(e[2]) in v:
            return v[str(e[2])]
        raise Unsupported("tuple index on %r" % (v,))

    def ev_index(self, e, env):
        v = self.eval(e[1], env)
        i = self.eval(e[2], env)
        if is_sym(i) and self.concretizer:
            i = self.concretizer(self, i)
        if is_sym(i):
            raise Unsupported("symbolic index")
        if isinstance(v, (list, tuple, str)):
            if isinstance(i, tuple) and i and i[0] == "range":
                return v[i[1]:i[2]]
            if i >= len(v):
                raise RustPanic("index out of bounds")
            return v[i]
        if isinstance(v, dict):
            return v[i]
        raise Unsupported("index on %r" % (v,))

    def ev_ref(self, e, env):
        return self.eval(e[1], env)

    def ev_deref(self, e, env):
        return unref(self.eval(e[1], env))

    def ev_await(self, e, env):
        return self.eval(e[1], env)

    def ev_async(self, e, env):
        return self.eval(e[1], env)

    def ev_cast(self, e, env):
        v = self.eval(e[1], env)
        ty = e[2].strip()
        if isinstance(v, Uninterp):
            return v
        if ty in ("f32", "f64"):
            if is_sym(v):
                if z3.is_fp(v):
                    return v
                return z3.fpToFP(z3.RNE(), z3.BV2Int(v, is_signed=False) if False else v, z3.Float32()) if False else z3.fpUnsignedToFP(z3.RNE(), v, z3.Float32())
            return float(v)
        if is_sym(v) and z3.is_fp(v):
            raise Unsupported("float to int cast")
        if isinstance(v, bool):
            return int(v)
        if isinstance(v, str) and ty in ("u8", "u32", "char"):
            return ord(v)
        return v

    def ev_try(self, e, env):
        v = self.eval(e[1], env)
        if isinstance(v, Enum):
            if v.variant in ("Ok", "Some"):
                return v.payload[0]
            raise ReturnEx(v)
        if isinstance(v, Uninterp) and self.lenient:
            if self.branch(self.opaque_bool(Uninterp("is_ok", [v]))):
                return self.mk_opaque("unwrap", [v])
            raise ReturnEx(self.mk_opaque("err", [v]))
        raise Unsupported("? on %r" % (v,))

    def ev_unary(self, e, env):
        v = self.eval(e[2], env)
        if isinstance(v, Uninterp):
            if e[1] == "!":
                return self.lnot(v)
            return self.mk_opaque("neg", [v])
        if e[1] == "!":
            if isinstance(v, bool) or (is_sym(v) and z3.is_bool(v)):
                return self.lnot(v)
            if is_sym(v):
                return ~v
            return (~v) & ((1 << 64) - 1)
        if e[1] == "-":
            if is_sym(v):
                return -v
            return -v
        raise Unsupported("unary " + e[1])

    def ev_binary(self, e, env):
        op = e[1]
        if op == "&&":
            a = self.truth(e[2], env)
            if isinstance(a, bool):
                if not a:
                    return False
                return self.truth(e[3], env)
            # symbolic lhs: rhs is evaluated under the assumption that lhs holds only if it may have effects; the
            # fragments evaluated here have pure conditions, so build the conjunction
            b = self.truth(e[3], env)
            return self.land(a, b)
        if op == "||":
            a = self.truth(e[2], env)
            if isinstance(a, bool):
                if a:
                    return True
                return self.truth(e[3], env)
            b = self.truth(e[3], env)
            return self.lor(a, b)
        a = self.eval(e[2], env)
        b = self.eval(e[3], env)
        if op == "==":
            return self.eq(a, b)
        if op == "!=":
            return self.lnot(self.eq(a, b))
        if op in ("<", "<=", ">", ">="):
            return self.cmp(op, a, b)
        return self.arith(op, a, b)

    def truth(self, e, env):
        """condition value; ('let', pat, expr) conditions bind into env and fork when needed"""
        if e[0] == "let":
            v = self.eval(e[2], env)
            return self.bind(e[1], v, env)
        if e[0] == "binary" and e[1] == "&&" and (e[2][0] == "let" or e[3][0] == "let"):
            a = self.truth(e[2], env)
            a = self.branch(a) if not isinstance(a, bool) else a
            if not a:
                return False
            return self.truth(e[3], env)
        return self.eval(e, env)

    def ev_assign(self, e, env):
        op, lhs, rhs = e[1], e[2], e[3]
        v = self.eval(rhs, env)
        if op != "=":
            cur = self.eval(lhs, env)
            v = self.arith(op[:-1], cur, v)
        self.assign(lhs, v, env)
        return ()

    def assign(self, lhs, v, env):
        k = lhs[0]
        if k == "path" and len(lhs[1]) == 1:
            env.set_existing(lhs[1][0], v)
        elif k == "field":
            obj = self.eval(lhs[1], env)
            if isinstance(obj, Uninterp) and self.lenient and self.opaque_iteration:
                # opt-in: a field of a value without a model cannot be stored; the value (and what it was built from) stays as it was
                self.opaque_seen.add("field-assign(opaque)")
                return
            if not isinstance(obj, dict):
                raise Unsupported("field assignment on %r" % (obj,))
            obj[lhs[2]] = v
        elif k == "deref":
            if lhs[1][0] == "path" and len(lhs[1][1]) == 1 and env.has(lhs[1][1][0]) and isinstance(env.lookup(lhs[1][1][0]), MutRef):
                env.lookup(lhs[1][1][0]).set(v)
            else:
                self.assign(lhs[1], v, env)
        elif k == "index":
            obj = self.eval(lhs[1], env)
            i = self.eval(lhs[2], env)
            if is_sym(i) and self.concretizer:
                i = self.concretizer(self, i)
            if is_sym(i):
                raise Unsupported("symbolic index assignment")
            obj[i] = v
        elif k == "tupidx":
            obj = self.eval(lhs[1], env)
            if isinstance(obj, list):
                obj[lhs[2]] = v
            else:
                raise Unsupported("tuple field assignment")
        else:
            raise Unsupported("assignment target " + k)

    def default_of_type(self, ty):
        t = ty.replace(" ", "")
        base = t.split("<")[0].split("::")[-1]
        if base in ("BTreeMap", "HashMap", "KVMap"):   # KVMap: the generated message code's alias of HashMap
            return {}
        if base in ("Vec", "BTreeSet", "HashSet", "LinkedList", "VecDeque"):
            return []
        if base == "Option":
            return NONE
        if base in ("u8", "u16", "u32", "u64", "usize", "i8", "i16", "i32", "i64", "isize"):
            return 0
        if base == "bool":
            return False
        if base in ("f32", "f64"):
            return 0.0
        if base in ("String", "str"):
            return ""
        if base in ("Arc", "Box", "Rc") and "<" in t:
            return self.default_of_type(t[t.index("<") + 1:-1])
        if base == "Cow":
            return "" if "str" in t else []
        if (base, "default") in self.prog.methods:
            # an explicit `impl Default`
            return self._invoke(self.prog.methods[(base, "default")], [], self_ty=base)
        if base in self.prog.structs and self.prog.structs[base]:
            return Struct(base, {f: self.default_of_type(fty) for f, fty in self.prog.structs[base]})
        if self.lenient:
            return self.mk_opaque("default<%s>" % base, [])
        raise Unsupported("Default::default() of type %s" % ty)

    @staticmethod
    def _is_default_call(e):
        return e[0] == "call" and e[1][0] == "path" and e[1][1][-2:] == ["Default", "default"] and not e[2]

    def ev_struct(self, e, env):
        segs, fields, base = e[1], e[2], e[3]
        name = segs[-1]
        vals = {}
        sname = env.lookup("Self") if name == "Self" and env.has("Self") else name
        if sname in self.prog.structs and self.prog.structs[sname] and "Default::default" not in self.fn_models:
            ftypes = dict(self.prog.structs[sname])
            new_fields = []
            for fname, fe in fields:
                if self._is_default_call(fe) and fname in ftypes:
                    vals[fname] = self.default_of_type(ftypes[fname])
                else:
                    new_fields.append((fname, fe))
            if base is not None and self._is_default_call(base):
                if (sname, "default") in self.prog.methods:
                    dv = self._invoke(self.prog.methods[(sname, "default")], [], self_ty=sname)
                    for f in dv:
                        if f not in vals and f not in dict(new_fields):
                            vals[f] = dv[f]
                else:
                    for f, fty in self.prog.structs[sname]:
                        if f not in vals and f not in dict(new_fields):
                            vals[f] = self.default_of_type(fty)
                base = None
            fields = new_fields
        if base is not None:
            b = self.eval(base, env)
            if isinstance(b, dict):
                vals.update(b)
            elif not self.lenient:
                raise Unsupported("struct base %r" % (b,))
        for fname, fe in fields:
            vals[fname] = self.eval(fe, env)
        if name == "Self" and env.has("Self"):
            name = env.lookup("Self")
        if len(segs) >= 2:
            owner = segs[-2]
            if owner == "Self" and env.has("Self"):
                owner = env.lookup("Self")
            if owner in self.prog.enums and name in self.prog.enums[owner]:
                return Enum(owner, name, vals)
        return Struct(name, vals)

    def ev_tuple(self, e, env):
        return tuple(self.eval(x, env) for x in e[1])

    def ev_array(self, e, env):
        return [self.eval(x, env) for x in e[1]]

    def ev_repeat(self, e, env):
        v = self.eval(e[1], env)
        n = self.eval(e[2], env)
        if is_sym(n) and self.concretizer:
            n = self.concretizer(self, n)
        if is_sym(n):
            raise Unsupported("symbolic repeat count")
        return [v for _ in range(n)]

    def ev_range(self, e, env):
        lo = self.eval(e[1], env) if e[1] is not None else None
        hi = self.eval(e[2], env) if e[2] is not None else None
        if (is_sym(lo) or is_sym(hi)) and self.concretizer:
            lo = self.concretizer(self, lo) if is_sym(lo) else lo
            hi = self.concretizer(self, hi) if is_sym(hi) else hi
        if is_sym(lo) or is_sym(hi):
            raise Unsupported("symbolic range bound")
        if hi is not None and e[3]:
            hi += 1
        return ("range", lo, hi)

    def ev_block(self, e, env):
        env2 = Env(env)
        for st in e[1]:
            self.exec_stmt(st, env2)
        if e[2] is not None:
            return self.eval(e[2], env2)
        return ()

    def exec_stmt(self, st, env):
        k = st[0]
        if k == "let":
            _k, pat, _ty, init, els = st
            if init is None:
                if pat[0] == "p_bind":
                    env.define(pat[1], None)
                    return
                raise Unsupported("let without initialiser")
            prev_lt = self.let_type
            self.let_type = _ty
            try:
                v = self.eval(init, env)
            finally:
                self.let_type = prev_lt
            ok = self.bind(pat, v, env)
            if not ok:
                if els is not None:
                    self.eval(els, env)
                    raise Unsupported("let-else fell through")
                raise Unsupported("refutable let pattern did not match")
        elif k == "expr":
            self.eval(st[1], env)
        elif k == "item":
            it = st[1]
            if it[0] == "fn":
                self.prog.fns.setdefault(it[1], it)
        else:
            raise Unsupported("statement " + k)

    def ev_if(self, e, env):
        env2 = Env(env)
        c = self.truth(e[1], env2)
        if self.branch(c) if not isinstance(c, bool) else c:
            return self.eval(e[2], env2)
        if e[3] is not None:
            return self.eval(e[3], env)
        return ()

    def ev_match(self, e, env):
        v = self.eval(e[1], env)
        for pat, guard, body in e[2]:
            env2 = Env(env)
            if self.bind(pat, v, env2):
                if guard is not None:
                    g = self.eval(guard, env2)
                    if not (self.branch(g) if not isinstance(g, bool) else g):
                        continue
                return self.eval(body, env2)
        raise RustPanic("no match arm matched %r" % (v,))

    def iterate(self, v):
        if isinstance(v, tuple) and v and v[0] == "range":
            if v[2] is None:
                raise Unsupported("unbounded range iteration")
            return list(range(v[1] or 0, v[2]))
        if isinstance(v, list):
            return list(v)
        if isinstance(v, dict) and not isinstance(v, Struct):
            return [(k, v[k]) for k in sorted(v)]
        if isinstance(v, (set, frozenset)):
            return sorted(v, key=repr)
        if isinstance(v, Enum) and v.ty == "Option":
            return [v.payload[0]] if v.variant == "Some" else []
        if isinstance(v, Uninterp) and self.lenient and self.opaque_iteration:
            # decision skeletons only (opt-in): a collection without a model is visited once, with an opaque element that keeps its origin
            return [self.mk_opaque("elem", [v])]
        raise Unsupported("iteration over %r" % (v,))

    def ev_for(self, e, env):
        items = self.iterate(self.eval(e[2], env))
        for x in items:
            env2 = Env(env)
            if not self.bind(e[1], x, env2):
                raise Unsupported("refutable for pattern")
            try:
                self.eval(e[3], env2)
            except BreakEx:
                break
            except ContinueEx:
                continue
        return ()

    def ev_while(self, e, env):
        n = 0
        while True:
            env2 = Env(env)
            c = self.truth(e[1], env2)
            if not (self.branch(c) if not isinstance(c, bool) else c):
                break
            try:
                self.eval(e[2], env2)
            except BreakEx:
                break
            except ContinueEx:
                pass
            n += 1
            if n > self.max_loop:
                raise Unsupported("loop bound exceeded")
        return ()

    def ev_loop(self, e, env):
        n = 0
        while True:
            try:
                self.eval(e[1], Env(env))
            except BreakEx as b:
                return b.v if b.v is not None else ()
            except ContinueEx:
                pass
            n += 1
            if n > self.max_loop:
                raise Unsupported("loop bound exceeded")

    def ev_closure(self, e, env):
        return Closure(e[1], e[2], env)

    def ev_return(self, e, env):
        raise ReturnEx(self.eval(e[1], env) if e[1] is not None else ())

    def ev_break(self, e, env):
        raise BreakEx(self.eval(e[1], env) if e[1] is not None else None)

    def ev_continue(self, e, env):
        raise ContinueEx()

    def ev_macro(self, e, env):
        name = e[1][-1]
        args = e[3]
        if name in self.macro_models:
            return self.macro_models[name](self, [self.eval(a, env) for a in (args or [])])
        if name == "vec":
            if args is None:
                raise Unsupported("vec! arguments")
            if len(args) == 1 and args[0][0] == "repeat":
                return self.ev_repeat(args[0], env)
            return [self.eval(a, env) for a in args]
        if name == "matches":
            _m, ex, pat, guard = args[0]
            v = self.eval(ex, env)
            if isinstance(v, SymEnum) and guard is None:
                # field-less symbolic enum against variant / associated-constant paths: a formula, no fork
                alts = pat[1] if pat[0] == "p_or" else [pat]
                if all(a[0] == "p_path" for a in alts):
                    return z3.Or([to_bool(v.conds.get(a[1][-1], False)) for a in alts])
            env2 = Env(env)
            ok = self.bind(pat, v, env2)
            if ok and guard is not None:
                g = self.eval(guard, env2)
                return g
            return ok
        if name in ("info", "warn", "error", "debug", "trace", "println", "eprintln", "print"):
            return ()
        if name in ("format", "anyhow"):
            vals = []
            for a in (args or []):
                try:
                    vals.append(self.eval(a, env))
                except Unsupported:
                    vals.append("?")
            if name == "format" and vals and all(isinstance(x, (str, int)) for x in vals):
                # concrete formatting of "{}" placeholders
                fmt = vals[0]
                out = fmt
                for x in vals[1:]:
                    out = out.replace("{}", str(x), 1)
                return out
            return Uninterp(name, vals)
        if name in ("assert", "debug_assert"):
            c = self.eval(args[0], env)
            if not (self.branch(c) if not isinstance(c, bool) else c):
                raise RustPanic("assertion failed")
            return ()
        if name in ("panic", "unreachable", "todo", "unimplemented"):
            raise RustPanic(name)
        if self.lenient:
            return self.mk_opaque(name + "!", [])
        raise Unsupported("macro %s!" % name)

    def ev_call(self, e, env):
        f = e[1]
        args = [self.eval(a, env) for a in e[2]]
        if f[0] == "path":
            segs = f[1]
            name = segs[-1]
            if len(segs) == 1 and env.has(name):
                return self.call_value(env.lookup(name), args)
            std_ctor = len(segs) == 1 or segs[-2] in ("Option", "Result")
            if name == "Some" and std_ctor:
                return Some(args[0])
            if name == "Ok" and std_ctor:
                return Ok(args[0])
            if name == "Err" and std_ctor:
                return Err(args[0])
            full2 = "::".join(segs[-2:])
            if full2 in self.fn_models:
                return self.fn_models[full2](self, args)
            if full2 in ("cmp::min", "cmp::max") and len(args) == 2:
                c = self.cmp("<=" if name == "min" else ">=", args[0], args[1])
                if isinstance(c, bool):
                    return args[0] if c else args[1]
                return z3.If(c, to_bv(args[0]), to_bv(args[1]))
            if len(segs) >= 2:
                owner = segs[-2]
                if owner == "Self" and env.has("Self"):
                    owner = env.lookup("Self")
                owner = self.type_alias.get(owner, owner)
                if owner in self.prog.enums and name in self.prog.enums[owner]:
                    return Enum(owner, name, list(args))
                if (owner, name) in self.prog.methods:
                    it = self.prog.methods[(owner, name)]
                    return self._invoke(it, args, self_ty=owner)
                if name == "default" and not args and owner in self.prog.structs and self.prog.structs[owner] is not None \
                        and (owner, "default") not in self.prog.methods:
                    return self.default_of_type(owner)
                if owner in ("Arc", "Box", "Rc") and name == "new":
                    return args[0]
                if owner in ("String", "str") and name in ("from", "new"):
                    return args[0] if args else ""
                if owner in ("Vec", "HashSet", "BTreeSet", "LinkedList") and name in ("new", "default", "with_capacity"):
                    return []
                if owner in ("HashMap", "BTreeMap") and name in ("new", "default"):
                    return {}
                if owner == "Regex" and name == "new":
                    return Ok(Regex(args[0]))
                if owner == "Default" and name == "default":
                    if "Default::default" in self.fn_models:
                        return self.fn_models["Default::default"](self, args)
                    if self.lenient:
                        return self.mk_opaque("Default::default", [])
                    raise Unsupported("Default::default() without type")
            if name in self.fn_models:
                return self.fn_models[name](self, args)
            if name in self.prog.fns and len(segs) <= 3:
                return self._invoke(self.prog.file_fns.get((self.cur_file[-1], name)) or self.prog.fns[name], args)
            if name in self.prog.variant_owner and len(segs) == 1:
                return Enum(sorted(self.prog.variant_owner[name])[0], name, list(args))
            if self.lenient:
                return self.mk_opaque("::".join(segs[-2:]), args)
            raise Unsupported("call of unknown function %s" % "::".join(segs))
        fv = self.eval(f, env)
        if isinstance(fv, Uninterp) and self.lenient:
            return self.mk_opaque("call", [fv] + args)
        return self.call_value(fv, args)

    def ev_mcall(self, e, env):
        recv = self.eval(e[1], env)
        name = e[2]
        if name in ("copy_from_slice", "fill") and len(e[3]) == 1 and e[1][0] == "index":
            # base[a..b].copy_from_slice(src) / .fill(v): write through to the underlying vector (a Python slice would be a copy)
            base = self.eval(e[1][1], env)
            rng = self.eval(e[1][2], env)
            if not (isinstance(base, list) and isinstance(rng, tuple) and rng and rng[0] == "range"):
                raise Unsupported("copy_from_slice target")
            lo = rng[1] or 0
            hi = rng[2] if rng[2] is not None else len(base)
            if hi > len(base) or lo > hi:
                raise RustPanic("range end index %d out of range for slice of length %d" % (hi, len(base)))
            src = self.eval(e[3][0], env)
            if name == "fill":
                for k in range(lo, hi):
                    base[k] = src
                return ()
            src = list(src)
            if len(src) != hi - lo:
                raise RustPanic("source slice length (%d) does not match destination slice length (%d)" % (len(src), hi - lo))
            base[lo:hi] = src
            return ()
        if name == "clone_into" and len(e[3]) == 1:
            # a.clone_into(&mut place)  ==  place = a.clone()
            target = e[3][0]
            while target[0] in ("ref", "deref"):
                target = target[1]
            self.assign(target, self._clone(recv), env)
            return ()
        # closures in arguments are evaluated lazily as Closure values
        args = [self.eval(a, env) for a in e[3]]
        # type information some models need: the turbofish of the call, or the annotation of the enclosing `let`
        self.call_type = (e[4] if len(e) > 4 and e[4] else None) or self.let_type
        try:
            return self.method(recv, name, args)
        finally:
            self.call_type = None

    # ---------------- methods ----------------
    def method(self, recv, name, args):
        recv = unref(recv)
        ty = getattr(recv, "ty", None)
        if (ty, name) in self.models:
            return self.models[(ty, name)](self, recv, args)
        if ty is not None and (ty, name) in self.prog.methods:
            return self.call_method(ty, name, recv, args)
        if (None, name) in self.models:
            return self.models[(None, name)](self, recv, args)
        if name == "into" and self.resolve_into and (isinstance(recv, str) or (is_sym(recv) and recv.sort() == z3.StringSort())) and self.call_type:
            # `let key: T = (&s as &str).into()`: the loaded `impl From<&str> for T`
            want = str(self.call_type).split("<")[0].split("::")[-1].strip()
            for tr, fn in self.prog.trait_methods.get((want, "from"), []):
                if tr.replace(" ", "") in ("From<&str>", "From<&'astr>", "From<String>"):
                    return self._invoke(fn, [recv], self_ty=want)
        if name == "into" and self.resolve_into and isinstance(recv, Struct):
            # value.into(): the loaded `impl From<S> for T` with S = the value's type (the target named by the let / turbofish when several exist)
            cands = [(t, fn) for (t, m), lst in self.prog.trait_methods.items() if m == "from" for tr, fn in lst
                     if re.sub(r"\s+", "", re.sub(r"<\s*'\w+\s*>|'\w+", "", tr)) in ("From<%s>" % recv.ty, "From<&%s>" % recv.ty)]
            if len(cands) > 1 and self.call_type:
                want = str(self.call_type).split("<")[0].split("::")[-1].strip()
                cands = [c for c in cands if c[0] == want] or cands
            if len(cands) == 1:
                return self._invoke(cands[0][1], [recv], self_ty=cands[0][0])
        if isinstance(recv, Uninterp):
            if self.lenient:
                return self.mk_opaque("." + name, [recv] + list(args))
            raise Unsupported("method %s on unmodelled value %r" % (name, recv))
        try:
            return self.std_method(recv, name, args)
        except Unsupported:
            if self.lenient:
                return self.mk_opaque("." + name, [recv] + list(args))
            raise

    def std_method(self, recv, name, args):
        # identity-like
        if name in ("clone", "to_owned", "to_string", "as_str", "as_ref", "as_mut", "borrow", "iter", "into_iter", "iter_mut",
                    "to_vec", "into", "as_slice", "deref", "cloned", "copied", "by_ref", "to_lowercase_noop", "as_bytes_noop",
                    "unwrap_or_default_noop", "into_owned", "as_deref"):
            if name in ("iter", "into_iter", "iter_mut") or isinstance(recv, (list, dict, tuple)) and name in ("cloned", "copied"):
                if isinstance(recv, dict) and not isinstance(recv, Struct):
                    return [(k, recv[k]) for k in sorted(recv)]
                if isinstance(recv, Enum) and recv.ty == "Option":
                    if name in ("cloned", "copied"):
                        return recv
                    return [recv.payload[0]] if recv.variant == "Some" else []
                if isinstance(recv, list):
                    return list(recv) if name in ("cloned", "copied", "into_iter") else recv
                if isinstance(recv, tuple) and recv and recv[0] == "range":
                    return self.iterate(recv)
            if name == "clone" and isinstance(recv, Struct):
                return Struct(recv.ty, {k: self._clone(v) for k, v in recv.items()})
            if name == "clone" and isinstance(recv, list):
                return [self._clone(v) for v in recv]
            if name == "clone" and isinstance(recv, dict):
                return {k: self._clone(v) for k, v in recv.items()}
            return recv
        if isinstance(recv, Enum) and recv.ty in ("Option", "Result"):
            return self.option_method(recv, name, args)
        if isinstance(recv, str) or (is_sym(recv) and recv.sort() == z3.StringSort()):
            return self.str_method(recv, name, args)
        if isinstance(recv, list):
            return self.list_method(recv, name, args)
        if isinstance(recv, dict) and not isinstance(recv, Struct):
            return self.map_method(recv, name, args)
        if isinstance(recv, Regex):
            if name == "is_match":
                return self.regex_match(recv, args[0])
            if name == "unwrap":
                return recv
        if isinstance(recv, tuple) and recv and recv[0] == "range":
            return self.list_method(self.iterate(recv), name, args)
        if isinstance(recv, bool) or (is_sym(recv) and z3.is_bool(recv)):
            if name == "then":
                raise Unsupported("bool::then")
        if isinstance(recv, int) or (is_sym(recv) and z3.is_bv(recv)):
            if name in ("max", "min"):
                c = self.cmp(">=" if name == "max" else "<=", recv, args[0])
                if isinstance(c, bool):
                    return recv if c else args[0]
                return z3.If(c, to_bv(recv), to_bv(args[0]))
            if name == "wrapping_add":
                return self.arith("+", recv, args[0]) if is_sym(recv) or is_sym(args[0]) else (recv + args[0]) & ((1 << 64) - 1)
        raise Unsupported("method %s on %r" % (name, recv if not isinstance(recv, (list, dict)) else type(recv).__name__))

    def _clone(self, v):
        if isinstance(v, Struct):
            return Struct(v.ty, {k: self._clone(x) for k, x in v.items()})
        if isinstance(v, list):
            return [self._clone(x) for x in v]
        if isinstance(v, dict):
            return {k: self._clone(x) for k, x in v.items()}
        return v

    def option_method(self, recv, name, args):
        some = recv.variant in ("Some", "Ok")
        val = recv.payload[0] if recv.payload else None
        if name in ("is_some", "is_ok"):
            return some
        if name in ("is_none", "is_err"):
            return not some
        if name in ("unwrap", "expect"):
            if not some:
                raise RustPanic("unwrap on %s" % recv.variant)
            return val
        if name == "unwrap_or":
            return val if some else args[0]
        if name == "unwrap_or_default":
            if some:
                return val
            raise Unsupported("unwrap_or_default on None/Err without type")
        if name == "unwrap_or_else":
            return val if some else self.call_value(args[0], [] if recv.ty == "Option" else [val])
        if name == "map":
            if some:
                return Enum(recv.ty, recv.variant, [self.call_value(args[0], [val])])
            return recv
        if name == "and_then":
            return self.call_value(args[0], [val]) if some else recv
        if name == "filter":
            if not some:
                return recv
            c = self.call_value(args[0], [val])
            return recv if (self.branch(c) if not isinstance(c, bool) else c) else NONE
        if name == "map_or":
            return self.call_value(args[1], [val]) if some else args[0]
        if name == "ok":
            return Some(val) if some else NONE
        if name == "ok_or" or name == "ok_or_else":
            return Ok(val) if some else Err(Uninterp("err", []))
        if name in ("cloned", "copied", "as_ref", "as_mut", "clone", "take"):
            return recv
        if name == "or":
            return recv if some else args[0]
        raise Unsupported("Option/Result method " + name)

    def str_method(self, recv, name, args):
        if name == "is_empty":
            return self.eq(recv, "")
        if name in ("eq", "eq_str"):
            return self.eq(recv, args[0])
        if name == "ne":
            return self.lnot(self.eq(recv, args[0]))
        if name == "len":
            if isinstance(recv, str):
                return len(recv.encode())
            return z3.Int2BV(z3.Length(recv), 64)
        if name in ("starts_with", "ends_with", "contains"):
            a = args[0]
            if isinstance(recv, str) and isinstance(a, str):
                return {"starts_with": recv.startswith, "ends_with": recv.endswith, "contains": recv.__contains__}[name](a)
            f = {"starts_with": z3.PrefixOf, "ends_with": z3.SuffixOf}.get(name)
            if f:
                return f(to_str(a), to_str(recv))
            return z3.Contains(to_str(recv), to_str(a))
        if name == "eq_ignore_ascii_case":
            a = args[0]
            if isinstance(recv, str) and isinstance(a, str):
                return recv.lower() == a.lower()
            conc = a if isinstance(a, str) else recv if isinstance(recv, str) else None
            symb = recv if conc is a else a
            if conc is None:
                raise Unsupported("eq_ignore_ascii_case on two symbolic strings")
            return z3.InRe(symb, ci_literal(conc))
        if name in ("trim", "to_lowercase", "to_uppercase", "to_ascii_lowercase") and isinstance(recv, str):
            return getattr(recv, {"trim": "strip", "to_lowercase": "lower", "to_uppercase": "upper", "to_ascii_lowercase": "lower"}[name])()
        if name == "split" and isinstance(recv, str) and args and isinstance(args[0], str) and args[0]:
            # an iterator over the pieces: `.next()` pops from the front (list_method)
            return recv.split(args[0])
        if name == "as_bytes":
            if isinstance(recv, str):
                return list(recv.encode())
        if name == "parse" and isinstance(recv, str):
            # <unsigned integer>::from_str: an optional '+', then ASCII digits only (no white space, no '_'); the width is not known here (u64 assumed)
            import re as _re
            if _re.fullmatch(r"\+?[0-9]+", recv) and int(recv) < (1 << 64):
                return Ok(int(recv))
            return Err(Uninterp("parse", [recv]))
        if name == "parse" and is_sym(recv) and z3.is_string(recv):
            t = z3.If(z3.PrefixOf(z3.StringVal("+"), recv), z3.SubString(recv, 1, z3.Length(recv) - 1), recv)
            valid = z3.And(z3.Length(t) > 0, z3.Length(t) < 19, z3.InRe(t, z3.Plus(z3.Range("0", "9"))))
            if self.branch(valid):
                return Ok(z3.Int2BV(z3.StrToInt(t), 64))
            return Err(Uninterp("parse", [recv]))
        raise Unsupported("str method %s on %r" % (name, recv))

    def list_method(self, recv, name, args):
        if name in ("sort_by_key", "sort_unstable_by_key", "sort_by_cached_key"):
            keys = [unref(self.call_value(args[0], [x])) for x in recv]
            if not all(isinstance(k_, (bool, int, str, float)) for k_ in keys):
                raise Unsupported("list method %s with a symbolic key" % name)
            order = sorted(range(len(recv)), key=lambda i_: keys[i_])   # stable, like slice::sort_by_key
            recv[:] = [recv[i_] for i_ in order]
            return ()
        if name in ("sort", "sort_unstable") and all(isinstance(x, (bool, int, str, float)) for x in recv):
            recv.sort()
            return ()
        if name == "split_off" and isinstance(args[0], int):
            # Vec::split_off(at): the vector keeps [0, at), the tail is returned
            at_ = args[0]
            if at_ > len(recv):
                raise RustPanic("`at` split index (is %d) should be <= len (is %d)" % (at_, len(recv)))
            tail_ = list(recv[at_:])
            del recv[at_:]
            return tail_
        if name == "swap_remove" and isinstance(args[0], int):
            i_ = args[0]
            if i_ >= len(recv):
                raise RustPanic("swap_remove index out of bounds")
            v_ = recv[i_]
            recv[i_] = recv[-1]
            recv.pop()
            return v_
        if name in ("split_at_mut", "split_at") and isinstance(args[0], int):
            mid = args[0]
            if mid > len(recv):
                raise RustPanic("mid > len in split_at")
            return (SliceView(recv, 0, mid), SliceView(recv, mid, len(recv)))
        if name == "copy_from_slice":
            src = list(args[0])
            if len(src) != len(recv):
                raise RustPanic("source slice length (%d) does not match destination slice length (%d)" % (len(src), len(recv)))
            for i_, x_ in enumerate(src):
                recv[i_] = x_
            return ()
        if name == "retain":
            keep = [x for x in list(recv) if self.branch(to_bool(self.call_value(args[0], [x])))]
            recv[:] = keep
            return ()
        if name == "len" or name == "count":
            return len(recv)
        if name == "is_empty":
            return len(recv) == 0
        if name == "contains":
            r = False
            for x in recv:
                r = self.lor(r, self.eq(x, args[0]))
            return r
        if name == "push" or name == "push_back" or name == "insert" and len(args) == 1:
            if name == "insert":
                # set semantics
                for x in recv:
                    c = self.eq(x, args[0])
                    if isinstance(c, bool):
                        if c:
                            return False
                    else:
                        raise Unsupported("set insert with symbolic equality")
                recv.append(args[0])
                try:
                    recv.sort()
                except TypeError:
                    pass
                return True
            recv.append(args[0])
            return ()
        if name == "remove":
            x = args[0]
            if isinstance(x, int) and not isinstance(x, bool) and not any(isinstance(y, int) for y in recv[:1]):
                # Vec::remove(index)
                if x >= len(recv):
                    raise RustPanic("removal index out of bounds")
                return recv.pop(x)
            for i, y in enumerate(recv):
                c = self.eq(y, x)
                if isinstance(c, bool):
                    if c:
                        del recv[i]
                        return True
                else:
                    raise Unsupported("set remove with symbolic equality")
            return False
        if name == "insert" and len(args) == 2:
            recv.insert(args[0], args[1])
            return ()
        if name == "pop":
            return Some(recv.pop()) if recv else NONE
        if name == "first" or name == "first_mut":
            return Some(recv[0]) if recv else NONE
        if name == "last" or name == "last_mut":
            return Some(recv[-1]) if recv else NONE
        if name == "get" or name == "get_mut":
            i = args[0]
            if is_sym(i):
                # bounded list: decide which element (forks)
                for k in range(len(recv)):
                    if self.branch(self.eq(i, k)):
                        return Some(recv[k])
                return NONE
            return Some(recv[i]) if 0 <= i < len(recv) else NONE
        if name == "enumerate":
            return [(i, x) for i, x in enumerate(recv)]
        if name == "rev":
            return list(reversed(recv))
        if name == "filter":
            out = []
            for x in recv:
                c = self.call_value(args[0], [x])
                if self.branch(c) if not isinstance(c, bool) else c:
                    out.append(x)
            return out
        if name == "map":
            return [self.call_value(args[0], [x]) for x in recv]
        if name == "filter_map":
            out = []
            for x in recv:
                r = self.call_value(args[0], [x])
                if r.variant == "Some":
                    out.append(r.payload[0])
            return out
        if name == "map_while":
            out = []
            for x in recv:
                r = self.call_value(args[0], [x])
                if not (isinstance(r, Enum) and r.variant == "Some"):
                    break
                out.append(r.payload[0])
            return out
        if name == "take_while":
            out = []
            for x in recv:
                if not self.branch(to_bool(self.call_value(args[0], [x]))):
                    break
                out.append(x)
            return out
        if name == "skip_while":
            out = []
            dropping = True
            for x in recv:
                if dropping and self.branch(to_bool(self.call_value(args[0], [x]))):
                    continue
                dropping = False
                out.append(x)
            return out
        if name == "for_each":
            for x in recv:
                self.call_value(args[0], [x])
            return ()
        if name in ("collect", "to_vec", "values", "values_mut"):
            return recv
        if name == "any":
            r = False
            for x in recv:
                r = self.lor(r, self.call_value(args[0], [x]))
            return r
        if name == "all":
            r = True
            for x in recv:
                r = self.land(r, self.call_value(args[0], [x]))
            return r
        if name == "position":
            for i, x in enumerate(recv):
                c = self.call_value(args[0], [x])
                if self.branch(c) if not isinstance(c, bool) else c:
                    return Some(i)
            return NONE
        if name == "find":
            for x in recv:
                c = self.call_value(args[0], [x])
                if self.branch(c) if not isinstance(c, bool) else c:
                    return Some(x)
            return NONE
        if name == "next":
            return Some(recv.pop(0)) if recv else NONE
        if name == "extend":
            recv.extend(self.iterate(args[0]))
            return ()
        if name == "binary_search_by_key":
            key, f = args
            lo, hi = 0, len(recv)
            # keys are concrete in the scenarios that use it (index entries of a log file)
            for i, x in enumerate(recv):
                kx = self.call_value(f, [x])
                c = self.eq(kx, key)
                if isinstance(c, bool) and c:
                    return Ok(i)
                if not isinstance(c, bool):
                    raise Unsupported("binary search over symbolic keys")
                lt = self.cmp("<", kx, key)
                if not isinstance(lt, bool):
                    raise Unsupported("binary search over symbolic keys")
                if not lt:
                    return Err(i)
            return Err(len(recv))
        if name == "zip":
            other = self.iterate(args[0])
            return [(a, b) for a, b in zip(recv, other)]
        if name == "fold":
            acc = args[0]
            for x in recv:
                acc = self.call_value(args[1], [acc, x])
            return acc
        if name in ("as_bytes", "bytes", "chars", "as_str", "to_owned", "as_ref"):
            return recv
        if name == "append":
            other = args[0]
            recv.extend(other)
            del other[:]
            return ()
        if name == "clear":
            del recv[:]
            return ()
        if name == "sum":
            r = 0
            for x in recv:
                r = self.arith("+", r, x)
            return r
        if name == "take":
            return recv[:args[0]]
        if name == "skip":
            return recv[args[0]:]
        if name == "chain":
            return recv + self.iterate(args[0])
        if name == "join":
            return args[0].join(recv)
        raise Unsupported("list method " + name)

    def map_method(self, recv, name, args):
        if name == "retain":
            for k_ in list(recv.keys()):
                if not self.branch(to_bool(self.call_value(args[0], [k_, recv[k_]]))):
                    del recv[k_]
            return ()
        if name in ("get", "get_mut"):
            k = args[0]
            if is_sym(k):
                raise Unsupported("symbolic map key")
            if name == "get_mut" and k in recv and (isinstance(recv[k], (int, float, bool, str)) or is_sym(recv[k])):
                # a scalar slot: writes through `*r = ..` must reach the map
                return Some(MutRef(recv, k))
            return Some(recv[k]) if k in recv else NONE
        if name == "contains_key":
            if is_sym(args[0]):
                r = False
                for k in recv:
                    r = self.lor(r, self.eq(k, args[0]))
                return r
            return args[0] in recv
        if name == "insert":
            if is_sym(args[0]):
                raise Unsupported("symbolic map key")
            old = recv.get(args[0])
            recv[args[0]] = args[1]
            return Some(old) if old is not None else NONE
        if name == "remove":
            if is_sym(args[0]):
                raise Unsupported("symbolic map key")
            old = recv.pop(args[0], None)
            return Some(old) if old is not None else NONE
        if name in ("values", "values_mut", "into_values"):
            return [recv[k] for k in sorted(recv)]
        if name in ("keys", "into_keys"):
            return sorted(recv)
        if name == "len":
            return len(recv)
        if name == "is_empty":
            return len(recv) == 0
        if name == "entry":
            return ("entry", recv, args[0])
        raise Unsupported("map method " + name)

    # ---------------- regex ----------------
    def regex_match(self, rx, s):
        import re as pyre
        if isinstance(s, str):
            return pyre.search(rx.pattern.replace("(?i)", ""), s, pyre.I if "(?i)" in rx.pattern else 0) is not None
        return z3.InRe(s, regex_to_z3(rx.pattern, anchored=False))


def ci_literal(text):
    parts = []
    for ch in text:
        if ch.isalpha():
            parts.append(z3.Union(z3.Re(ch.lower()), z3.Re(ch.upper())))
        else:
            parts.append(z3.Re(ch))
    if not parts:
        return z3.Re("")
    if len(parts) == 1:
        return parts[0]
    return z3.Concat(*parts)


ANYCHAR_NO_NL = None


def any_char():
    # regex crate: '.' matches any char except \n
    return z3.Union(z3.Range(chr(0), chr(9)), z3.Range(chr(11), chr(0x7e)), z3.Range(chr(0x7f), chr(0xff)))


def regex_to_z3(pat, anchored=False):
    """translate the regex subset used by /repo (literals, '.', '*', '+', '?', groups with alternation,
    escapes \\. \\w \\d, (?i), character classes of literals/ranges, ^ and $ at the ends) to a z3 RegLan.
    Unanchored search semantics (is_match) = Sigma* r Sigma* (Sigma includes newline)."""
    ci = False
    if pat.startswith("(?i)"):
        ci = True
        pat = pat[4:]
    start_anchor = pat.startswith("^")
    if start_anchor:
        pat = pat[1:]
    end_anchor = pat.endswith("$") and not pat.endswith("\\$")
    if end_anchor:
        pat = pat[:-1]
    pos = [0]

    def lit(ch):
        if ci and ch.isalpha():
            return z3.Union(z3.Re(ch.lower()), z3.Re(ch.upper()))
        return z3.Re(ch)

    def parse_alt():
        alts = [parse_seq()]
        while pos[0] < len(pat) and pat[pos[0]] == "|":
            pos[0] += 1
            alts.append(parse_seq())
        return alts[0] if len(alts) == 1 else z3.Union(*alts)

    def parse_seq():
        items = []
        while pos[0] < len(pat) and pat[pos[0]] not in "|)":
            items.append(parse_rep())
        if not items:
            return z3.Re("")
        return items[0] if len(items) == 1 else z3.Concat(*items)

    def parse_rep():
        a = parse_atom()
        while pos[0] < len(pat) and pat[pos[0]] in "*+?":
            c = pat[pos[0]]
            pos[0] += 1
            if pos[0] < len(pat) and pat[pos[0]] == "?":
                pos[0] += 1  # lazy quantifier: same language
            a = z3.Star(a) if c == "*" else z3.Plus(a) if c == "+" else z3.Option(a)
        return a

    def parse_atom():
        c = pat[pos[0]]
        if c == "(":
            pos[0] += 1
            if pat.startswith("?:", pos[0]):
                pos[0] += 2
            elif pat.startswith("?", pos[0]):
                raise Unsupported("regex group flags in %r" % pat)
            r = parse_alt()
            if pos[0] >= len(pat) or pat[pos[0]] != ")":
                raise Unsupported("regex: unbalanced group in %r" % pat)
            pos[0] += 1
            return r
        if c == ".":
            pos[0] += 1
            return any_char()
        if c == "[":
            j = pat.index("]", pos[0] + 1)
            body = pat[pos[0] + 1:j]
            pos[0] = j + 1
            neg = body.startswith("^")
            if neg:
                body = body[1:]
            parts = []
            i = 0
            while i < len(body):
                if i + 2 < len(body) and body[i + 1] == "-":
                    lo, hi = body[i], body[i + 2]
                    parts.append(z3.Range(lo, hi))
                    if ci and lo.isalpha():
                        parts.append(z3.Range(lo.swapcase(), hi.swapcase()))
                    i += 3
                elif body[i] == "\\":
                    parts.append(escape_class(body[i + 1]))
                    i += 2
                else:
                    parts.append(lit(body[i]))
                    i += 1
            u = parts[0] if len(parts) == 1 else z3.Union(*parts)
            if neg:
                return z3.Intersect(z3.Complement(u), z3.AllChar(z3.ReSort(z3.StringSort())))
            return u
        if c == "\\":
            pos[0] += 2
            return escape_class(pat[pos[0] - 1])
        if c in "{}^$":
            raise Unsupported("regex construct %r in %r" % (c, pat))
        pos[0] += 1
        return lit(c)

    def escape_class(ch):
        if ch == "w":
            return z3.Union(z3.Range("a", "z"), z3.Range("A", "Z"), z3.Range("0", "9"), z3.Re("_"))
        if ch == "d":
            return z3.Range("0", "9")
        if ch == "s":
            return z3.Union(z3.Re(" "), z3.Re("\t"), z3.Re("\n"), z3.Re("\r"))
        if ch.isalnum():
            raise Unsupported("regex escape \\%s" % ch)
        return z3.Re(ch)

    r = parse_alt()
    if pos[0] != len(pat):
        raise Unsupported("regex: trailing input in %r" % pat)
    sigma_star = z3.Full(z3.ReSort(z3.StringSort()))
    if anchored:
        return r
    parts = []
    if not start_anchor:
        parts.append(sigma_star)
    parts.append(r)
    if not end_anchor:
        parts.append(sigma_star)
    return parts[0] if len(parts) == 1 else z3.Concat(*parts)
