"""C01 — the configuration component across a compaction + restart: what ConfigActor::build_snapshot writes, loaded back
through RaftDataHandler::load_snapshot into a fresh ConfigActor, serves the same.

From source: ConfigActor::{set_config, del_config, build_snapshot, inner_set_config}, Handler<ConfigCmd> (GET, SetFullValue,
InnerSetLastId), ConfigValue / ConfigValueDO / ConfigHistoryItem(DO) conversions (src/config/core.rs, model.rs),
RaftDataHandler::load_snapshot (src/raft/filestore/raftdata.rs, arms of the config and sequence trees), TenantIndex,
SimpleSequence. Environment: the snapshot writer is a recording sink; ConfigValueDO::to_bytes / from_bytes are a copy (the prost
codec is outside); id_to_bin / bin_to_id are the identity (their agreement for every u64 is Kani harness k05_2_id_bin);
get_md5(x) = "md5:" ++ x.

Scenario: every history of N publishes / removes on two keys (contents, types, descriptions arbitrary strings, operation
times symbolic and increasing), then a snapshot is built and loaded into a fresh actor.
Oracle: for both keys GET answers the same (found / not found; content, md5, type, description, last-modified time), the change
history (ids, contents, times) is the same, the listing index lists the same keys, and the history-id sequence of the restored
actor continues at the same point.
"""
import copy
import time

import z3

from . import rseval, rsparse
from .common import load_program
from .c09 import KEYS, Sink, make_interp, new_actor, opt
from .c11 import pick
from .rseval import Struct, Enum, NONE, Some, Uninterp, Ok

FILES = ["src/config/core.rs", "src/config/config_index.rs", "src/config/model.rs", "src/common/sequence_utils.rs", "src/common/string_utils.rs",
         "src/common/model/privilege.rs", "src/namespace/mod.rs", "src/common/constant.rs", "src/raft/filestore/raftdata.rs", "src/config/config_type.rs"]


class Writer:
    def __init__(self):
        self.ty = "WriterAddr"
        self.records = []


class ConfigAddr:
    def __init__(self, actor):
        self.ty = "ConfigAddr"
        self.actor = actor


def run(tier, seed):
    t0 = time.time()
    nops = 3 if tier == "quick" else 4
    ob = {"engine": "smt", "harness": "s01_5_config_snapshot_roundtrip", "encodes_files": FILES, "queries": 0, "solver_s": 0.0, "distinct": 0,
          "encodes": ["ConfigActor::{set_config,del_config,build_snapshot,inner_set_config}", "Handler<ConfigCmd>::handle (GET, SetFullValue, InnerSetLastId)",
                      "From<ConfigValue> for ConfigValueDO", "From<ConfigValueDO> for ConfigValue", "ConfigHistoryItem <-> ConfigHistoryItemDO", "RaftDataHandler::load_snapshot (config / sequence trees)",
                      "TenantIndex::{insert_config,remove_config}", "SimpleSequence"],
          "bound": "every history of %d publishes / removes on two keys (arbitrary contents, optional type (json / yaml / text) and description, increasing symbolic times), then build_snapshot -> load_snapshot into a fresh actor" % nops}
    try:
        prog = load_program(FILES)
        it = make_interp(prog)
        it.resolve_into = True
        it.fn_models["id_to_bin"] = lambda interp, args: args[0]
        it.fn_models["bin_to_id"] = lambda interp, args: args[0]
        it.fn_models["ConfigValueDO::from_bytes"] = lambda interp, args: Ok(copy.deepcopy(args[0]))
        it.models[("ConfigValueDO", "to_bytes")] = lambda interp, recv, args: Ok(copy.deepcopy(recv))
        it.fn_models["String::from_utf8"] = lambda interp, args: Ok(args[0])
        it.fn_models["String::from_utf8_lossy"] = lambda interp, args: args[0]
        it.models[(None, "as_bytes")] = lambda interp, recv, args: recv
        handle = prog.trait_method("ConfigActor", "handle", "ConfigCmd")
        if handle is None:
            raise rsparse.Unsupported("Handler<ConfigCmd> for ConfigActor not found")
        load_snapshot = prog.methods.get(("RaftDataHandler", "load_snapshot"))
        if load_snapshot is None:
            raise rsparse.Unsupported("RaftDataHandler::load_snapshot not found")

        def writer_do_send(interp, recv, args):
            msg = args[0]
            payload = msg.payload if isinstance(msg, Enum) else getattr(msg, "args", None)
            recv.records.append(payload[0] if isinstance(payload, (list, tuple)) else payload)
            return ()
        it.models[("WriterAddr", "do_send")] = writer_do_send

        def config_send(interp, recv, args):
            r = interp._invoke(handle, [recv.actor, args[0], "ctx"], self_ty="ConfigActor")
            return Ok(r)
        it.models[("ConfigAddr", "send")] = config_send
        sym = {"kind": [z3.Bool("op%d_is_publish" % i) for i in range(nops)], "k": [z3.Bool("op%d_key2" % i) for i in range(nops)],
               "c": [z3.String("content%d" % i) for i in range(nops)], "hm": [z3.Bool("op%d_has_type_and_desc" % i) for i in range(nops)],
               "t": [z3.BitVec("type%d" % i, 8) for i in range(nops)], "d": [z3.String("desc%d" % i) for i in range(nops)],
               "time": [z3.BitVec("op_time%d" % i, 64) for i in range(nops)]}

        def observe(actor):
            obs = {"get": [], "hist": []}
            for kidx in range(2):
                r = it._invoke(handle, [actor, Enum("ConfigCmd", "GET", [KEYS[kidx]]), "ctx"], self_ty="ConfigActor")
                obs["get"].append(r)
                v = actor["cache"].get(KEYS[kidx])
                obs["hist"].append([(h["id"], h["content"], h["modified_time"]) for h in v["histories"]] if v is not None else None)
            ti = actor["tenant_index"]
            obs["index"] = sorted((t, g, d) for t, ci in ti["tenant_group"].items() for g, st in ci["group_data"].items() for d in st)
            obs["seq_end"] = it.call_method("SimpleSequence", "get_end_id", actor["sequence"], [])
            return obs

        def thunk():
            actor = new_actor(it)
            trace = []
            for i in range(nops):
                kidx = 1 if it.branch(sym["k"][i]) else 0
                if it.branch(sym["kind"][i]):
                    has_m = it.branch(sym["hm"][i])
                    param = Struct("SetConfigParam", {
                        "key": KEYS[kidx], "value": sym["c"][i], "config_type": Some(pick(it, sym["t"][i], ["json", "yaml", "text"])) if has_m else NONE, "desc": Some(sym["d"][i]) if has_m else NONE,
                        "history_id": i + 1, "history_table_id": Some(100) if i == 0 else NONE, "op_time": sym["time"][i], "op_user": NONE})
                    it.call_method("ConfigActor", "set_config", actor, [param])
                    trace.append(("publish", kidx, i))
                else:
                    it.call_method("ConfigActor", "del_config", actor, [KEYS[kidx]])
                    trace.append(("remove", kidx, i))
            before = observe(actor)
            w = Writer()
            r = it.call_method("ConfigActor", "build_snapshot", actor, [w])
            if not (isinstance(r, Enum) and r.variant == "Ok"):
                return ("build-failed", trace, None, None, 0)
            fresh = new_actor(it)
            handler = Struct("RaftDataHandler", {"config": ConfigAddr(fresh), "table": Sink("table"), "namespace": Sink("namespace"), "sequence_db": Sink("sequence_db"),
                                                 "mcp_manager": Sink("mcp"), "naming_actor": Sink("naming"), "direct_cache_manager": Sink("cache")})
            for rec in w.records:
                rr = it._invoke(load_snapshot, [handler, copy.deepcopy(rec)], self_ty="RaftDataHandler")
                if not (isinstance(rr, Enum) and rr.variant == "Ok"):
                    return ("load-failed", trace, None, None, len(w.records))
            after = observe(fresh)
            return ("ok", trace, before, after, len(w.records))
        times_increase = [z3.ULT(sym["time"][i], sym["time"][i + 1]) for i in range(nops - 1)] + [z3.UGT(sym["time"][0], 0), z3.ULT(sym["time"][-1], 1 << 62)]
        it.solver.push()
        it.solver.add(*times_increase)
        paths = it.explore(thunk, max_paths=200000)
        it.solver.pop()
        s = z3.Solver()
        s.set("timeout", 60000)
        s.add(*times_increase)
        nq = 0
        viol = None
        covers = {"a key published twice with different contents is in the snapshot": 0, "a removed key is not in the snapshot": 0, "two keys in the snapshot": 0}
        bad = {}

        def ask(pc, cond, msg, trace):
            nonlocal nq
            if cond is False:
                return None
            s.push()
            s.add(*pc)
            if cond is not True:
                s.add(cond)
            nq += 1
            out = None
            if s.check() == z3.sat:
                m = s.model()
                hist = []
                for ev in trace:
                    if ev[0] == "publish":
                        i = ev[2]
                        hist.append({"op": "publish", "key": ev[1], "content": m.eval(sym["c"][i], model_completion=True).as_string(),
                                     "op_time": m.eval(sym["time"][i], model_completion=True).as_long(), "with_type_and_desc": z3.is_true(m.eval(sym["hm"][i], model_completion=True))})
                    else:
                        hist.append({"op": "remove", "key": ev[1]})
                out = {"message": msg, "tags": ["config-snapshot-roundtrip"], "model": {"history": hist}}
            s.pop()
            return out

        def neq(a, b):
            try:
                c = it.eq(a, b)
            except Exception:
                raise rsparse.Unsupported("cannot compare %r with %r" % (a, b))
            if isinstance(c, bool):
                return not c
            return z3.Not(c)
        for pc, rr, exc in paths:
            if exc is not None:
                viol = {"message": "panic in the config component: %s" % exc, "tags": ["panic"], "model": {}}
                break
            status, trace, before, after, nrec = rr
            if status != "ok":
                bad[status] = bad.get(status, 0) + 1
                continue
            pubs = {}
            for ev in trace:
                if ev[0] == "publish":
                    pubs[ev[1]] = pubs.get(ev[1], 0) + 1
                else:
                    pubs[ev[1]] = 0
            if any(v >= 2 for v in pubs.values()):
                covers["a key published twice with different contents is in the snapshot"] += 1
            if any(ev[0] == "remove" for ev in trace) and nrec <= 2:
                covers["a removed key is not in the snapshot"] += 1
            if nrec >= 3:
                covers["two keys in the snapshot"] += 1
            for kidx in range(2):
                gb, ga = before["get"][kidx], after["get"][kidx]
                vb = gb.payload[0] if isinstance(gb, Enum) and gb.payload else gb
                va = ga.payload[0] if isinstance(ga, Enum) and ga.payload else ga
                fb = isinstance(vb, Enum) and vb.variant == "Data"
                fa = isinstance(va, Enum) and va.variant == "Data"
                kname = "%s/%s/%s" % (KEYS[kidx]["tenant"], KEYS[kidx]["group"], KEYS[kidx]["data_id"])
                if fb != fa:
                    viol = ask(pc, True, "key %s is %s before the stop and %s after a restart from the snapshot" % (kname, "served" if fb else "not found", "served" if fa else "not found"), trace)
                elif fb:
                    for field, label in (("value", "content"), ("md5", "md5"), ("config_type", "type"), ("desc", "description"), ("last_modified", "last-modified time")):
                        viol = ask(pc, neq(vb.payload[field], va.payload[field]), "key %s: the %s served after a restart from the snapshot differs from the one served before the stop" % (kname, label), trace)
                        if viol:
                            break
                if viol:
                    break
                hb, ha = before["hist"][kidx], after["hist"][kidx]
                if (hb is None) != (ha is None) or (hb is not None and len(hb) != len(ha)):
                    viol = ask(pc, True, "key %s: the change history has %s entries before the stop and %s after a restart from the snapshot"
                               % (kname, len(hb) if hb is not None else None, len(ha) if ha is not None else None), trace)
                elif hb is not None:
                    for x, y in zip(hb, ha):
                        viol = ask(pc, z3.Or(*[z3.BoolVal(c) if isinstance(c, bool) else c for c in (neq(x[0], y[0]), neq(x[1], y[1]), neq(x[2], y[2]))]),
                                   "key %s: a change-history entry (id, content, time) differs after a restart from the snapshot" % kname, trace)
                        if viol:
                            break
                if viol:
                    break
            if not viol and before["index"] != after["index"]:
                viol = ask(pc, True, "the listing index holds %s before the stop and %s after a restart from the snapshot" % (before["index"], after["index"]), trace)
            if not viol:
                viol = ask(pc, neq(before["seq_end"], after["seq_end"]), "the history-id sequence continues at another point after a restart from the snapshot", trace)
            if viol:
                break
        ob["queries"] = nq + it.queries
        ob["solver_s"] = round(time.time() - t0, 1)
        ob["sample"] = {"paths_explored": len(paths), "covers": covers, "paths_not_reaching_the_comparison": bad, "opaque_symbols": sorted(it.opaque_seen)[:20]}
        missing = [c for c, k in covers.items() if k == 0]
        if viol:
            ob.update({"verdict": "violation", "message": viol["message"], "tags": viol["tags"], "counterexample": viol["model"]})
        elif missing or bad:
            ob.update({"verdict": "inconclusive", "message": "reachability witness never reached: %s %s" % (missing, bad)})
        else:
            ob.update({"verdict": "discharged", "distinct": nq})
    except rsparse.Unsupported as e:
        ob.update({"verdict": "inconclusive", "message": "encoder met source it cannot encode: %s" % e})
    return ob


if __name__ == "__main__":
    import sys
    ob = run(sys.argv[1] if len(sys.argv) > 1 else "quick", 0)
    print(ob["harness"], ob.get("verdict"), str(ob.get("message", ""))[:900], str(ob.get("counterexample"))[:900], ob.get("queries"), ob.get("solver_s"), str(ob.get("sample"))[:800])
