"""C07 inside a component: the configuration actor on the leader and on a follower after the same committed requests.

The leader proposes a publish with the history id and (at a batch boundary) the history table id it takes from its own
SimpleSequence::next_state (Handler<ConfigAsyncCmd>), then the committed request reaches EVERY replica as
ConfigRaftCmd::ConfigAdd -> ConfigActor::set_config; a follower (and a node that replays its log) sees only the committed
request. Handler<ConfigRaftCmd>::handle, set_config, del_config, SimpleSequence::{next_state, set_valid_last_id, get_end_id}
and the GET arm are evaluated from source on two actor states; the batch size of the sequence is 2 so that batch boundaries
fall inside a short history.

Oracle after every committed request: both replicas answer GET for both keys alike (found, content, md5, description,
last-modified), hold the same change history and listing index, and their history-id sequences stand at the same point
(get_end_id - the value a snapshot records and a new leader continues from).
"""
import time

import z3

from . import rseval, rsparse
from .common import load_program
from .c09 import KEYS, make_interp, new_actor
from .rseval import Struct, Enum, NONE, Some, Uninterp, Ok

FILES = ["src/config/core.rs", "src/config/config_index.rs", "src/config/model.rs", "src/common/sequence_utils.rs", "src/common/string_utils.rs",
         "src/common/model/privilege.rs", "src/namespace/mod.rs", "src/common/constant.rs", "src/config/config_type.rs"]
KEY_STR = ["d1\x02g", "d2\x02g\x02t1"]


def run(tier, seed):
    t0 = time.time()
    nops = 3 if tier == "quick" else 4
    ob = {"engine": "smt", "harness": "s07_config_component_paths", "encodes_files": FILES, "queries": 0, "solver_s": 0.0, "distinct": 0,
          "encodes": ["Handler<ConfigRaftCmd>::handle (ConfigAdd, ConfigRemove)", "ConfigActor::{set_config,del_config}", "SimpleSequence::{next_state,set_valid_last_id,get_end_id}",
                      "Handler<ConfigCmd>::handle (GET)"],
          "bound": "every history of %d committed publishes / removes on two keys (contents arbitrary strings), history ids from the leader's own sequence (batch size 2), "
                   "applied on a leader replica and a follower replica" % nops}
    try:
        prog = load_program(FILES)
        it = make_interp(prog)
        it.resolve_into = True
        raft_h = prog.trait_method("ConfigActor", "handle", "ConfigRaftCmd")
        get_h = prog.trait_method("ConfigActor", "handle", "ConfigCmd")
        if raft_h is None or get_h is None:
            raise rsparse.Unsupported("handlers of ConfigActor not found")
        kind = [z3.Bool("op%d_is_publish" % i) for i in range(nops)]
        k2 = [z3.Bool("op%d_key2" % i) for i in range(nops)]
        content = [z3.String("content%d" % i) for i in range(nops)]

        def actor():
            a = new_actor(it)
            a["sequence"] = it._invoke(prog.methods[("SimpleSequence", "new")], [0, 2], self_ty="SimpleSequence")
            return a

        def observe(a):
            obs = {"get": [], "hist": []}
            for kidx in range(2):
                obs["get"].append(it._invoke(get_h, [a, Enum("ConfigCmd", "GET", [KEYS[kidx]]), "ctx"], self_ty="ConfigActor"))
                v = a["cache"].get(KEYS[kidx])
                obs["hist"].append([(h["id"], h["content"], h["modified_time"]) for h in v["histories"]] if v is not None else None)
            ti = a["tenant_index"]
            obs["index"] = sorted((t, g, d) for t, ci in ti["tenant_group"].items() for g, st in ci["group_data"].items() for d in st)
            obs["seq_end"] = it.call_method("SimpleSequence", "get_end_id", a["sequence"], [])
            return obs

        def thunk():
            leader, follower = actor(), actor()
            trace = []
            steps = []
            for i in range(nops):
                kidx = 1 if it.branch(k2[i]) else 0
                if it.branch(kind[i]):
                    r = it.call_method("SimpleSequence", "next_state", leader["sequence"], [])
                    hid, tid = r.payload[0]
                    trace.append(("publish", kidx, i, hid, tid))
                    for a in (leader, follower):
                        msg = Enum("ConfigRaftCmd", "ConfigAdd", {"key": KEY_STR[kidx], "value": content[i], "config_type": NONE, "desc": NONE, "history_id": hid,
                                                                 "history_table_id": tid, "op_time": 100 + i, "op_user": NONE})
                        it._invoke(raft_h, [a, msg, "ctx"], self_ty="ConfigActor")
                else:
                    trace.append(("remove", kidx, i))
                    for a in (leader, follower):
                        it._invoke(raft_h, [a, Enum("ConfigRaftCmd", "ConfigRemove", {"key": KEY_STR[kidx]}), "ctx"], self_ty="ConfigActor")
                steps.append((observe(leader), observe(follower)))
            return trace, steps
        paths = it.explore(thunk, max_paths=200000)
        s = z3.Solver()
        s.set("timeout", 60000)
        nq = 0
        viol = None
        covers = {"a publish with the stored content that carries a history table id": 0, "a batch boundary inside the history": 0}

        def neq(a, b):
            c = it.eq(a, b)
            return (not c) if isinstance(c, bool) else z3.Not(c)

        def ask(pc, cond, msg, trace):
            nonlocal nq
            if cond is False:
                return None
            s.push()
            s.add(*pc)
            if cond is not True:
                s.add(cond)
            nq += 1
            out = None
            if s.check() == z3.sat:
                m = s.model()
                hist = []
                for ev in trace:
                    if ev[0] == "publish":
                        tid = ev[4]
                        hist.append({"op": "publish", "key": ev[1], "content": m.eval(content[ev[2]], model_completion=True).as_string(), "history_id": ev[3],
                                     "history_table_id": tid.payload[0] if isinstance(tid, Enum) and tid.variant == "Some" else None})
                    else:
                        hist.append({"op": "remove", "key": ev[1]})
                out = {"message": msg, "tags": ["config-replicas-differ"], "model": {"history": hist}}
            s.pop()
            return out
        for pc, rr, exc in paths:
            if exc is not None:
                viol = {"message": "panic in the config component: %s" % exc, "tags": ["panic"], "model": {}}
                break
            trace, steps = rr
            tids = [ev for ev in trace if ev[0] == "publish" and isinstance(ev[4], Enum) and ev[4].variant == "Some"]
            if len(tids) >= 2:
                covers["a batch boundary inside the history"] += 1
            for ev in tids[1:]:
                # a later publish of the same key with a table id: its content may equal the stored one on this path (symbolic)
                if any(p[0] == "publish" and p[1] == ev[1] and p[2] < ev[2] for p in trace):
                    covers["a publish with the stored content that carries a history table id"] += 1
            for n_, (lo, fo) in enumerate(steps):
                where = "after committed request %d" % (n_ + 1)
                for kidx in range(2):
                    gl, gf = lo["get"][kidx], fo["get"][kidx]
                    vl = gl.payload[0] if isinstance(gl, Enum) and gl.payload else gl
                    vf = gf.payload[0] if isinstance(gf, Enum) and gf.payload else gf
                    fl = isinstance(vl, Enum) and vl.variant == "Data"
                    ff = isinstance(vf, Enum) and vf.variant == "Data"
                    if fl != ff:
                        viol = ask(pc, True, "%s: key %d is %s on the leader and %s on the follower" % (where, kidx, "served" if fl else "not found", "served" if ff else "not found"), trace)
                    elif fl:
                        for field in ("value", "md5", "desc", "last_modified"):
                            viol = ask(pc, neq(vl.payload[field], vf.payload[field]), "%s: key %d: the %s served by the follower differs from the leader's" % (where, kidx, field), trace)
                            if viol:
                                break
                    if viol:
                        break
                    hl, hf = lo["hist"][kidx], fo["hist"][kidx]
                    if (hl is None) != (hf is None) or (hl is not None and len(hl) != len(hf)):
                        viol = ask(pc, True, "%s: key %d: the change history differs in length between leader and follower" % (where, kidx), trace)
                    elif hl is not None:
                        for x, y in zip(hl, hf):
                            viol = ask(pc, z3.Or(*[z3.BoolVal(c) if isinstance(c, bool) else c for c in (neq(x[0], y[0]), neq(x[1], y[1]), neq(x[2], y[2]))]),
                                       "%s: key %d: a change-history entry differs between leader and follower" % (where, kidx), trace)
                            if viol:
                                break
                    if viol:
                        break
                if not viol and lo["index"] != fo["index"]:
                    viol = ask(pc, True, "%s: the listing index differs between leader and follower" % where, trace)
                if not viol:
                    viol = ask(pc, neq(lo["seq_end"], fo["seq_end"]),
                               "%s: the history-id sequence of the follower stands at another point than the leader's: after a leader change (or a restart from its snapshot) history ids are issued again" % where, trace)
                if viol:
                    break
            if viol:
                break
        ob["queries"] = nq + it.queries
        ob["solver_s"] = round(time.time() - t0, 1)
        ob["sample"] = {"paths_explored": len(paths), "covers": covers, "opaque_symbols": sorted(it.opaque_seen)[:20]}
        missing = [c for c, k in covers.items() if k == 0]
        if viol:
            ob.update({"verdict": "violation", "message": viol["message"], "tags": viol["tags"], "counterexample": viol["model"]})
        elif missing:
            ob.update({"verdict": "inconclusive", "message": "reachability witness never reached: %s" % missing})
        else:
            ob.update({"verdict": "discharged", "distinct": nq})
    except rsparse.Unsupported as e:
        ob.update({"verdict": "inconclusive", "message": "encoder met source it cannot encode: %s" % e})
    return ob


if __name__ == "__main__":
    import sys
    ob = run(sys.argv[1] if len(sys.argv) > 1 else "quick", 0)
    print(ob["harness"], ob.get("verdict"), str(ob.get("message", ""))[:900], str(ob.get("counterexample"))[:900], ob.get("queries"), ob.get("solver_s"), str(ob.get("sample"))[:800])
