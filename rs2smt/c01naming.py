"""C01 — persistent service instances survive a restart from the snapshot: the naming component's snapshot records.

NamingActor::{process_naming_raft_request, build_snapshot, load_snapshot_record, update_instance, remove_instance} (src/naming/core.rs),
From<InstanceRegisterParam> for Instance (model/actor_model.rs), Instance::{to_do, from_do, init, generate_key} (model.rs),
Service::{update_instance, remove_instance} (service.rs) and the generated message code of InstanceDo (pb/data_object.rs) are
evaluated from source; quick_protobuf's Writer / BytesReader primitives (varint, string, bool, fixed32 float, map entry) are the
models of rs2smt/iomodel.py; the snapshot writer is a recording sink.

Scenario: every history of N committed naming requests on two addresses of one service over
  register / update (weight an ARBITRARY f32 that is not NaN, enabled / healthy symbolic, metadata empty or {k: v},
                     cluster name absent or given, app name absent or given)
  remove
then the live actor's table is written to snapshot records and every record is loaded into a fresh actor (compaction + restart,
or a node caught up by snapshot).
Oracle: the restarted actor holds exactly the persistent instances of the live one, each with the same address, weight, enabled /
healthy / ephemeral flags, metadata, cluster name, app name, namespace, group and service name.
"""
import copy
import time

import z3

from . import rseval, rsparse, iomodel
from .c11 import pick
from .c11actor import load as load_actor, make_interp, new_actor, SKEY, skey
from .common import concretize
from .rseval import Struct, Enum, NONE, Some, Ok, Uninterp

FILES = ["src/naming/core.rs", "src/naming/model.rs", "src/naming/model/actor_model.rs", "src/naming/service.rs", "src/common/pb/data_object.rs"]
FIELDS = ["ip", "port", "weight", "enabled", "healthy", "ephemeral", "metadata", "cluster_name", "app_name", "namespace_id", "group_name", "service_name"]


class Writer:
    def __init__(self):
        self.ty = "WriterAddr"
        self.records = []


def load():
    import os
    from .common import REPO
    prog = load_actor()
    for f in ("src/naming/model/actor_model.rs", "src/common/pb/data_object.rs", "src/common/constant.rs"):
        prog.add_items(rsparse.parse_file(os.path.join(REPO, f)), f)
    return prog


def run(tier, seed):
    t0 = time.time()
    n = 2 if tier == "quick" else 3
    ob = {"engine": "smt", "harness": "s01_6_naming_snapshot_roundtrip", "encodes_files": FILES, "queries": 0, "solver_s": 0.0, "distinct": 0,
          "encodes": ["NamingActor::{process_naming_raft_request,build_snapshot,load_snapshot_record,update_instance,remove_instance}", "From<InstanceRegisterParam> for Instance",
                      "Instance::{to_do,from_do}", "MessageWrite / MessageRead for InstanceDo", "Service::{update_instance,remove_instance}"],
          "bound": "every history of %d committed naming requests (register / update with an arbitrary non-NaN f32 weight, symbolic enabled / healthy flags, metadata {} or {k: v}, "
                   "cluster / app name absent or given; remove) on two addresses (flags / metadata / names symbolic in the last request, address + kind + weight in the others), then snapshot build + load into a fresh actor" % n}
    try:
        prog = load()
        it = make_interp(prog)
        it.resolve_into = True
        iomodel.install_protobuf(it, prog)
        it.fn_models["Vec::new"] = lambda interp, args: []

        def writer_do_send(interp, recv, args):
            msg = args[0]
            payload = msg.payload if isinstance(msg, Enum) else getattr(msg, "args", None)
            recv.records.append(payload[0] if isinstance(payload, (list, tuple)) else payload)
            return ()
        it.models[("WriterAddr", "do_send")] = writer_do_send
        opv = [z3.BitVec("op%d" % i, 8) for i in range(n)]
        portv = [z3.Bool("op%d_second_address" % i) for i in range(n)]
        wv = [z3.FP("weight%d" % i, z3.Float32()) for i in range(n)]
        env_ = [z3.Bool("enabled%d" % i) for i in range(n)]
        hv = [z3.Bool("healthy%d" % i) for i in range(n)]
        mv = [z3.Bool("has_metadata%d" % i) for i in range(n)]
        cv = [z3.Bool("has_cluster%d" % i) for i in range(n)]
        av = [z3.Bool("has_app%d" % i) for i in range(n)]
        rng = [z3.Not(z3.fpIsNaN(w)) for w in wv]
        covers = {"an instance is restored from the snapshot": 0, "a removed instance is absent after the restart": 0, "an instance with metadata is restored": 0}
        ops_box = [[]]

        def possible(cond):
            if isinstance(cond, bool):
                return cond
            cond = z3.simplify(cond)
            if z3.is_false(cond):
                return False
            if it._feasible(cond):
                it.pc.append(cond)
                return True
            return False

        def instances(actor):
            svc = actor["service_map"].get(SKEY)
            return dict(svc["instances"]) if svc is not None else {}

        def thunk():
            r = inner()
            return r + (list(ops_box[0]),)

        def differs(a, b):
            """a z3 / Python condition: the two field values differ"""
            if isinstance(a, dict) or isinstance(b, dict):
                return dict(a) != dict(b)
            if (rseval.is_sym(a) and z3.is_fp(a)) or (rseval.is_sym(b) and z3.is_fp(b)) or isinstance(a, float) or isinstance(b, float):
                return z3.Not(z3.fpEQ(it.to_fp(a), it.to_fp(b)))
            e = it.eq(a, b)
            return (not e) if isinstance(e, bool) else z3.Not(e)

        def inner():
            actor = new_actor(it)
            rec = ops_box[0] = []
            removed = False
            for i in range(n):
                op = pick(it, opv[i], ["register", "update", "remove"])
                port = 2 if it.branch(portv[i]) else 1
                if op == "remove":
                    key = Struct("InstanceKey", {"namespace_id": "public", "group_name": "g", "service_name": "svc", "ip": "1.1.1.1", "port": port})
                    rec.append({"op": "remove", "port": port})
                    if skey(port) in instances(actor):
                        removed = True
                    it.call_method("NamingActor", "process_naming_raft_request", actor, [Enum("NamingRaftReq", "RemoveInstance", [key])])
                    continue
                # the last request of the history has every field symbolic; the ones before it vary address, kind and weight only
                full = i == n - 1
                md = {"k": "v"} if full and it.branch(mv[i]) else {}
                cl = Some("c1") if full and it.branch(cv[i]) else NONE
                ap = Some("app") if full and it.branch(av[i]) else NONE
                en, he = (env_[i], hv[i]) if full else (True, True)
                param = Struct("InstanceRegisterParam", {"ip": "1.1.1.1", "port": port, "weight": wv[i], "enabled": en, "healthy": he, "ephemeral": False, "metadata": md,
                                                         "namespace_id": "public", "group_name": "g", "service_name": "svc", "cluster_name": cl, "app_name": ap, "last_modified_millis": 1000})
                rec.append({"op": op, "port": port, "weight": wv[i], "enabled": en, "healthy": he, "metadata": md, "cluster_name": "c1" if cl is not NONE else None, "app_name": "app" if ap is not NONE else None})
                r = it.call_method("NamingActor", "process_naming_raft_request", actor, [Enum("NamingRaftReq", "RegisterInstance" if op == "register" else "UpdateInstance", {"param": param})])
                if not (isinstance(r, Enum) and r.variant == "Ok"):
                    return ("violation", "a committed naming request is answered with an error", "request-error")
            live = instances(actor)
            w = Writer()
            r = it.call_method("NamingActor", "build_snapshot", actor, [w])
            if not (isinstance(r, Enum) and r.variant == "Ok"):
                return ("violation", "building the snapshot of the naming component fails", "snapshot-error")
            fresh = new_actor(it)
            for x in w.records:
                r = it.call_method("NamingActor", "load_snapshot_record", fresh, [copy.deepcopy(x)])
                if not (isinstance(r, Enum) and r.variant == "Ok"):
                    return ("violation", "loading a snapshot record of the naming component fails", "snapshot-error")
            back = instances(fresh)
            want = {k: v for k, v in live.items() if v["ephemeral"] is False}
            for k in want:
                if k not in back:
                    return ("violation", "the persistent instance at address %s is missing after a restart from the snapshot" % k["port"], "instance-lost")
            for k in back:
                if k not in want:
                    return ("violation", "an instance at address %s appears after a restart from the snapshot that the node did not hold" % k["port"], "instance-resurrected")
            for k, v in want.items():
                b = back[k]
                for f in FIELDS:
                    if possible(differs(v[f], b[f])):
                        return ("violation", "the persistent instance at address %s comes back from the snapshot with another %s" % (k["port"], f), "instance-field-" + f, f,
                                {"before": v[f], "after": b[f]})
                covers["an instance is restored from the snapshot"] += 1
                if v["metadata"]:
                    covers["an instance with metadata is restored"] += 1
            if removed and len(want) < 2:
                covers["a removed instance is absent after the restart"] += 1
            return ("ok", None, None)

        it.solver.push()
        it.solver.add(*rng)
        paths = it.explore(thunk, max_paths=200000)
        it.solver.pop()
        s = z3.Solver()
        s.add(*rng)
        viol = None
        for pc, r, exc in paths:
            if exc is not None:
                viol = {"message": "panic in the naming component's snapshot path: %s" % exc, "tags": ["panic"], "model": {}}
                break
            if r[0] == "violation":
                s.push()
                s.add(*pc)
                if s.check() == z3.sat:
                    m = s.model()
                    viol = {"message": r[1], "tags": [r[2]], "model": {"ops": concretize(r[-1], m)}}
                    if len(r) > 5:
                        viol["model"]["field"] = r[3]
                        viol["model"]["values"] = concretize(r[4], m)
                        viol["message"] += " (%s before, %s after)" % (viol["model"]["values"]["before"], viol["model"]["values"]["after"])
                s.pop()
                if viol:
                    break
        ob["queries"] = it.queries
        ob["solver_s"] = round(time.time() - t0, 1)
        ob["sample"] = {"paths_explored": len(paths), "covers": covers, "opaque_symbols": sorted(it.opaque_seen)[:20]}
        ob["_ok_paths"] = [(pc, r[-1]) for pc, r, exc in paths if exc is None and r[0] == "ok"]
        ob["_rng"] = rng
        missing = [c for c, k in covers.items() if k == 0]
        if viol:
            ob.update({"verdict": "violation", "message": viol["message"], "tags": viol["tags"], "counterexample": viol["model"]})
        elif missing:
            ob.update({"verdict": "inconclusive", "message": "reachability witness never reached: %s" % missing})
        else:
            ob.update({"verdict": "discharged", "distinct": len(paths)})
    except rsparse.Unsupported as e:
        ob.update({"verdict": "inconclusive", "message": "encoder met source it cannot encode: %s" % e})
    return ob


if __name__ == "__main__":
    import sys
    ob = run(sys.argv[1] if len(sys.argv) > 1 else "quick", 0)
    ob.pop("_ok_paths", None)
    ob.pop("_rng", None)
    print(ob["harness"], ob.get("verdict"), str(ob.get("message", ""))[:900], str(ob.get("counterexample"))[:900], ob.get("queries"), ob.get("solver_s"), str(ob.get("sample"))[:800])
