"""C18 (narrow) — namespace privileges: the privilege algebra and the listing filters of both indexes.

Symbolic evaluation of the real source:
  * NamespacePrivilegeGroup::check_permission, PrivilegeGroup::{check_permission, at_whitelist, at_blacklist}
    (src/common/model/privilege.rs) and namespace::is_default_namespace: the namespace is an arbitrary string,
    the group is arbitrary (flags symbolic; white/blacklist absent or any subset of a candidate set);
  * TenantIndex::query_config_page (src/config/config_index.rs) and NamespaceIndex::query_service_page
    (src/naming/service_index.rs): namespaces of the index concrete, privilege symbolic, the per-namespace
    sub-index answers modelled (it returns keys of its own namespace).
Not claimed: that each console handler calls the check (a missing call site is not a solver question).
"""
import time

import z3

from . import rseval, rsparse
from .common import load_program
from .rseval import Struct, Enum, NONE, Some, Uninterp

FILES = ["src/common/model/privilege.rs", "src/namespace/mod.rs", "src/common/constant.rs", "src/config/config_index.rs", "src/naming/service_index.rs"]
CAND = ["", "public", "a", "b"]


class SymSet:
    """HashSet<Arc<String>> with symbolic membership over a candidate universe"""

    def __init__(self, name):
        self.ty = "SymSet"
        self.member = {c: z3.Bool("%s_has_%s" % (name, c or "empty")) for c in CAND}

    def contains(self, interp, key):
        r = False
        for c, b in self.member.items():
            r = interp.lor(r, interp.land(b, interp.eq(key, c)))
        return r


def sym_group(it, tag=""):
    en, wa, ba = z3.Bool("enabled" + tag), z3.Bool("whitelist_is_all" + tag), z3.Bool("blacklist_is_all" + tag)
    has_w, has_b = z3.Bool("has_whitelist" + tag), z3.Bool("has_blacklist" + tag)
    wl, bl = SymSet("wl" + tag), SymSet("bl" + tag)
    syms = dict(enabled=en, wa=wa, ba=ba, has_w=has_w, has_b=has_b, wl=wl, bl=bl)

    def build():
        w = Some(wl) if it.branch(has_w) else NONE
        b = Some(bl) if it.branch(has_b) else NONE
        inner = Struct("PrivilegeGroup", {"enabled": en, "whitelist_is_all": wa, "whitelist": w, "blacklist_is_all": ba, "blacklist": b})
        return Struct("NamespacePrivilegeGroup", {"0": inner})
    return build, syms


def expected(sy, key):
    """(wl_all or key' in wl) and not (bl_all or key' in bl), key' = default-namespace mapping"""
    isdef = z3.Or(key == z3.StringVal(""), key == z3.StringVal("public"))
    k2 = z3.If(isdef, z3.StringVal(""), key)

    def inset(st, has):
        return z3.And(has, z3.Or(*[z3.And(b, k2 == z3.StringVal(c)) for c, b in st.member.items()]))
    return z3.And(z3.Or(sy["wa"], inset(sy["wl"], sy["has_w"])), z3.Not(z3.Or(sy["ba"], inset(sy["bl"], sy["has_b"]))))


def install(it):
    it.models[("SymSet", "contains")] = lambda interp, recv, args: recv.contains(interp, args[0])


def formula(it, thunk):
    paths = it.explore(thunk)
    terms = []
    for pc, r, exc in paths:
        if exc is not None:
            raise rsparse.Unsupported("panic: %s" % exc)
        terms.append(z3.And(*(pc + [rseval.to_bool(r)])))
    return (z3.Or(*terms) if terms else z3.BoolVal(False)), len(paths)


def run(tier, seed):
    t0 = time.time()
    info = {"files": FILES, "solver": "z3 " + z3.get_version_string(), "cmd": "python3-vt -m lib.main C18 (rs2smt/c18.py)"}
    obligations = []
    try:
        prog = load_program(FILES)
    except rsparse.Unsupported as e:
        return {"obligations": [{"engine": "smt", "harness": "s18_parse", "verdict": "inconclusive", "message": str(e)}], "info": info}

    # ---- S18.1 privilege algebra
    ob = {"engine": "smt", "harness": "s18_1_check_permission", "encodes": ["NamespacePrivilegeGroup::check_permission", "PrivilegeGroup::check_permission",
          "PrivilegeGroup::at_whitelist", "PrivilegeGroup::at_blacklist", "namespace::is_default_namespace", "DEFAULT_NAMESPACE_ARC_STRING"], "encodes_files": FILES,
          "bound": "every namespace string; every group: flags arbitrary, white/blacklist absent or any subset of {'', public, a, b}", "queries": 0, "solver_s": 0.0, "distinct": 0}
    try:
        it = rseval.Interp(prog)
        install(it)
        key = z3.String("namespace")
        build, sy = sym_group(it)
        F, npaths = formula(it, lambda: it.call_method("NamespacePrivilegeGroup", "check_permission", build(), [key]))
        s = z3.Solver()
        s.set("timeout", 60000)
        s.add(F != expected(sy, key))
        ts = time.time()
        r = s.check()
        ob["solver_s"] = round(time.time() - ts, 2)
        ob["queries"] = 1 + it.queries
        if r == z3.sat:
            m = s.model()
            ce = {"namespace": m.eval(key, model_completion=True).as_string(), "result": bool(m.eval(F, model_completion=True)),
                  "whitelist_is_all": bool(m.eval(sy["wa"], model_completion=True)), "blacklist_is_all": bool(m.eval(sy["ba"], model_completion=True)),
                  "whitelist": [c for c, b in sy["wl"].member.items() if bool(m.eval(b, model_completion=True))] if bool(m.eval(sy["has_w"], model_completion=True)) else None,
                  "blacklist": [c for c, b in sy["bl"].member.items() if bool(m.eval(b, model_completion=True))] if bool(m.eval(sy["has_b"], model_completion=True)) else None}
            ob.update({"verdict": "violation", "tags": ["privilege-algebra"], "counterexample": ce,
                       "message": "check_permission(%r) = %s for whitelist(all=%s,%s) blacklist(all=%s,%s): not 'whitelisted and not blacklisted (default namespace mapped)'"
                       % (ce["namespace"], ce["result"], ce["whitelist_is_all"], ce["whitelist"], ce["blacklist_is_all"], ce["blacklist"])})
        elif r == z3.unsat:
            # witnesses: both outcomes possible; blacklist wins over whitelist
            w1 = z3.Solver(); w1.add(F, sy["has_b"], sy["has_w"])
            w2 = z3.Solver(); w2.add(z3.Not(F), sy["wa"])
            if w1.check() == z3.sat and w2.check() == z3.sat:
                ob.update({"verdict": "discharged", "distinct": 3})
            else:
                ob.update({"verdict": "inconclusive", "message": "vacuity witness failed"})
        else:
            ob.update({"verdict": "inconclusive", "message": "solver %s" % r})
        ob["sample"] = {"paths_explored": npaths}
    except rsparse.Unsupported as e:
        ob.update({"verdict": "inconclusive", "message": "encoder met source it cannot encode: %s" % e})
    obligations.append(ob)

    # ---- S18.2 listings never contain an item of a namespace the group refuses
    for (ty, fn, field, pfield, files, sub) in (
            ("TenantIndex", "query_config_page", "tenant_group", "tenant", "src/config/config_index.rs", "query_config_page"),
            ("NamespaceIndex", "query_service_page", "namespace_group", "namespace_id", "src/naming/service_index.rs", "query_service_page")):
        ob = {"engine": "smt", "harness": "s18_2_%s" % fn, "encodes": ["%s::%s" % (ty, fn), "NamespacePrivilegeGroup::check_permission"], "encodes_files": FILES,
              "bound": "index holding namespaces {'', a, b}; query with a namespace filter (any of them or a fourth) or none; privilege group arbitrary; limit 10",
              "queries": 0, "solver_s": 0.0, "distinct": 0}
        try:
            verdict = "discharged"
            n_q = 0
            for filt in (None, "", "a", "b", "public"):
                it = rseval.Interp(prog)
                install(it)
                build, sy = sym_group(it)

                def sub_query(interp, recv, args, _sub=sub):
                    # the per-namespace index answers with keys of its own namespace (at most `limit`)
                    ns = recv["ns"]
                    return (2, [Struct("Key", {"ns": ns, "i": 0}), Struct("Key", {"ns": ns, "i": 1})])
                it.models[("SubIndex", sub)] = sub_query

                def thunk(filt=filt):
                    group = build()
                    idx = Struct(ty, {field: {ns: Struct("SubIndex", {"ns": ns}) for ns in ("", "a", "b")}, "size": 6, "service_size": 6,
                                      "namespace_actor": NONE})
                    param = Struct("Param", {pfield: (Some(filt) if filt is not None else NONE), "limit": 10, "offset": 0, "namespace_privilege": group})
                    size, items = it.call_method(ty, fn, idx, [param])
                    # returned namespaces
                    return sorted({k["ns"] for k in items})
                paths = it.explore(thunk)
                s = z3.Solver()
                s.set("timeout", 60000)
                for pc, r, exc in paths:
                    if exc is not None:
                        raise rsparse.Unsupported("panic in %s: %s" % (fn, exc))
                    for ns in r:
                        allowed = expected(sy, z3.StringVal(ns))
                        s.push()
                        s.add(*pc)
                        s.add(z3.Not(allowed))
                        ts = time.time()
                        res = s.check()
                        ob["solver_s"] += time.time() - ts
                        n_q += 1
                        if res == z3.sat:
                            ob.update({"verdict": "violation", "tags": ["listing-leaks-namespace"], "counterexample": {"filter": filt, "leaked_namespace": ns},
                                       "message": "%s::%s (filter %r) returns items of namespace %r although the privilege group refuses it" % (ty, fn, filt, ns)})
                            verdict = "violation"
                        s.pop()
                        if verdict != "discharged":
                            break
                    if verdict != "discharged":
                        break
                ob["queries"] += it.queries
                if verdict != "discharged":
                    break
            ob["queries"] += n_q
            if verdict == "discharged":
                if n_q == 0:
                    ob.update({"verdict": "inconclusive", "message": "no listing path returned anything (vacuous)"})
                else:
                    ob.update({"verdict": "discharged", "distinct": n_q})
        except rsparse.Unsupported as e:
            ob.update({"verdict": "inconclusive", "message": "encoder met source it cannot encode: %s" % e})
        ob["solver_s"] = round(ob["solver_s"], 2)
        obligations.append(ob)

    # ---- translator validation + replay through the native build
    obligations.append(validate(prog, seed, 24 if tier == "quick" else 96))
    for ob in obligations:
        if ob.get("verdict") == "violation":
            attach(ob)
    # ---- S18.3 the stored restriction reaches the session (UserManager add / update -> stored record -> session group)
    import os
    from . import c18store
    sob = c18store.run(tier, seed)
    if not os.environ.get("VERIF_NO_NATIVE"):
        from .common import native_histories
        if sob.get("verdict") == "violation" and (sob.get("counterexample") or {}).get("steps"):
            rr = native_histories("C18", "user", "violation", [{"steps": sob["counterexample"]["steps"]}], {"obligation": sob["harness"], "model": sob.get("counterexample")}, sob["message"])
            sob["replay_path"] = rr["path"]
            sob["replay"] = {"path": rr["path"], "outcome": rr["outcome"], "message": rr["message"]}
            if rr["outcome"] != "reproduced":
                sob.update({"verdict": "inconclusive", "message": "engine-S counterexample (%s) did not reproduce on a real node's UserManager (%s %s)" % (sob["message"], rr["outcome"], rr["message"])})
            else:
                sob["message"] = "%s [real single-node application, through the UserManager actor: %s]" % (sob["message"], rr["message"][:400])
        elif sob.get("verdict") == "discharged":
            sample = [{"steps": [["add", {"whitelist": ["a"], "blacklist": None, "whitelistIsAll": False, "blacklistIsAll": None}],
                                 ["update", {"whitelist": [], "blacklist": ["b"], "whitelistIsAll": None, "blacklistIsAll": None}]]},
                      {"steps": [["add", {"whitelist": None, "blacklist": ["b"], "whitelistIsAll": None, "blacklistIsAll": None}],
                                 ["update", {"whitelist": ["a", "b"], "blacklist": [], "whitelistIsAll": False, "blacklistIsAll": False}]]}]
            val = native_histories("C18", "user", "validate", sample, {"obligation": sob["harness"]})
            info["translator_validation_user_manager"] = val
            if val["outcome"] != "passed":
                sob.update({"verdict": "inconclusive", "message": "the obligation is discharged but a real node's UserManager breaks it on a sampled history: %s" % val["message"]})
    obligations.append(sob)
    # ---- S18.4 the console handlers' call sites: a namespace named by the request is checked before the data layer is reached
    # the composed configuration key: a validated key survives build_key -> from (the rule "composed-key" of the call-site obligation rests on it)
    from . import c18key
    for kob in c18key.run(tier, seed):
        if kob.get("verdict") == "violation" and not os.environ.get("VERIF_NO_NATIVE"):
            from lib import native
            path = native.write_replay("C18", "c18", "model", [], {"engine": "smt", "mode": "model-only", "obligation": kob["harness"], "message": kob["message"], "model": kob.get("counterexample")})
            kob["replay_path"] = path
            kob["replay"] = {"path": path, "outcome": "model-only", "message": "key components before and after build_key -> from"}
        obligations.append(kob)
    from . import c18sites
    for cob in c18sites.run(tier, seed):
        if cob.get("verdict") == "violation" and not os.environ.get("VERIF_NO_NATIVE"):
            from .common import native_histories
            ce = cob.get("counterexample") or {}
            rr = native_histories("C18", "console", "violation", [{"handler": ce.get("handler"), "file": ce.get("file")}], {"obligation": cob["harness"], "model": ce}, cob["message"])
            cob["replay_path"] = rr["path"]
            cob["replay"] = {"path": rr["path"], "outcome": rr["outcome"], "message": rr["message"]}
            if rr["outcome"] == "reproduced":
                cob["message"] = "%s [real handler, called with the session of a user restricted to another namespace: %s]" % (cob["message"], rr["message"][:300])
            elif "no native call for handler" in (rr.get("message") or ""):
                cob["replay"]["outcome"] = "model-only"
            else:
                cob.update({"verdict": "inconclusive", "message": "engine-S counterexample (%s) did not reproduce on the real handler (%s %s)" % (cob["message"], rr["outcome"], rr["message"])})
        obligations.append(cob)
    info["wall_s"] = round(time.time() - t0, 1)
    return {"obligations": obligations, "info": info}


def native_case(ns, wa, wl, ba, bl):
    return {"kind": "ns_privilege", "path": ns, "whitelist_is_all": wa, "whitelist": wl, "blacklist_is_all": ba, "blacklist": bl}


def attach(ob):
    from . import webreplay
    ce = ob.get("counterexample", {})
    if "namespace" in ce:
        c = native_case(ce["namespace"], ce["whitelist_is_all"], ce["whitelist"], ce["blacklist_is_all"], ce["blacklist"])
        c["expect"] = ce["result"]
        ob["cases"] = [c]
    webreplay.attach(ob, "C18")


def validate(prog, seed, k):
    import random
    from . import webreplay
    ob = {"engine": "smt", "harness": "s18_translator_validation", "encodes": ["encoding vs. the real NamespacePrivilegeGroup::check_permission (native build)"],
          "bound": "%d sampled groups and namespaces (VERIF_SEED)" % k, "queries": 0, "solver_s": 0.0, "distinct": 0}
    try:
        rnd = random.Random(seed)
        it = rseval.Interp(prog)
        install(it)
        key = z3.String("namespace")
        build, sy = sym_group(it)
        F, _n = formula(it, lambda: it.call_method("NamespacePrivilegeGroup", "check_permission", build(), [key]))
        cases = []
        for _ in range(k):
            ns = rnd.choice(CAND + ["c", "PUBLIC"])
            wa, ba = rnd.random() < 0.3, rnd.random() < 0.2
            wl = [c for c in CAND if rnd.random() < 0.5] if rnd.random() < 0.7 else None
            bl = [c for c in CAND if rnd.random() < 0.3] if rnd.random() < 0.7 else None
            sub = [(key, z3.StringVal(ns)), (sy["wa"], z3.BoolVal(wa)), (sy["ba"], z3.BoolVal(ba)), (sy["has_w"], z3.BoolVal(wl is not None)),
                   (sy["has_b"], z3.BoolVal(bl is not None)), (sy["enabled"], z3.BoolVal(True))]
            sub += [(b, z3.BoolVal(wl is not None and c in wl)) for c, b in sy["wl"].member.items()]
            sub += [(b, z3.BoolVal(bl is not None and c in bl)) for c, b in sy["bl"].member.items()]
            exp = z3.is_true(z3.simplify(z3.substitute(F, *sub)))
            c = native_case(ns, wa, wl, ba, bl)
            c["expect"] = exp
            cases.append(c)
        rr = webreplay.run_cases("C18", "validate", cases, "translator validation")
        if rr["outcome"] == "passed":
            ob.update({"verdict": "discharged", "distinct": len(cases), "sample": {"cases": len(cases), "example": cases[:2]}})
        else:
            ob.update({"verdict": "inconclusive", "message": "encoder disagrees with the real code: %s" % rr.get("output", "")[-600:]})
    except rsparse.Unsupported as e:
        ob.update({"verdict": "inconclusive", "message": str(e)})
    return ob


if __name__ == "__main__":
    r = run("quick", 0)
    for ob in r["obligations"]:
        print(ob["harness"], ob.get("verdict"), str(ob.get("message", ""))[:400], ob.get("counterexample"), ob.get("queries"), ob.get("solver_s"), str(ob.get("sample"))[:200])
    print(r["info"])
