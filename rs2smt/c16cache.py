"""C16 — "an expired token is treated as no token": the replicated cache table that stores the login sessions.

DirectCacheManager (src/cache/core.rs): Handler<CacheManagerRaftReq>::handle with its arms Set / GetSet / Get / Exists / Remove /
Expire and set, set_nx, set_xx, set_value, get_set, do_set, get_valid_value, expire, remove, exists, clear_time_out evaluated from
source. An API token (and a console session) is one entry of this table: the login handler commits
CacheManagerRaftReq::Set(CacheSetParam::new_with_ttl(key, session, lifetime)) - the entry carries the login time (`now`) and the
lifetime (`ttl`) - and the auth middleware / gRPC handler ask Get. The entry is applied on every replica, and again whenever the
log is replayed (restart before a snapshot covers it, follower catching up), at a clock that may be far behind the login.

Environment: now_second_i32 is a model variable, one value per step, non-decreasing, 0 <= clock < 2^30; the login time of a Set is
at or before the clock at which it is applied; lifetimes 0 <= ttl < 2^30 (or the never-expires shape ttl -1 / now 0 of
CacheSetParam::new); inner_mem_cache::TimeoutSet is modelled as a list of (time, key) (add appends, timeout(t) removes and returns
the entries with time <= t). All integers of this code are i32 / i64: comparisons are signed.

Scenario: every history of N steps on two token keys over {Set (plain / nx / xx), GetSet, Get, Exists, Remove, Expire(absolute
deadline), timer tick}. Reference: per key the value of the last write that took effect and its deadline computed from the ENTRY
ALONE (login time + lifetime, or the absolute deadline of Expire).
Oracle (soundness only, what C16 states): whenever the table answers with a value (Get / GetSet's previous value) or Exists(true)
at clock T, the reference holds that value for the key and T is not past its deadline. A deadline that depends on when the entry
was applied hands an expired token a new lifetime on every replay.
"""
import time

import z3

from . import rseval, rsparse
from .c11 import pick
from .common import load_program, concretize
from .rseval import Struct, Enum, NONE, Some, Ok, Uninterp

FILES = ["src/cache/core.rs", "src/cache/actor_model.rs", "src/cache/model.rs"]
KEYS = ["ta", "tb"]
LIM = 1 << 30


class TimeoutSet:
    ty = "TimeoutSet"

    def __init__(self):
        self.entries = []


def ans_name(a):
    if not isinstance(a, Enum):
        return None
    if a.variant == "Exists":
        return "Exists(%s)" % ("true" if a.payload[0] is True else "false")
    return a.variant


def to_native(ops):
    """times relative to the one clock value of the history (signed 64-bit)"""
    def sg(x):
        return x - (1 << 64) if x >= (1 << 63) else x
    out = []
    for o in ops:
        o = dict(o)
        c = o.pop("clock", 0)
        if o.get("login_time") is not None:
            o["login_ago"] = sg(c) - sg(o["login_time"])
        if o.get("deadline") is not None:
            o["deadline_in"] = sg(o["deadline"]) - sg(c)
        out.append(o)
    return out


def cache_key(k):
    return Struct("CacheKey", {"cache_type": Enum("CacheType", "ApiTokenSession", None), "key": k})


def run(tier, seed):
    t0 = time.time()
    n = 3 if tier == "quick" else 4
    # thorough: one step more over the requests a session goes through (login = plain Set, check = Get, logout = Remove, prolong = Expire, timer); measured: the full alphabet at 4 steps exceeds 50 minutes
    ALPHABET = ["set", "getset", "get", "exists", "remove", "expire", "tick"] if tier == "quick" else ["set", "get", "remove", "expire", "tick"]
    FLAGS = tier == "quick"
    ob = {"engine": "smt", "harness": "s16_7_session_deadline", "encodes_files": FILES, "queries": 0, "solver_s": 0.0, "distinct": 0,
          "encodes": ["Handler<CacheManagerRaftReq>::handle", "DirectCacheManager::{set,set_nx,set_xx,set_value,get_set,do_set,get_valid_value,get_value,exists,expire,remove,clear_time_out}"],
          "bound": "every history of %d steps on two token keys over {%s}; clock per step symbolic and non-decreasing in [0, 2^30), "
                   "login time <= apply clock, lifetime in [0, 2^30) or never-expires (ttl -1, now 0)" % (n, "Set plain / nx / xx, GetSet, Get, Exists, Remove, Expire, timer tick" if tier == "quick" else "Set, Get, Remove, Expire, timer tick")}
    try:
        prog = load_program(FILES)
        it = rseval.Interp(prog)
        it.lenient = True
        it.signed_cmp = True
        handle = prog.trait_method("DirectCacheManager", "handle", "CacheManagerRaftReq")
        if handle is None:
            raise rsparse.Unsupported("Handler<CacheManagerRaftReq> for DirectCacheManager not found")
        clock = [0]
        it.fn_models["now_second_i32"] = lambda interp, args: clock[0]
        it.models[("TimeoutSet", "add")] = lambda interp, recv, args: recv.entries.append((args[0], args[1])) or ()

        def ts_timeout(interp, recv, args):
            out, keep = [], []
            for t_, k_ in recv.entries:
                (out if interp.branch(rseval.to_bv(t_) <= rseval.to_bv(args[0])) else keep).append((t_, k_))
            recv.entries[:] = keep
            return [k_ for _, k_ in out]
        it.models[("TimeoutSet", "timeout")] = ts_timeout

        opv = [z3.BitVec("op%d" % i, 8) for i in range(n)]
        keyv = [z3.Bool("op%d_key_b" % i) for i in range(n)]
        clk = [z3.BitVec("clock%d" % i, 64) for i in range(n)]
        nowv = [z3.BitVec("login_time%d" % i, 64) for i in range(n)]
        ttlv = [z3.BitVec("ttl%d" % i, 64) for i in range(n)]
        dlv = [z3.BitVec("deadline%d" % i, 64) for i in range(n)]
        forever = [z3.Bool("never_expires%d" % i) for i in range(n)]
        nxv = [z3.Bool("nx%d" % i) for i in range(n)]
        xxv = [z3.Bool("xx%d" % i) for i in range(n)]
        rng = []
        for i in range(n):
            rng += [clk[i] >= 0, clk[i] < LIM, nowv[i] >= 0, nowv[i] <= clk[i], ttlv[i] >= 0, ttlv[i] < LIM, dlv[i] >= 0, dlv[i] < LIM]
            if i:
                rng.append(clk[i - 1] <= clk[i])
        covers = {"a live token is served": 0, "a token past its deadline is refused": 0, "a token applied later than its login (replay) is refused after login + lifetime": 0}
        ops_box = [[]]

        def possible(cond):
            if isinstance(cond, bool):
                return cond
            cond = z3.simplify(cond)
            if z3.is_false(cond):
                return False
            if it._feasible(cond):
                it.pc.append(cond)
                return True
            return False

        def thunk():
            r = inner()
            return r + (list(ops_box[0]),)

        def inner():
            mgr = Struct("DirectCacheManager", {"cache": {}, "time_set": TimeoutSet()})
            rec = ops_box[0] = []
            ref = {}   # key -> (label, deadline term or None = never, step of the write, login time term)

            def ref_valid(k, T):
                if k not in ref:
                    return False
                d = ref[k][1]
                return True if d is None else (T <= d)

            def call(req):
                return it._invoke(handle, [mgr, req, "ctx"], self_ty="DirectCacheManager")
            for i in range(n):
                clock[0] = clk[i]
                op = pick(it, opv[i], ALPHABET)
                if op == "tick":
                    it.call_method("DirectCacheManager", "clear_time_out", mgr, [])
                    rec.append({"op": "tick", "clock": clk[i]})
                    continue
                kname = KEYS[1] if it.branch(keyv[i]) else KEYS[0]
                key = cache_key(kname)
                if op in ("set", "getset"):
                    fv = it.branch(forever[i])
                    label = "session%d" % i
                    nx = it.branch(nxv[i]) if op == "set" and FLAGS else False
                    xx = (it.branch(xxv[i]) if not nx else False) if op == "set" and FLAGS else False
                    param = Struct("CacheSetParam", {"key": key, "value": Enum("CacheValue", "ApiTokenSession", [label]),
                                                     "ttl": -1 if fv else ttlv[i], "now": 0 if fv else nowv[i], "nx": nx, "xx": xx})
                    rec.append({"op": op, "key": kname, "value": label, "clock": clk[i], "never_expires": fv, "login_time": None if fv else nowv[i], "ttl": None if fv else ttlv[i], "nx": nx, "xx": xx})
                    r = call(Enum("CacheManagerRaftReq", "Set" if op == "set" else "GetSet", [param]))
                    if not (isinstance(r, Enum) and r.variant == "Ok"):
                        return ("violation", "the cache table does not answer a %s" % op, "no-answer")
                    a = r.payload[0]
                    rec[-1]["answer"] = ans_name(a)
                    if op == "getset" and isinstance(a, Enum) and a.variant == "Value":
                        bad = check_value(kname, a, clk[i], ref, ref_valid, possible)
                        if bad:
                            return bad
                    if op == "getset" or (isinstance(a, Enum) and a.variant == "Ok"):
                        ref[kname] = (label, None if fv else (nowv[i] + ttlv[i]), i, None if fv else nowv[i])
                    continue
                if op == "remove":
                    call(Enum("CacheManagerRaftReq", "Remove", [key]))
                    ref.pop(kname, None)
                    rec.append({"op": "remove", "key": kname, "clock": clk[i]})
                    continue
                if op == "expire":
                    r = call(Enum("CacheManagerRaftReq", "Expire", [key, dlv[i]]))
                    rec.append({"op": "expire", "key": kname, "deadline": dlv[i], "clock": clk[i]})
                    a = r.payload[0] if isinstance(r, Enum) and r.variant == "Ok" else None
                    rec[-1]["answer"] = ans_name(a)
                    if isinstance(a, Enum) and a.variant == "Ok":
                        if possible(z3.Not(rseval.to_bool(ref_valid(kname, clk[i])))):
                            return ("violation", "Expire prolongs an entry of key %s whose lifetime is over (or that was removed)" % kname, "expired-entry-revived")
                        ref[kname] = (ref[kname][0], dlv[i], ref[kname][2], None)
                    continue
                r = call(Enum("CacheManagerRaftReq", "Get" if op == "get" else "Exists", [key]))
                rec.append({"op": op, "key": kname, "clock": clk[i]})
                if not (isinstance(r, Enum) and r.variant == "Ok"):
                    return ("violation", "the cache table does not answer a %s" % op, "no-answer")
                a = r.payload[0]
                rec[-1]["answer"] = ans_name(a)
                served = isinstance(a, Enum) and (a.variant == "Value" or (a.variant == "Exists" and a.payload[0] is True))
                if served:
                    bad = check_value(kname, a, clk[i], ref, ref_valid, possible)
                    if bad:
                        return bad
                    covers["a live token is served"] += 1
                elif kname in ref and ref[kname][1] is not None:
                    covers["a token past its deadline is refused"] += 1
                    w = ref[kname]
                    if w[3] is not None and possible(z3.And(w[3] < clk[w[2]], w[1] < clk[w[2]])):
                        covers["a token applied later than its login (replay) is refused after login + lifetime"] += 1
            return ("ok", None, None)

        def check_value(kname, a, T, ref, ref_valid, possible):
            if kname not in ref:
                return ("violation", "key %s is served although no write of it is in effect (removed or never set)" % kname, "removed-entry-served")
            if a.variant == "Value":
                got = a.payload[0]
                lab = got.payload[0] if isinstance(got, Enum) else got
                if lab != ref[kname][0]:
                    return ("violation", "key %s is served with %s, the last write in effect stored %s" % (kname, lab, ref[kname][0]), "stale-value-served")
            v = ref_valid(kname, T)
            if possible(z3.Not(rseval.to_bool(v)) if not isinstance(v, bool) else (not v)):
                return ("violation", "a session whose lifetime is over (login time + lifetime < clock of the request) is served: an expired token is accepted "
                                     "(key %s; the stored deadline does not come from the entry's own login time and lifetime)" % kname, "expired-token-served")
            return None

        # histories the native twin can run: one clock value, every deadline at least 5 s away from it
        one_clock = [clk[i] == clk[0] for i in range(1, n)] + [clk[0] >= 200000000]
        for i in range(n):
            # the native clock is about 1.8e9 s: keep login time + lifetime and the deadlines inside i32 there
            one_clock += [ttlv[i] < 100000000, dlv[i] < clk[0] + 100000000, dlv[i] + 100000000 > clk[0], nowv[i] + 100000000 > clk[0]]
            one_clock += [z3.Or(nowv[i] + ttlv[i] + 5 <= clk[0], nowv[i] + ttlv[i] >= clk[0] + 5), z3.Or(dlv[i] + 5 <= clk[0], dlv[i] >= clk[0] + 5)]
        nviol = [0]

        def stop(r):
            # a violation ends the exploration - preferably one whose history the native twin can run (one clock value)
            if r[0] != "violation":
                return False
            nviol[0] += 1
            return it._feasible(z3.And(*one_clock)) or nviol[0] >= 40
        it.solver.push()
        it.solver.add(*rng)
        paths = it.explore(thunk, max_paths=400000, stop=stop)
        it.solver.pop()
        s = z3.Solver()
        s.add(*rng)
        viol = None
        for pc, r, exc in paths:
            if exc is not None:
                viol = {"message": "panic in the cache table: %s" % exc, "tags": ["panic"], "model": {}}
                break
        if not viol:
            for pc, r, exc in reversed(paths):
                if r[0] != "violation":
                    continue
                s.push()
                s.add(*pc)
                if s.check() == z3.sat:
                    cand = {"message": r[1], "tags": [r[2]], "model": {"ops": concretize(r[3], s.model())}}
                    s.add(*one_clock)
                    if s.check() == z3.sat:
                        cand["model"] = {"ops": concretize(r[3], s.model())}
                        cand["native_ops"] = to_native(cand["model"]["ops"])
                    if viol is None or cand.get("native_ops"):
                        viol = cand
                s.pop()
                if viol and viol.get("native_ops"):
                    break
        import os
        import random
        from .common import native_histories
        native = not os.environ.get("VERIF_NO_NATIVE")
        if viol and native and viol.get("native_ops"):
            rr = native_histories("C16", "cache", "violation", [{"ops": viol["native_ops"]}], {"obligation": ob["harness"], "model": viol["model"]}, viol["message"])
            ob["replay_path"] = rr["path"]
            ob["replay"] = {"path": rr["path"], "outcome": rr["outcome"], "message": rr["message"]}
            if rr["outcome"] == "reproduced":
                viol["message"] = "%s [real DirectCacheManager actor: %s]" % (viol["message"], rr["message"][:300])
            else:
                viol["inconclusive"] = "engine-S counterexample (%s) did not reproduce on the real DirectCacheManager (%s %s)" % (viol["message"], rr["outcome"], rr["message"][:300])
        elif viol and native:
            from lib import native as nat
            path = nat.write_replay("C16", "cache", "model", [], {"engine": "smt", "mode": "model-only", "obligation": ob["harness"], "message": viol["message"], "model": viol["model"]})
            ob["replay_path"] = path
            ob["replay"] = {"path": path, "outcome": "model-only", "message": "the history needs different clock values at its steps; the native clock cannot be set"}
        if not viol and native:
            rnd = random.Random(seed)
            hist = []
            cand = [(pc, r) for pc, r, exc in paths if r[0] == "ok"]
            rnd.shuffle(cand)
            for pc, r in cand[:200]:
                s.push()
                s.add(*pc)
                s.add(*one_clock)
                if s.check() == z3.sat:
                    hist.append({"ops": to_native(concretize(r[3], s.model()))})
                s.pop()
                if len(hist) >= 12:
                    break
            val = native_histories("C16", "cache", "validate", hist)
            ob["translator_validation"] = {"outcome": val["outcome"], "histories": len(hist), "message": val["message"], "path": val["path"]}
            if val["outcome"] != "passed" or not hist:
                viol = {"message": "", "tags": [], "model": {}, "inconclusive": "translator validation: the real DirectCacheManager and the encoding disagree on a sampled history (%s)" % val["message"][:400]}
        ob["queries"] = it.queries
        ob["solver_s"] = round(time.time() - t0, 1)
        ob["sample"] = {"paths_explored": len(paths), "covers": covers, "opaque_symbols": sorted(it.opaque_seen)[:20]}
        missing = [c for c, k in covers.items() if k == 0]
        if viol and viol.get("inconclusive"):
            ob.update({"verdict": "inconclusive", "message": viol["inconclusive"]})
        elif viol:
            ob.update({"verdict": "violation", "message": viol["message"], "tags": viol["tags"], "counterexample": viol["model"]})
        elif missing:
            ob.update({"verdict": "inconclusive", "message": "reachability witness never reached: %s" % missing})
        else:
            ob.update({"verdict": "discharged", "distinct": len(paths)})
    except rsparse.Unsupported as e:
        ob.update({"verdict": "inconclusive", "message": "encoder met source it cannot encode: %s" % e})
    return ob


if __name__ == "__main__":
    import sys
    ob = run(sys.argv[1] if len(sys.argv) > 1 else "quick", 0)
    print(ob["harness"], ob.get("verdict"), str(ob.get("message", ""))[:900], str(ob.get("counterexample"))[:1500], ob.get("queries"), ob.get("solver_s"), str(ob.get("sample"))[:800])
