"""C09 — listings match the store, also under group / dataId filters and on every page.

TenantIndex::query_config_page -> ConfigIndex::query_config_page -> ConfigQueryParam::{match_group, match_data_id}
(src/config/config_index.rs) and StringUtils::{eq, like} (src/common/string_utils.rs) evaluated from source on an index built
through the real insert_config. The index is concrete (one tenant, group g1 = {a, db1}, group g2 = {db2, db3}, plus one key of
another tenant); the filter is one of {none, dataId exact, dataId like, group exact, group like, group + dataId}; offset and
limit are symbolic. Oracle: the page equals filter(sorted keys)[offset : offset + limit] and the total equals the number of
matching keys, for every offset and limit in the bound.
"""
import time

import z3

from . import rseval, rsparse
from .c09 import key
from .common import load_program
from .rseval import Struct, NONE, Some

FILES = ["src/config/config_index.rs", "src/config/core.rs", "src/common/string_utils.rs", "src/common/model/privilege.rs", "src/namespace/mod.rs"]
KEYS = [("t1", "g1", "a"), ("t1", "g1", "db1"), ("t1", "g2", "db2"), ("t1", "g2", "db3"), ("t2", "g1", "db9")]
FILTERS = [
    ("no filter", {}),
    ("dataId = db2", {"data_id": "db2"}),
    ("dataId like db", {"like_data_id": "db"}),
    ("group = g2", {"group": "g2"}),
    ("group like g", {"like_group": "g"}),
    ("group = g1, dataId like db", {"group": "g1", "like_data_id": "db"}),
    ("dataId like b1", {"like_data_id": "b1"}),
]
MAX_OFF, MAX_LIM = 4, 3


def matches(k, f):
    t, g, d = k
    if "group" in f and f["group"] and g != f["group"]:
        return False
    if "group" not in f and f.get("like_group") and f["like_group"] not in g:
        return False
    if "data_id" in f and f["data_id"] and d != f["data_id"]:
        return False
    if "data_id" not in f and f.get("like_data_id") and f["like_data_id"] not in d:
        return False
    return True


def run(tier, seed):
    t0 = time.time()
    ob = {"engine": "smt", "harness": "s09_4_filtered_paging", "encodes_files": FILES,
          "encodes": ["TenantIndex::{insert_config,query_config_page}", "ConfigIndex::query_config_page", "ConfigQueryParam::{match_group,match_data_id}", "StringUtils::{eq,like}"],
          "bound": "index of 5 keys in 2 tenants / 2 groups; %d filters (none, dataId exact / like, group exact / like, combined); offset 0..=%d and limit 1..=%d symbolic" % (len(FILTERS), MAX_OFF, MAX_LIM),
          "queries": 0, "solver_s": 0.0, "distinct": 0}
    try:
        prog = load_program(FILES)
        it = rseval.Interp(prog)
        it.lenient = True
        it.models[(None, "rfind")] = lambda interp, recv, args: (Some(recv.rfind(args[0])) if isinstance(recv, str) and isinstance(args[0], str) and recv.rfind(args[0]) >= 0 else NONE)
        off, lim = z3.BitVec("offset", 64), z3.BitVec("limit", 64)
        rng = [z3.ULE(off, MAX_OFF), z3.UGE(lim, 1), z3.ULE(lim, MAX_LIM)]
        viol = None
        nq = 0
        filtered_pages = 0
        for fname, f in FILTERS:
            def thunk(f=f):
                ti = it.default_of_type("TenantIndex")
                for t, g, d in KEYS:
                    it.call_method("TenantIndex", "insert_config", ti, [key(d, g, t)])
                group = Struct("NamespacePrivilegeGroup", {"0": Struct("PrivilegeGroup", {"enabled": True, "whitelist_is_all": True, "whitelist": NONE, "blacklist_is_all": False, "blacklist": NONE})})
                p = Struct("ConfigQueryParam", {"tenant": Some("t1"), "group": Some(f["group"]) if "group" in f else NONE, "data_id": Some(f["data_id"]) if "data_id" in f else NONE,
                                                "like_group": Some(f["like_group"]) if "like_group" in f else NONE, "like_data_id": Some(f["like_data_id"]) if "like_data_id" in f else NONE,
                                                "namespace_privilege": group, "query_context": False, "offset": off, "limit": lim})
                total, page = it.call_method("TenantIndex", "query_config_page", ti, [p])
                return total, [(k["tenant"], k["group"], k["data_id"]) for k in page]
            it.solver.push()
            it.solver.add(*rng)
            paths = it.explore(thunk)
            it.solver.pop()
            full = [k for k in sorted(KEYS) if k[0] == "t1" and matches(k, f)]
            s = z3.Solver()
            s.add(*rng)
            for pc, r, exc in paths:
                s.push()
                s.add(*pc)
                if exc is not None:
                    nq += 1
                    if s.check() == z3.sat:
                        m = s.model()
                        viol = {"message": "listing (%s) panics: %s" % (fname, exc), "tags": ["paging-panic"], "model": {"filter": fname, "offset": m.eval(off, model_completion=True).as_long()}}
                    s.pop()
                    if viol:
                        break
                    continue
                total, page = r
                bad = []
                for oo in range(MAX_OFF + 1):
                    for ll in range(1, MAX_LIM + 1):
                        if full[oo:oo + ll] != page or (not isinstance(total, int)) or total != len(full):
                            bad.append(z3.And(off == oo, lim == ll))
                s.add(z3.Or(*bad) if bad else z3.BoolVal(False))
                nq += 1
                if s.check() == z3.sat:
                    m = s.model()
                    o, l = m.eval(off, model_completion=True).as_long(), m.eval(lim, model_completion=True).as_long()
                    viol = {"message": "listing with filter [%s], offset %d, limit %d returns %s (total %s); the store holds %s (total %d)" % (fname, o, l, page, total, full[o:o + l], len(full)),
                            "tags": ["filtered-paging"], "model": {"filter": fname, "offset": o, "limit": l, "page": page, "expected": full[o:o + l], "keys": KEYS}}
                s.pop()
                if viol:
                    break
                if f and page:
                    filtered_pages += 1
            if viol:
                break
        ob["queries"] = nq + it.queries
        ob["solver_s"] = round(time.time() - t0, 1)
        ob["sample"] = {"filters": [n for n, _ in FILTERS], "non_empty_filtered_pages": filtered_pages, "opaque_symbols": sorted(it.opaque_seen)[:20]}
        if viol:
            ob.update({"verdict": "violation", "message": viol["message"], "tags": viol["tags"], "counterexample": viol["model"]})
        elif filtered_pages == 0:
            ob.update({"verdict": "inconclusive", "message": "reachability witness never reached: a non-empty page under a filter"})
        else:
            ob.update({"verdict": "discharged", "distinct": nq})
    except rsparse.Unsupported as e:
        ob.update({"verdict": "inconclusive", "message": "encoder met source it cannot encode: %s" % e})
    return ob


if __name__ == "__main__":
    ob = run("quick", 0)
    print(ob["harness"], ob.get("verdict"), str(ob.get("message", ""))[:700], ob.get("queries"), ob.get("solver_s"), str(ob.get("sample"))[:400])
