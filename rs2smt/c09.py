"""C09 — config store: last write wins, md5 matches content, index mirrors the store, history.
(also serves C19's clause on configuration history ids: the replicated high-water mark)

Symbolic evaluation of the real source of ConfigActor::{set_config, del_config}, the GET arm of
Handler<ConfigCmd>, ConfigValue::{init, update_value}, TenantIndex / ConfigIndex (insert, remove,
query_config_page), SimpleSequence — files src/config/core.rs, src/config/config_index.rs,
src/common/sequence_utils.rs.

Symbolic: contents (arbitrary strings), optional type / description, which key an operation hits,
whether an operation is a publish or a remove, whether a publish carries a history-table id.
Concrete: the two keys, the number of operations (<= 3 quick / 4 thorough).
Environment models: get_md5(x) = "md5:" ++ x (injective; the md5 crate is outside the claim),
listener / subscriber notification sinks record the notified keys, clock reads are opaque.
"""
import time

import z3

from . import rseval, rsparse
from .common import load_program
from .rseval import Struct, Enum, NONE, Some, Uninterp, Ok

FILES = ["src/config/core.rs", "src/config/config_index.rs", "src/config/model.rs", "src/common/sequence_utils.rs", "src/common/string_utils.rs",
         "src/common/model/privilege.rs", "src/namespace/mod.rs", "src/common/constant.rs"]


def key(d, g, t):
    return Struct("ConfigKey", {"data_id": d, "group": g, "tenant": t})


KEYS = [key("d1", "g", ""), key("d2", "g", "t1")]


class Sink:
    def __init__(self, name):
        self.ty = "Sink"
        self.name = name
        self.notified = []


def md5_model(interp, args):
    x = args[0]
    if isinstance(x, str):
        return "md5:" + x
    return z3.Concat(z3.StringVal("md5:"), x)


def make_interp(prog):
    it = rseval.Interp(prog)
    it.lenient = True
    it.fn_models["get_md5"] = md5_model
    it.fn_models["now_millis_i64"] = lambda interp, args: 0
    it.models[("Sink", "notify")] = lambda interp, recv, args: recv.notified.append(args[0]) or ()
    it.models[("Sink", "remove_config_key")] = lambda interp, recv, args: ()
    return it


def new_actor(it):
    return Struct("ConfigActor", {
        "cache": {}, "listener": Sink("listener"), "subscriber": Sink("subscriber"),
        "tenant_index": it.default_of_type("TenantIndex"), "raft": NONE, "namespace_actor": NONE,
        "sequence": it._invoke(it.prog.methods[("SimpleSequence", "new")], [0, 100], self_ty="SimpleSequence"),
    })


def opt(it, present, val):
    return Some(val) if it.branch(present) else NONE


def history_scenario(prog, nops, stats, share_meta=False):
    """returns list of (pc, observations) ; observations hold z3 terms / concrete values for the checks"""
    it = make_interp(prog)
    sym = {"kind": [z3.Bool("op%d_is_publish" % i) for i in range(nops)], "k": [z3.Bool("op%d_key2" % i) for i in range(nops)],
           "c": [z3.String("content%d" % i) for i in range(nops)], "ht": [z3.Bool("op%d_has_type" % i) for i in range(nops)],
           "t": [z3.String("type%d" % i) for i in range(nops)], "hd": [z3.Bool("op%d_has_desc" % i) for i in range(nops)],
           "d": [z3.String("desc%d" % i) for i in range(nops)], "htid": [z3.Bool("op%d_has_table_id" % i) for i in range(nops)],
           "tid": [z3.BitVec("table_id%d" % i, 64) for i in range(nops)]}
    if share_meta:
        # quick tier: type and description are present together or not at all (8x fewer paths at 3 operations)
        sym["hd"] = sym["ht"]
    get_fn = prog.trait_method("ConfigActor", "handle", "ConfigCmd")
    if get_fn is None:
        raise rsparse.Unsupported("Handler<ConfigCmd> for ConfigActor not found")

    def thunk():
        actor = new_actor(it)
        trace = []
        for i in range(nops):
            kidx = 1 if it.branch(sym["k"][i]) else 0
            if it.branch(sym["kind"][i]):
                param = Struct("SetConfigParam", {
                    "key": KEYS[kidx], "value": sym["c"][i], "config_type": opt(it, sym["ht"][i], sym["t"][i]), "desc": opt(it, sym["hd"][i], sym["d"][i]),
                    "history_id": i + 1, "history_table_id": opt(it, sym["htid"][i], sym["tid"][i]), "op_time": 100 + i, "op_user": NONE})
                has_t = not (param["config_type"] is NONE)
                has_d = not (param["desc"] is NONE)
                has_tid = not (param["history_table_id"] is NONE)
                r = it.call_method("ConfigActor", "set_config", actor, [param])
                trace.append(("publish", kidx, i, has_t, has_d, has_tid))
            else:
                it.call_method("ConfigActor", "del_config", actor, [KEYS[kidx]])
                trace.append(("remove", kidx, i))
        obs = {"trace": trace, "get": [], "index": None, "hist": [], "seq": actor["sequence"]}
        for kidx in range(2):
            r = it._invoke(get_fn, [actor, Enum("ConfigCmd", "GET", [KEYS[kidx]]), "ctx"], self_ty="ConfigActor")
            obs["get"].append(r)
            v = actor["cache"].get(KEYS[kidx])
            obs["hist"].append([(h["id"], h["content"]) for h in v["histories"]] if v is not None else None)
        ti = actor["tenant_index"]
        obs["index"] = sorted((t, g, d) for t, ci in ti["tenant_group"].items() for g, st in ci["group_data"].items() for d in st)
        obs["index_size"] = ti["size"]
        obs["cache_keys"] = sorted((k["tenant"], k["group"], k["data_id"]) for k in actor["cache"])
        obs["notified"] = [list(actor["listener"].notified), list(actor["subscriber"].notified)]
        return obs
    paths = it.explore(thunk, max_paths=400000)
    stats["paths"] += len(paths)
    stats["queries"] += it.queries
    stats["opaque"] = sorted(it.opaque_seen)
    return paths, sym


def check_history(paths, sym, nops, timer):
    """per path: compare observations with the reference semantics; returns (violation dict or None, number of solver checks)"""
    s = z3.Solver()
    s.set("timeout", 60000)
    nq = 0
    for pc, obs, exc in paths:
        if exc is not None:
            return {"message": "panic in config store: %s" % exc, "tags": ["panic"], "model": {}}, nq
        trace = obs["trace"]
        for kidx in range(2):
            # reference: walk the trace
            exists = False
            content = None
            ctype = None  # z3 term or None
            desc = None
            hist = []  # list of (id, content term, counted condition)
            for ev in trace:
                if ev[1] != kidx:
                    continue
                if ev[0] == "remove":
                    exists, content, ctype, desc, hist = False, None, None, None, []
                else:
                    _p, _k, i, has_t, has_d, _tid = ev
                    c = sym["c"][i]
                    if not exists:
                        exists = True
                        ctype = sym["t"][i] if has_t else None
                        desc = sym["d"][i] if has_d else None
                        hist = [(i + 1, c, z3.BoolVal(True))]
                    else:
                        if has_t:
                            ctype = sym["t"][i]
                        if has_d:
                            desc = sym["d"][i]
                        hist.append((i + 1, c, c != content))
                    content = c
            got = obs["get"][kidx]
            conds = []  # list of (bad condition, message, tag)
            is_data = isinstance(got, Enum) and got.ty == "Result" and got.variant == "Ok" and isinstance(got.payload[0], Enum) and got.payload[0].variant == "Data"
            if not exists:
                if is_data:
                    conds.append((z3.BoolVal(True), "a removed / never published key is served", "served-after-remove"))
                if (KEYS[kidx]["tenant"], KEYS[kidx]["group"], KEYS[kidx]["data_id"]) in obs["index"]:
                    conds.append((z3.BoolVal(True), "a removed / never published key is still listed in the tenant index", "listed-after-remove"))
            else:
                if not is_data:
                    conds.append((z3.BoolVal(True), "a published key is not served", "published-not-served"))
                else:
                    d = got.payload[0].payload
                    conds.append((rseval.to_str(d["value"]) != content, "GET does not return the content of the last applied publish", "stale-content"))
                    conds.append((rseval.to_str(d["md5"]) != z3.Concat(z3.StringVal("md5:"), rseval.to_str(d["value"])), "md5 served with a content is not the md5 of that content", "md5-mismatch"))
                    for fld, ref, lab in (("config_type", ctype, "type"), ("desc", desc, "description")):
                        gv = d[fld]
                        if ref is None:
                            if not (isinstance(gv, Enum) and gv.variant == "None"):
                                conds.append((z3.BoolVal(True), "%s served although none was ever published" % lab, "meta-invented"))
                        else:
                            if isinstance(gv, Enum) and gv.variant == "Some":
                                conds.append((rseval.to_str(gv.payload[0]) != ref, "%s served is not the last published one" % lab, "meta-stale"))
                            else:
                                conds.append((z3.BoolVal(True), "%s of the last publish that carried one is lost" % lab, "meta-lost"))
                if (KEYS[kidx]["tenant"], KEYS[kidx]["group"], KEYS[kidx]["data_id"]) not in obs["index"]:
                    conds.append((z3.BoolVal(True), "a stored key is missing from the tenant index (listings)", "stored-not-listed"))
                # history: one entry per publish that changed the content, in order, last entry = current content
                h = obs["hist"][kidx] or []
                expected_len = z3.Sum([z3.If(c, 1, 0) for (_id, _c, c) in hist])
                conds.append((expected_len != len(h), "history length differs from the number of content-changing publishes", "history-length"))
                if h:
                    conds.append((rseval.to_str(h[-1][1]) != content, "newest history entry is not the current content", "history-last"))
                    ids = [x[0] for x in h]
                    if ids != sorted(ids) or len(set(ids)) != len(ids):
                        conds.append((z3.BoolVal(True), "history ids out of order or repeated", "history-order"))
            if obs["index_size"] != len(obs["index"]):
                conds.append((z3.BoolVal(True), "tenant index size counter differs from its content", "index-size"))
            for bad, msg, tag in conds:
                s.push()
                s.add(*pc)
                s.add(bad)
                t0 = time.time()
                r = s.check()
                timer[0] += time.time() - t0
                nq += 1
                if r == z3.sat:
                    m = s.model()
                    model = {"trace": [list(map(str, ev)) for ev in trace],
                             "contents": [m.eval(c, model_completion=True).as_string() for c in sym["c"]], "key": kidx}
                    ops = ops_from_trace(trace, sym, m) if tag in NATIVE_TAGS else None
                    s.pop()
                    return {"message": msg, "tags": [tag], "model": model, "ops": ops}, nq
                if r != z3.unsat:
                    s.pop()
                    return {"message": "solver %s" % r, "tags": ["solver"], "model": {}, "inconclusive": True}, nq
                s.pop()
        # notifications: every publish that changed something / every remove notified both sinks with the key (C10 completeness at the store)
    return None, nq


KNOWN_TYPES = ["json", "xml", "yaml", "html", "toml", "properties", "text"]


def ops_from_trace(trace, sym, m):
    """native operations (harness/hist_config.rs) for a history under a solver model. Type strings are arbitrary in the encoding;
    the raft apply normalises them to the known config types, so distinct model strings are mapped to distinct known types"""
    tmap = {}
    ops = []
    for ev in trace:
        k = KEYS[ev[1]]
        kk = [k["data_id"], k["group"], k["tenant"]]
        if ev[0] == "remove":
            ops.append({"op": "remove", "key": kk})
            continue
        _p, _k, i, has_t, has_d, has_tid = ev
        ty = None
        if has_t:
            tv = m.eval(sym["t"][i], model_completion=True).as_string()
            if tv not in tmap:
                tmap[tv] = KNOWN_TYPES[len(tmap) % len(KNOWN_TYPES)]
            ty = tmap[tv]
        ops.append({"op": "publish", "key": kk, "content": m.eval(sym["c"][i], model_completion=True).as_string(), "type": ty,
                    "desc": m.eval(sym["d"][i], model_completion=True).as_string() if has_d else None, "history_id": i + 1,
                    "history_table_id": m.eval(sym["tid"][i], model_completion=True).as_long() % (1 << 62) if has_tid else None, "op_time": 100 + i})
    return ops


NATIVE_TAGS = {"stale-content", "md5-mismatch", "meta-stale", "meta-lost", "meta-invented", "served-after-remove", "listed-after-remove", "published-not-served", "stored-not-listed"}


def check_sequence(paths, sym, nops, timer):
    """C19 clause: after applying a publish that carries a history table id, the local sequence never issues an id at or
    below that id (set_valid_last_id is applied whatever else the publish does)."""
    s = z3.Solver()
    nq = 0
    for pc, obs, exc in paths:
        if exc is not None:
            continue
        seq = obs["seq"]
        end = rseval.to_bv(seq["last_id"]) + rseval.to_bv(seq["cache_size"])
        for ev in obs["trace"]:
            if ev[0] == "publish" and ev[5]:
                i = ev[2]
                tid = sym["tid"][i]
                s.push()
                s.add(*pc)
                # table ids are far below u64::MAX in practice; keep the addition from wrapping
                s.add(z3.ULT(tid, z3.BitVecVal(1 << 62, 64)))
                for j in range(nops):
                    s.add(z3.ULT(sym["tid"][j], z3.BitVecVal(1 << 62, 64)))
                s.add(z3.ULT(end, tid))
                t0 = time.time()
                r = s.check()
                timer[0] += time.time() - t0
                nq += 1
                if r == z3.sat:
                    m = s.model()
                    s.pop()
                    return {"message": "a committed publish carried history table id %s but the replica's sequence stays below it (next ids repeat after a leader change / restart)"
                            % m.eval(tid, model_completion=True), "tags": ["history-high-water-mark-not-applied"],
                            "model": {"trace": [list(map(str, e)) for e in obs["trace"]], "contents": [m.eval(c, model_completion=True).as_string() for c in sym["c"]]}}, nq
                s.pop()
    return None, nq


def paging_obligation(prog, tier):
    """K09.3: pages of TenantIndex::query_config_page tile the full listing"""
    timer = [0.0]
    ob = {"engine": "smt", "harness": "s09_3_paging", "encodes": ["TenantIndex::query_config_page", "ConfigIndex::query_config_page", "ConfigQueryParam::{match_group,match_data_id}",
          "TenantIndex::insert_config (to build the index)"], "encodes_files": FILES,
          "bound": "index with 2 tenants x (2 + 1) keys; no group/dataId filters; tenant filter = each tenant; offset 0..=3 and limit 1..=3 symbolic", "queries": 0, "solver_s": 0.0, "distinct": 0}
    try:
        it = rseval.Interp(prog)
        it.lenient = True
        off, lim = z3.BitVec("offset", 64), z3.BitVec("limit", 64)
        keys = [key("a", "g", "t1"), key("b", "g", "t1"), key("c", "g", "t2")]
        viol = None
        nq = 0
        # every API entry point builds the query with Some(tenant) (openapi/config/api.rs build_*search_param,
        # console/model/config_model.rs to_param): the tenant == None branch is reachable from unit tests only and is
        # not part of the claim (the solver does find that its pages do not tile: offset is applied per tenant)
        for tenant in ("t1", "t2"):
            def build():
                ti = it.default_of_type("TenantIndex")
                for k in keys:
                    it.call_method("TenantIndex", "insert_config", ti, [k])
                return ti

            def thunk(tenant=tenant):
                ti = build()
                group = Struct("NamespacePrivilegeGroup", {"0": Struct("PrivilegeGroup", {"enabled": True, "whitelist_is_all": True, "whitelist": NONE,
                                                                                         "blacklist_is_all": False, "blacklist": NONE})})
                p = Struct("ConfigQueryParam", {"tenant": Some(tenant) if tenant is not None else NONE, "group": NONE, "data_id": NONE, "like_group": NONE,
                                                "like_data_id": NONE, "namespace_privilege": group, "query_context": False, "offset": off, "limit": lim})
                total, page = it.call_method("TenantIndex", "query_config_page", ti, [p])
                return total, [(k["tenant"], k["group"], k["data_id"]) for k in page]
            it.solver.push()
            it.solver.add(z3.ULE(off, 3), z3.UGE(lim, 1), z3.ULE(lim, 3))
            paths = it.explore(thunk)
            it.solver.pop()
            full = sorted((k["tenant"], k["group"], k["data_id"]) for k in keys if tenant is None or k["tenant"] == tenant)
            s = z3.Solver()
            for pc, r, exc in paths:
                s.push()
                s.add(*pc)
                s.add(z3.ULE(off, 3), z3.UGE(lim, 1), z3.ULE(lim, 3))
                if s.check() != z3.sat:
                    s.pop()
                    continue
                nq += 1
                m = s.model()
                o, l = m.eval(off, model_completion=True).as_long(), m.eval(lim, model_completion=True).as_long()
                # along one path the page content is concrete and (offset, limit) lie in a region; every (o,l) of the region must
                # give full[o:o+l]: ask for a member of the region whose expected page differs
                if exc is not None:
                    viol = {"message": "listing panics: %s" % exc, "tags": ["paging-panic"], "model": {"tenant": tenant, "offset": o, "limit": l}}
                else:
                    total, page = r
                    bad = []
                    for oo in range(4):
                        for ll in range(1, 4):
                            if full[oo:oo + ll] != page or total != len(full):
                                bad.append(z3.And(off == oo, lim == ll))
                    s.add(z3.Or(*bad) if bad else z3.BoolVal(False))
                    t0 = time.time()
                    r2 = s.check()
                    timer[0] += time.time() - t0
                    nq += 1
                    if r2 == z3.sat:
                        m = s.model()
                        o, l = m.eval(off, model_completion=True).as_long(), m.eval(lim, model_completion=True).as_long()
                        viol = {"message": "listing with tenant filter %r, offset %d, limit %d returns %s (total %s) instead of %s (total %d)"
                                % (tenant, o, l, page, total, full[o:o + l], len(full)), "tags": ["paging-does-not-tile", "no-tenant-filter" if tenant is None else "tenant-filter"],
                                "model": {"tenant": tenant, "offset": o, "limit": l, "page": page, "expected": full[o:o + l]}}
                s.pop()
                if viol:
                    break
            if viol:
                break
        ob["queries"] = nq + it.queries
        ob["solver_s"] = round(timer[0], 2)
        if viol:
            ob.update({"verdict": "violation", "message": viol["message"], "tags": viol["tags"], "counterexample": viol["model"]})
        else:
            ob.update({"verdict": "discharged", "distinct": nq})
    except rsparse.Unsupported as e:
        ob.update({"verdict": "inconclusive", "message": "encoder met source it cannot encode: %s" % e})
    return ob


def history_bound_obligation(prog):
    ob = {"engine": "smt", "harness": "s09_2_history_bound", "encodes": ["ConfigValue::update_value"], "encodes_files": FILES,
          "bound": "a value holding 100 history entries receives one more publish (content symbolic)", "queries": 0, "solver_s": 0.0, "distinct": 0}
    try:
        it = make_interp(prog)
        c = z3.String("content")
        hist = [Struct("HistoryItem", {"id": i, "content": "c%d" % i, "modified_time": i, "op_user": NONE}) for i in range(1, 101)]
        v = Struct("ConfigValue", {"content": "c100", "md5": "md5:c100", "tmp": False, "histories": hist, "config_type": NONE, "desc": NONE, "last_modified": 100})
        paths = it.explore(lambda: it.call_method("ConfigValue", "update_value", v, [c, 101, 101, NONE, NONE]) or v)
        ok = True
        for pc, r, exc in paths:
            if exc is not None or len(v["histories"]) != 100 or v["histories"][0]["id"] != 2 or v["histories"][-1]["id"] != 101:
                ok = False
        if ok:
            ob.update({"verdict": "discharged", "distinct": 1, "queries": 1})
        else:
            ob.update({"verdict": "violation", "message": "history is not bounded to the newest 100 entries (len %d, first id %s, last id %s)"
                       % (len(v["histories"]), v["histories"][0]["id"], v["histories"][-1]["id"]), "tags": ["history-bound"], "counterexample": {"len": len(v["histories"])}})
    except rsparse.Unsupported as e:
        ob.update({"verdict": "inconclusive", "message": "encoder met source it cannot encode: %s" % e})
    return ob


def run(tier, seed, only_c19=False):
    t0 = time.time()
    info = {"files": FILES, "solver": "z3 " + z3.get_version_string(), "cmd": "python3-vt -m lib.main C09 (rs2smt/c09.py)"}
    obligations = []
    try:
        prog = load_program(FILES)
    except rsparse.Unsupported as e:
        return {"obligations": [{"engine": "smt", "harness": "s09_parse", "verdict": "inconclusive", "message": str(e)}], "info": info}
    nops = 3 if tier == "quick" else 4
    stats = {"paths": 0, "queries": 0}
    timer = [0.0]
    ob = {"engine": "smt", "harness": "s09_1_history" if not only_c19 else "s19_5_config_history_ids",
          "encodes": ["ConfigActor::set_config", "ConfigActor::del_config", "Handler<ConfigCmd>::handle (GET arm)", "ConfigValue::{init,update_value}",
                      "TenantIndex::{insert_config,remove_config}", "ConfigIndex::{insert_config,remove_config}", "SimpleSequence::set_valid_last_id"],
          "encodes_files": FILES, "bound": "every history of %d operations over {publish, remove} x 2 keys; contents, type, description arbitrary strings; optional history table id" % nops,
          "queries": 0, "solver_s": 0.0, "distinct": 0}
    try:
        # the sequence clause (C19) does not depend on type / description: they are tied together there at every tier
        # type and description are tied together (both present or both absent) in the long histories; the thorough tier adds a 3-operation
        # obligation in which they are independent (s09_1b)
        paths, sym = history_scenario(prog, nops, stats, share_meta=True)
        if only_c19:
            viol, nq = check_sequence(paths, sym, nops, timer)
        else:
            viol, nq = check_history(paths, sym, nops, timer)
        ob["queries"] = stats["queries"] + nq
        ob["solver_s"] = round(timer[0], 2)
        ob["sample"] = {"paths_explored": stats["paths"], "opaque_symbols": stats.get("opaque", [])[:20]}
        if viol is None:
            if stats["paths"] < 8:
                ob.update({"verdict": "inconclusive", "message": "only %d paths explored (vacuous?)" % stats["paths"]})
            else:
                ob.update({"verdict": "discharged", "distinct": nq})
        elif viol.get("inconclusive"):
            ob.update({"verdict": "inconclusive", "message": viol["message"]})
        else:
            ob.update({"verdict": "violation", "message": viol["message"], "tags": viol["tags"], "counterexample": viol["model"], "_ops": viol.get("ops")})
        # translator validation material: sampled discharged paths, one model each
        if viol is None and not only_c19:
            import random
            rnd = random.Random(seed)
            sv = z3.Solver()
            hist = []
            okp = [(pc, obs) for pc, obs, exc in paths if exc is None]
            for pc, obs in rnd.sample(okp, min(10 if tier == "quick" else 40, len(okp))):
                sv.push()
                sv.add(*pc)
                if sv.check() == z3.sat:
                    hist.append({"ops": ops_from_trace(obs["trace"], sym, sv.model())})
                sv.pop()
            ob["_validate"] = hist
    except rsparse.Unsupported as e:
        ob.update({"verdict": "inconclusive", "message": "encoder met source it cannot encode: %s" % e})
    obligations.append(ob)
    if not only_c19 and tier != "quick":
        ob2 = {"engine": "smt", "harness": "s09_1b_history_independent_meta", "encodes": ob["encodes"], "encodes_files": FILES,
               "bound": "every history of 3 operations over {publish, remove} x 2 keys; type and description present independently", "queries": 0, "solver_s": 0.0, "distinct": 0}
        try:
            st2 = {"paths": 0, "queries": 0}
            tm2 = [0.0]
            p2, sym2 = history_scenario(prog, 3, st2, share_meta=False)
            v2, nq2 = check_history(p2, sym2, 3, tm2)
            ob2["queries"] = st2["queries"] + nq2
            ob2["solver_s"] = round(tm2[0], 2)
            ob2["sample"] = {"paths_explored": st2["paths"]}
            if v2 is None:
                ob2.update({"verdict": "discharged", "distinct": nq2})
            elif v2.get("inconclusive"):
                ob2.update({"verdict": "inconclusive", "message": v2["message"]})
            else:
                ob2.update({"verdict": "violation", "message": v2["message"], "tags": v2["tags"], "counterexample": v2["model"], "_ops": v2.get("ops")})
        except rsparse.Unsupported as e:
            ob2.update({"verdict": "inconclusive", "message": "encoder met source it cannot encode: %s" % e})
        obligations.append(ob2)
    if not only_c19:
        obligations.append(history_bound_obligation(prog))
        obligations.append(paging_obligation(prog, tier))
        from . import c09filter, c09import
        obligations.append(c09filter.run(tier, seed))
        obligations.append(c09import.run(tier, seed))
    from lib import native
    import os
    from .common import native_histories
    native_ok = not os.environ.get("VERIF_NO_NATIVE")
    prop_id = "C19" if only_c19 else "C09"
    for ob in obligations:
        ops = ob.pop("_ops", None)
        if ob.get("verdict") == "violation":
            if ops and native_ok:
                rr = native_histories(prop_id, "config", "violation", [{"ops": ops}], {"obligation": ob["harness"], "model": ob.get("counterexample")}, ob["message"])
                ob["replay_path"] = rr["path"]
                ob["replay"] = {"path": rr["path"], "outcome": rr["outcome"], "message": rr["message"]}
                if rr["outcome"] != "reproduced":
                    ob.update({"verdict": "inconclusive", "message": "engine-S counterexample (%s) did not reproduce on the real ConfigActor (%s %s)" % (ob["message"], rr["outcome"], rr["message"])})
                else:
                    ob["message"] = "%s [real ConfigActor: %s]" % (ob["message"], rr["message"][:300])
                continue
            path = native.write_replay(prop_id, "c09", "model", [], {"engine": "smt", "mode": "model-only", "obligation": ob["harness"],
                                                                     "message": ob["message"], "model": ob.get("counterexample")})
            ob["replay_path"] = path
            ob["replay"] = {"path": path, "outcome": "model-only", "message": "operation history for the config store (history ids / index internals are not observable through the actor's messages)"}
    if not only_c19:
        # request parameters of a listing -> listing (its own native twin: harness/hist_search.rs)
        from . import c09search
        obligations.append(c09search.run(tier, seed))
        # the gRPC handlers address the store with the same key as everybody else ('public' -> '')
        from . import c09grpc
        gob = c09grpc.run(tier, seed)
        if gob.get("verdict") == "violation" and native_ok:
            path = native.write_replay(prop_id, "c09", "model", [], {"engine": "smt", "mode": "model-only", "obligation": gob["harness"], "message": gob["message"], "model": gob.get("counterexample")})
            gob["replay_path"] = path
            gob["replay"] = {"path": path, "outcome": "model-only", "message": "request and the key the handler builds from it"}
        obligations.append(gob)
    hist = [h for ob in obligations for h in ob.pop("_validate", [])]
    if hist and native_ok:
        val = native_histories(prop_id, "config", "validate", hist)
        info["translator_validation"] = val
        if val["outcome"] != "passed":
            obligations.append({"engine": "smt", "harness": "s09_translator_validation", "verdict": "inconclusive", "queries": 0, "solver_s": 0,
                                "message": "the real ConfigActor and the encoding disagree on a sampled history: %s" % val["message"]})
    info["wall_s"] = round(time.time() - t0, 1)
    return {"obligations": obligations, "info": info}


if __name__ == "__main__":
    import sys
    r = run(sys.argv[1] if len(sys.argv) > 1 else "quick", 0, only_c19=len(sys.argv) > 2)
    for ob in r["obligations"]:
        print(ob["harness"], ob.get("verdict"), str(ob.get("message", ""))[:500], ob.get("counterexample"), ob.get("queries"), ob.get("solver_s"), str(ob.get("sample"))[:300])
    print(r["info"])
