"""Route tables of the two HTTP ports, obtained by *evaluating* the real actix builder chains of
/repo's current source (web_config.rs and everything it calls) in the symbolic evaluator, with the
actix builder methods modelled as data constructors. Configuration flags stay symbolic: every
registration is returned together with the condition under which it is made."""
import os
import re

import z3

from . import rseval, rsparse
from .common import REPO
from .rseval import Struct, Enum, NONE

METHODS = {"get": "GET", "post": "POST", "put": "PUT", "delete": "DELETE", "patch": "PATCH", "head": "HEAD", "trace": "TRACE",
           "options": "OPTIONS"}


def load_all():
    prog = rseval.Program()
    prog.fn_attrs = {}
    prog.fn_file = {}
    bad = []
    for root, _d, files in os.walk(os.path.join(REPO, "src")):
        for f in sorted(files):
            if not f.endswith(".rs"):
                continue
            p = os.path.join(root, f)
            try:
                items = rsparse.parse_file(p)
            except rsparse.Unsupported as e:
                bad.append((p, str(e)))
                continue
            prog.add_items(items, os.path.relpath(p, REPO))
            _collect_attrs(prog, items, os.path.relpath(p, REPO))
    return prog, bad


def _collect_attrs(prog, items, rel):
    for it in items:
        if it[0] == "fn":
            prog.fn_file.setdefault(it[1], rel)
            if len(it) > 4 and it[4]:
                prog.fn_attrs[it[1]] = it[4]
        elif it[0] == "mod":
            _collect_attrs(prog, it[2], rel)


def install_actix_models(it):
    def scope(interp, args):
        return Struct("Scope", {"prefix": args[0], "items": []})

    def resource(interp, args):
        return Struct("Resource", {"path": args[0], "routes": []})
    it.fn_models["web::scope"] = scope
    it.fn_models["web::resource"] = resource
    it.fn_models["scope"] = scope
    it.fn_models["resource"] = resource
    for fn, m in METHODS.items():
        it.fn_models["web::" + fn] = (lambda mm: (lambda interp, args: Struct("Route", {"method": mm, "handler": None})))(m)
    it.fn_models["web::route"] = lambda interp, args: Struct("Route", {"method": "*", "handler": None})
    it.fn_models["web::method"] = lambda interp, args: Struct("Route", {"method": str(args[0]), "handler": None})

    def service(interp, recv, args):
        recv["items"].append(args[0])
        return recv

    def configure(interp, recv, args):
        f = args[0]
        if isinstance(f, tuple) and f[0] == "fnref":
            interp.call_fn(f[1], [recv])
        else:
            interp.call_value(f, [recv])
        return recv

    def passthrough(interp, recv, args):
        return recv
    for ty in ("Scope", "ServiceConfig"):
        it.models[(ty, "service")] = service
        it.models[(ty, "configure")] = configure
        for nm in ("wrap", "app_data", "guard", "default_service", "wrap_fn", "external_resource"):
            it.models[(ty, nm)] = passthrough

    def cfg_route(interp, recv, args):
        r = Struct("Resource", {"path": args[0], "routes": [args[1]]})
        recv["items"].append(r)
        return recv
    it.models[("ServiceConfig", "route")] = cfg_route
    it.models[("Scope", "route")] = cfg_route

    def res_route(interp, recv, args):
        recv["routes"].append(args[0])
        return recv
    it.models[("Resource", "route")] = res_route
    for nm in ("wrap", "app_data", "guard", "name", "default_service"):
        it.models[("Resource", nm)] = passthrough

    def res_to(interp, recv, args):
        recv["routes"].append(Struct("Route", {"method": "*", "handler": args[0]}))
        return recv
    it.models[("Resource", "to")] = res_to

    def route_to(interp, recv, args):
        recv["handler"] = args[0]
        return recv
    it.models[("Route", "to")] = route_to
    it.models[("Route", "guard")] = passthrough

    def route_method(interp, recv, args):
        recv["method"] = str(args[0]).split("::")[-1]
        return recv
    it.models[("Route", "method")] = route_method


def handler_name(h):
    if isinstance(h, tuple):
        if h[0] in ("fnref",):
            return h[1]
        if h[0] == "extern":
            return h[1]
        if h[0] == "methodref":
            return "%s::%s" % (h[1], h[2])
    return repr(h)


ATTR_RE = re.compile(r'^(?:actix_web::)?(get|post|put|delete|patch|head|route)\("((?:[^"\\]|\\.)*)"')


def flatten(prog, items, prefix, out):
    for x in items:
        if isinstance(x, Struct) and x.ty == "Scope":
            flatten(prog, x["items"], prefix + x["prefix"], out)
        elif isinstance(x, Struct) and x.ty == "Resource":
            for r in x["routes"]:
                out.append((prefix + x["path"], r["method"], handler_name(r["handler"])))
            if not x["routes"]:
                out.append((prefix + x["path"], "*", "<no route>"))
        elif isinstance(x, tuple) and x[0] in ("fnref", "extern"):
            name = x[1].split("::")[-1]
            attrs = prog.fn_attrs.get(name, [])
            found = False
            for a in attrs:
                m = ATTR_RE.match(a)
                if m:
                    out.append((prefix + rsparse.unescape(m.group(2)), METHODS.get(m.group(1), "*"), name))
                    found = True
            if not found:
                raise rsparse.Unsupported("service(%s): handler without a route attribute" % x[1])
        else:
            raise rsparse.Unsupported("unrecognised service registration %r" % (x,))


def extract(prog, entry, conf_fields=None):
    """evaluate entry(config) (or the closure entry(conf) returns) under every combination of the symbolic
    configuration flags; returns [(path condition terms, [(pattern, method, handler)])]"""
    it = rseval.Interp(prog)
    install_actix_models(it)
    conf = None
    flags = {}
    if conf_fields is not None:
        for f in conf_fields:
            flags[f] = z3.Bool("cfg_" + f)
        conf = Struct("AppSysConfig", dict(flags))

    def thunk():
        cfg = Struct("ServiceConfig", {"items": []})
        if conf is not None:
            clo = it.call_fn(entry, [conf])
            it.call_value(clo, [cfg])
        else:
            it.call_fn(entry, [cfg])
        out = []
        flatten(prog, cfg["items"], "", out)
        return out
    paths = it.explore(thunk)
    res = []
    for pc, r, exc in paths:
        if exc is not None:
            raise rsparse.Unsupported("panic while evaluating %s: %s" % (entry, exc))
        res.append((pc, r))
    return res, flags, it.queries


# ---------------------------------------------------------------------------------------------------
# actix resource patterns -> z3 RegLan  ({name} = [^/]+ ; {name:re} = re ; tail patterns {x:.*})
# ---------------------------------------------------------------------------------------------------
PROTECTED = "%/+"  # actix_router::url::DEFAULT_QUOTER = Quoter::new(b"", b"%/+")


def enc_char(c):
    """raw spellings of one path character that actix's router requotes to c before matching: c itself or its
    percent-encoding (hex digits in either case), unless c is protected"""
    if c in PROTECTED or ord(c) > 126:
        return z3.Re(c)
    hx = "%02X" % ord(c)
    alts = {"%" + a + b for a in {hx[0], hx[0].lower()} for b in {hx[1], hx[1].lower()}}
    return z3.Union(z3.Re(c), *[z3.Re(a) for a in sorted(alts)])


def enc_literal(lit):
    parts = [enc_char(c) for c in lit]
    return parts[0] if len(parts) == 1 else z3.Concat(*parts)


def pattern_to_re(pat, raw=False):
    """raw=False: language of the (requoted) path the router matches. raw=True: language of the raw request paths
    that the router requotes into it (what a middleware calling request.path() sees)."""
    parts = []
    i = 0
    lit = ""
    while i < len(pat):
        c = pat[i]
        if c == "{":
            j = i
            depth = 0
            while True:
                if pat[j] == "{":
                    depth += 1
                elif pat[j] == "}":
                    depth -= 1
                    if depth == 0:
                        break
                j += 1
            body = pat[i + 1:j]
            if lit:
                parts.append(enc_literal(lit) if raw else z3.Re(lit))
                lit = ""
            if ":" in body:
                rx = body.split(":", 1)[1]
                parts.append(rseval.regex_to_z3(rx, anchored=True))
            else:
                not_slash = z3.Union(z3.Range(chr(0), chr(0x2e)), z3.Range(chr(0x30), chr(0xff)))
                parts.append(z3.Plus(not_slash))
            i = j + 1
        else:
            lit += c
            i += 1
    if lit:
        parts.append(enc_literal(lit) if raw else z3.Re(lit))
    if not parts:
        return z3.Re("")
    return parts[0] if len(parts) == 1 else z3.Concat(*parts)
