"""C17 — console: every API needs a login session; roles cannot exceed their grants.

Symbolic evaluation of the real source:
  * console route table = evaluation of web_config::console_config (routes.py);
  * role tables = evaluation of UserRole::match_url_by_roles and everything it reaches in
    src/user/permission.rs (lazy_static module/group tables, PathResource::match_url, ...), path and
    method symbolic strings, role list concrete;
  * CheckLoginMiddleware::call (src/console/middle/login_middle.rs) evaluated in lenient mode with the
    request path/method, token and session lookup as symbolic environment.
"""
import time

import z3

from . import rseval, rsparse, routes
from .c16 import find_let, solve
from .rseval import Struct, Enum, NONE, Some, Ok, Err, Uninterp

FILES = ["src/user/permission.rs", "src/console/middle/login_middle.rs", "src/console/api.rs", "src/web_config.rs"]
LOGIN_EXEMPT = ["/rnacos/api/console/login/login", "/rnacos/api/console/login/captcha", "/rnacos/api/console/v2/login/login",
                "/rnacos/api/console/v2/login/captcha", "/rnacos/api/console/v2/login/config", "/rnacos/api/console/v2/login/oauth2/login"]
ROLES = {"manager": "0", "developer": "1", "visitor": "2"}
# non-GET routes a visitor may use: session handling and changing the own password (not data of the property's list)
VISITOR_NONGET_OK = ("/login/login", "/login/logout", "/login/oauth2/login", "/user/reset_password")
API_PREFIX = "/rnacos/api/"

valid_session = z3.Function("valid_session", z3.StringSort(), z3.BoolSort())


def allowed_formula(prog, roles, path, method, stats):
    it = rseval.Interp(prog)
    paths = it.explore(lambda: it.call_method("UserRole", "match_url_by_roles", None, [list(roles), path, method]))
    stats["paths"] += len(paths)
    stats["queries"] += it.queries
    terms = []
    for pc, r, exc in paths:
        if exc is not None:
            raise rsparse.Unsupported("panic in match_url_by_roles: %s" % exc)
        terms.append(z3.And(*(pc + [rseval.to_bool(r)])))
    return z3.Or(*terms) if terms else z3.BoolVal(False)


def check_path_formula(prog, path):
    fn = prog.trait_method("CheckLoginMiddleware", "call", "Service")
    if fn is None:
        raise rsparse.Unsupported("Service::call of CheckLoginMiddleware not found")
    init = find_let(fn[3], "is_check_path")
    if init is None:
        raise rsparse.Unsupported("let is_check_path not found in CheckLoginMiddleware::call")
    it = rseval.Interp(prog)
    it.cur_file.append(prog.item_file.get(id(fn)))
    env = rseval.Env()
    env.define("path", path)
    return rseval.to_bool(it.eval(init, env))


def eval_login_middleware(prog, perm_fn):
    it = rseval.Interp(prog)
    it.lenient = True
    path, method = z3.String("path"), z3.String("method")
    cookie_tok, header_tok = z3.String("cookie_token"), z3.String("header_token")
    has_cookie, has_header = z3.Bool("has_cookie_token"), z3.Bool("has_header_token")
    request = Struct("ServiceRequest", {})
    it.models[("ServiceRequest", "path")] = lambda interp, recv, args: path
    it.models[("ServiceRequest", "method")] = lambda interp, recv, args: Struct("Method", {})
    it.models[("Method", "as_str")] = lambda interp, recv, args: method
    it.models[("ServiceRequest", "cookie")] = lambda interp, recv, args: Some(Struct("Cookie", {})) if interp.branch(has_cookie) else NONE
    it.models[("Cookie", "value")] = lambda interp, recv, args: cookie_tok
    it.models[("ServiceRequest", "headers")] = lambda interp, recv, args: Struct("HeaderMap", {})
    it.models[("HeaderMap", "get")] = lambda interp, recv, args: Some(Struct("HeaderValue", {})) if interp.branch(has_header) else NONE
    it.models[("HeaderValue", "to_str")] = lambda interp, recv, args: Ok(header_tok)
    used = {}

    lookup_err = z3.Bool("session_lookup_fails")

    def get_user_session(interp, args):
        tok = args[1]
        used["tok"] = tok
        # the lookup itself can fail (token not in the local cache and the leader cannot be asked): no session is known then
        if interp.branch(lookup_err):
            return Err(Uninterp("session-lookup-error", []))
        if interp.branch(valid_session(rseval.to_str(tok))):
            return Ok(Some(Struct("UserSession", {"roles": Uninterp("session_roles", [])})))
        return Ok(NONE)
    it.fn_models["get_user_session"] = get_user_session
    it.fn_models["Box::pin"] = lambda interp, args: args[0]
    perm = z3.Bool("session_roles_permit")

    def match_url_by_roles(interp, args):
        return perm
    it.fn_models["UserRole::match_url_by_roles"] = match_url_by_roles
    service = Struct("InnerService", {})

    def call(interp, recv, args):
        interp.emit("forward", None)
        return Uninterp("forwarded", [])
    it.models[("InnerService", "call")] = call
    mw = Struct("CheckLoginMiddleware", {"service": service, "app_share_data": Uninterp("app", [])})
    fn = prog.trait_method("CheckLoginMiddleware", "call", "Service")
    paths = it.explore(lambda: it._invoke(fn, [mw, request], self_ty="CheckLoginMiddleware"))
    for pc, r, exc in paths:
        if exc is not None:
            raise rsparse.Unsupported("panic in middleware evaluation: %s" % exc)
    fwd = []
    for pc, events in it.all_events:
        for name, epc, payload in events:
            if name == "forward":
                fwd.append(z3.And(*epc) if epc else z3.BoolVal(True))
    forward = z3.Or(*fwd) if fwd else z3.BoolVal(False)
    sy = dict(path=path, method=method, cookie_tok=cookie_tok, header_tok=header_tok, has_cookie=has_cookie, has_header=has_header, perm=perm, lookup_err=lookup_err)
    return forward, sy, sorted(it.opaque_seen), len(paths), it.queries


def run(tier, seed):
    t0 = time.time()
    info = {"files": FILES, "solver": "z3 " + z3.get_version_string(), "cmd": "python3-vt -m lib.main C17 (rs2smt/c17.py)"}
    obligations = []
    try:
        prog, bad = routes.load_all()
        res, _flags, _q = routes.extract(prog, "console_config", None)
        if len(res) != 1:
            raise rsparse.Unsupported("console_config has configuration-dependent registrations")
        rts = res[0][1]
    except rsparse.Unsupported as e:
        return {"obligations": [{"engine": "smt", "harness": "s17_extract", "verdict": "inconclusive", "message": str(e)}], "info": info}
    path, method = z3.String("path"), z3.String("method")
    api_routes = [(p, m, h) for (p, m, h) in rts if p.startswith(API_PREFIX)]

    # ---- S17.1 every API route outside the login list is a checked path (no-session requests are refused there)
    timer = [0.0, 0]
    ob = {"engine": "smt", "harness": "s17_1_api_routes_checked", "encodes": ["web_config::console_config and callees", "CheckLoginMiddleware::call: is_check_path",
          "IGNORE_CHECK_LOGIN", "STATIC_FILE_PATH"], "encodes_files": FILES, "bound": "every registered console API route pattern x every path string in its language",
          "queries": 0, "solver_s": 0.0, "distinct": 0}
    try:
        chk = check_path_formula(prog, path)
        s = z3.Solver()
        s.set("timeout", 60000)
        not_login = z3.And(*[path != z3.StringVal(e) for e in LOGIN_EXEMPT])
        verdict = "discharged"
        seen = set()
        for pat, m, h in api_routes:
            if pat in seen:
                continue
            seen.add(pat)
            s.push()
            s.add(z3.InRe(path, routes.pattern_to_re(pat)), not_login, z3.Not(chk))
            r = solve(s, timer)
            if r == z3.sat:
                w = s.model().eval(path, model_completion=True).as_string()
                ob.update({"verdict": "violation", "message": "console API route %s (%s) is served on path %r without the login check" % (pat, h, w),
                           "counterexample": {"route": pat, "path": w}, "tags": ["unchecked-console-route"],
                           "cases": [{"kind": "route_match", "route": pat, "path": w, "expect": True}, {"kind": "console_check_path", "path": w, "expect": False}]})
                verdict = "violation"
            elif r != z3.unsat:
                ob.update({"verdict": "inconclusive", "message": "solver %s on route %s" % (r, pat)})
                verdict = "inconclusive"
            s.pop()
            if verdict != "discharged":
                break
        if verdict == "discharged":
            it = rseval.Interp(prog)
            it.cur_file.append("src/console/middle/login_middle.rs")
            ign = it.const("IGNORE_CHECK_LOGIN")
            extra = [x for x in ign if x.startswith(API_PREFIX) and x not in LOGIN_EXEMPT]
            if extra:
                ob.update({"verdict": "violation", "message": "login ignore list contains API path(s) %r that are not login endpoints" % extra,
                           "counterexample": {"ignore_entries": extra}, "tags": ["over-broad-login-ignore"],
                           "cases": [{"kind": "console_ignore_contains", "path": x, "expect": True} for x in extra]})
                verdict = "violation"
        if verdict == "discharged":
            ob.update({"verdict": "discharged", "distinct": len(seen)})
        ob["sample"] = {"api_routes": len(seen), "example": sorted(seen)[:4]}
    except rsparse.Unsupported as e:
        ob.update({"verdict": "inconclusive", "message": "encoder met source it cannot encode: %s" % e})
    ob["queries"], ob["solver_s"] = timer[1], round(timer[0], 2)
    obligations.append(ob)

    # ---- role algebra
    timer = [0.0, 0]
    stats = {"paths": 0, "queries": 0}
    ob = {"engine": "smt", "harness": "s17_2_roles", "encodes": ["UserRole::{new,get_resources,match_url,match_url_by_roles}", "GroupResource::{new,match_url}",
          "ModuleResource::new", "PathResource::match_url", "role/module tables (lazy_static) of src/user/permission.rs"], "encodes_files": FILES,
          "bound": "every registered console route x method; path/method symbolic inside the role evaluation; role lists: each single role, every pair, unknown and empty",
          "queries": 0, "solver_s": 0.0, "distinct": 0}
    try:
        A = {name: allowed_formula(prog, [val], path, method, stats) for name, val in ROLES.items()}
        A_unknown = allowed_formula(prog, ["7"], path, method, stats)
        A_emptyrole = allowed_formula(prog, [""], path, method, stats)
        A_none = allowed_formula(prog, [], path, method, stats)
        s = z3.Solver()
        s.set("timeout", 120000)
        registered = []
        for pat, m, h in rts:
            meths = [m] if m != "*" else ["GET", "POST", "PUT", "DELETE"]
            for mm in meths:
                registered.append((pat, mm, h))
        verdict = "discharged"

        def fail(msg, tags, cases, ce):
            ob.update({"verdict": "violation", "message": msg, "tags": tags, "cases": cases, "counterexample": ce})

        def at(pat, mm):
            return z3.And(z3.InRe(path, routes.pattern_to_re(pat)), method == z3.StringVal(mm))
        nchecks = 0
        for pat, mm, h in registered:
            if verdict != "discharged":
                break
            s.push()
            s.add(at(pat, mm))
            # monotone: visitor => developer => manager
            for lo, hi in (("visitor", "developer"), ("developer", "manager")):
                s.push()
                s.add(A[lo], z3.Not(A[hi]))
                r = solve(s, timer)
                nchecks += 1
                if r == z3.sat:
                    w = s.model().eval(path, model_completion=True).as_string()
                    fail("role %s may %s %s but the higher role %s may not" % (lo, mm, w, hi), ["role-not-monotone"],
                         [{"kind": "role_match", "roles": [ROLES[lo]], "path": w, "method": mm, "expect": True},
                          {"kind": "role_match", "roles": [ROLES[hi]], "path": w, "method": mm, "expect": False}], {"path": w, "method": mm, "lower": lo, "higher": hi})
                    verdict = "violation"
                s.pop()
                if verdict != "discharged":
                    break
            # write protection of the visitor
            if verdict == "discharged" and pat.startswith(API_PREFIX) and mm != "GET" and not pat.endswith(VISITOR_NONGET_OK):
                s.push()
                s.add(A["visitor"])
                r = solve(s, timer)
                nchecks += 1
                if r == z3.sat:
                    w = s.model().eval(path, model_completion=True).as_string()
                    fail("a visitor may %s %s (handler %s)" % (mm, w, h), ["visitor-can-write"],
                         [{"kind": "role_match", "roles": [ROLES["visitor"]], "path": w, "method": mm, "expect": True}], {"path": w, "method": mm})
                    verdict = "violation"
                s.pop()
            # developer: no user management, no transfer
            if verdict == "discharged" and (any(x in pat for x in ("/user/add", "/user/update", "/user/remove")) or "/transfer/" in pat):
                s.push()
                s.add(A["developer"])
                r = solve(s, timer)
                nchecks += 1
                if r == z3.sat:
                    w = s.model().eval(path, model_completion=True).as_string()
                    fail("a developer may %s %s (handler %s)" % (mm, w, h), ["developer-can-manage-users-or-transfer"],
                         [{"kind": "role_match", "roles": [ROLES["developer"]], "path": w, "method": mm, "expect": True}], {"path": w, "method": mm})
                    verdict = "violation"
                s.pop()
            s.pop()
        # unknown / empty role lists allow nothing, anywhere (not only on registered routes)
        if verdict == "discharged":
            for label, F, roles in (("unknown role string", A_unknown, ["7"]), ("empty role string", A_emptyrole, [""]), ("no role", A_none, [])):
                s.push()
                s.add(F)
                r = solve(s, timer)
                nchecks += 1
                if r == z3.sat:
                    m_ = s.model()
                    w, wm = m_.eval(path, model_completion=True).as_string(), m_.eval(method, model_completion=True).as_string()
                    fail("a user with %s may %s %s" % (label, wm, w), ["unknown-role-allowed"],
                         [{"kind": "role_match", "roles": roles, "path": w, "method": wm, "expect": True}], {"path": w, "method": wm, "roles": roles})
                    verdict = "violation"
                s.pop()
                if verdict != "discharged":
                    break
        # an ARBITRARY role string outside the three canonical values grants nothing - alone, and next to a visitor's role (role values are stored
        # verbatim by user add / update; UserRole::new from source on a symbolic string)
        if verdict == "discharged":
            R = z3.String("unknown_role_string")
            noncanon = z3.And(*[R != z3.StringVal(v_) for v_ in ROLES.values()])
            for label, rl, base in (("alone", [R], z3.BoolVal(False)), ("next to the visitor role", [ROLES["visitor"], R], A["visitor"])):
                F = allowed_formula(prog, rl, path, method, stats)
                s.push()
                s.add(noncanon, F, z3.Not(base), z3.Length(R) < 6)
                r = solve(s, timer)
                nchecks += 1
                if r == z3.sat:
                    m_ = s.model()
                    w, wm, rv = m_.eval(path, model_completion=True).as_string(), m_.eval(method, model_completion=True).as_string(), m_.eval(R, model_completion=True).as_string()
                    roles_c = [x if isinstance(x, str) else rv for x in rl]
                    fail("a user whose role list is %r (role string %r is none of the three roles) may %s %s" % (roles_c, rv, wm, w), ["unknown-role-allowed"],
                         [{"kind": "role_match", "roles": roles_c, "path": w, "method": wm, "expect": True}], {"path": w, "method": wm, "roles": roles_c})
                    verdict = "violation"
                elif r != z3.unsat:
                    fail("solver %s on the arbitrary-role query" % r, ["solver"], [], {})
                    verdict = "inconclusive"
                s.pop()
                if verdict != "discharged":
                    break
        # several roles = union of the roles
        if verdict == "discharged":
            names = list(ROLES)
            for i in range(len(names)):
                for j in range(len(names)):
                    if i == j:
                        continue
                    F = allowed_formula(prog, [ROLES[names[i]], ROLES[names[j]]], path, method, stats)
                    s.push()
                    s.add(F != z3.Or(A[names[i]], A[names[j]]))
                    r = solve(s, timer)
                    nchecks += 1
                    if r == z3.sat:
                        m_ = s.model()
                        w, wm = m_.eval(path, model_completion=True).as_string(), m_.eval(method, model_completion=True).as_string()
                        both = bool(m_.eval(F, model_completion=True))
                        fail("roles [%s,%s] together %s %s %s, which differs from the union of the single roles" % (names[i], names[j], "may" if both else "may not", wm, w),
                             ["multi-role-not-union"], [{"kind": "role_match", "roles": [ROLES[names[i]], ROLES[names[j]]], "path": w, "method": wm, "expect": both}],
                             {"path": w, "method": wm})
                        verdict = "violation"
                    s.pop()
        # witnesses
        if verdict == "discharged":
            s.push()
            s.add(path == z3.StringVal("/rnacos/api/console/v2/config/add"), method == z3.StringVal("POST"), A["developer"], z3.Not(A["visitor"]))
            if solve(s, timer) != z3.sat:
                verdict = "inconclusive"
                ob.update({"verdict": "inconclusive", "message": "witness failed: developer-but-not-visitor route not found (vacuous encoding?)"})
            s.pop()
        if verdict == "discharged":
            ob.update({"verdict": "discharged", "distinct": nchecks})
        ob["sample"] = {"registered_route_methods": len(registered), "role_evaluation_paths": stats["paths"]}
    except rsparse.Unsupported as e:
        ob.update({"verdict": "inconclusive", "message": "encoder met source it cannot encode: %s" % e})
    ob["queries"], ob["solver_s"] = timer[1] + stats["queries"], round(timer[0], 2)
    obligations.append(ob)

    # ---- S17.5 middleware decision
    timer = [0.0, 0]
    ob = {"engine": "smt", "harness": "s17_5_middleware_decision", "encodes": ["CheckLoginMiddleware::call (whole body, lenient evaluation)"], "encodes_files": FILES,
          "bound": "every path/method string, every presence/value of the cookie and header token, every session-lookup answer (session, no session, lookup error), either permission answer",
          "queries": 0, "solver_s": 0.0, "distinct": 0}
    try:
        forward, sy, opaque, npaths, q = eval_login_middleware(prog, None)
        chk = check_path_formula(prog, sy["path"])
        s = z3.Solver()
        s.set("timeout", 60000)
        tok = z3.If(sy["has_cookie"], sy["cookie_tok"], z3.If(sy["has_header"], sy["header_tok"], z3.StringVal("")))
        ok = z3.And(tok != z3.StringVal(""), z3.Not(sy["lookup_err"]), valid_session(tok), sy["perm"])
        s.add(forward, chk, z3.Not(ok))
        r = solve(s, timer)
        if r == z3.sat:
            m_ = s.model()
            ce = {k: str(m_.eval(v, model_completion=True)) for k, v in sy.items()}
            ob.update({"verdict": "violation", "message": "request forwarded on a checked path without (non-empty token, valid session, role permission)",
                       "counterexample": ce, "tags": ["console-forwarded-without-session-or-permission"]})
        elif r == z3.unsat:
            s2 = z3.Solver()
            s2.add(forward, chk)
            s3 = z3.Solver()
            s3.add(z3.Not(forward), chk)
            if solve(s2, timer) == z3.sat and solve(s3, timer) == z3.sat:
                ob.update({"verdict": "discharged", "distinct": 3})
            else:
                ob.update({"verdict": "inconclusive", "message": "vacuity witness failed"})
        else:
            ob.update({"verdict": "inconclusive", "message": "solver answered %s" % r})
        ob["sample"] = {"paths_explored": npaths, "opaque_symbols": opaque[:40]}
        ob["queries"] = timer[1] + q
    except rsparse.Unsupported as e:
        ob.update({"verdict": "inconclusive", "message": "encoder met source it cannot encode: %s" % e})
    ob["solver_s"] = round(timer[0], 2)
    obligations.append(ob)

    # ---- translator validation against the real predicates (native build)
    obligations.append(validate(prog, rts, A if "A" in dir() else None, path, method, seed, 24 if tier == "quick" else 96))
    from . import webreplay
    for ob in obligations:
        if ob.get("verdict") == "violation":
            webreplay.attach(ob, "C17")
    info["wall_s"] = round(time.time() - t0, 1)
    return {"obligations": obligations, "info": info}


def validate(prog, rts, A, path, method, seed, k):
    """sample (role, route, method) triples and paths; the real UserRole::match_url_by_roles / regexes / ResourceDef must
    agree with the encoding"""
    import random
    from . import webreplay
    ob = {"engine": "smt", "harness": "s17_translator_validation", "encodes": ["encoding vs. real UserRole::match_url_by_roles, IGNORE_CHECK_LOGIN, STATIC_FILE_PATH, actix ResourceDef"],
          "bound": "%d sampled cases (VERIF_SEED)" % k, "queries": 0, "solver_s": 0.0, "distinct": 0}
    try:
        if A is None:
            raise rsparse.Unsupported("role formulas unavailable")
        rnd = random.Random(seed)
        cases = []
        chk = check_path_formula(prog, path)
        lits = [(p, m) for (p, m, h) in rts if "{" not in p]
        for _ in range(k):
            p, m = rnd.choice(lits)
            if rnd.random() < 0.3:
                m = rnd.choice(["GET", "POST", "PUT", "DELETE"])
            if rnd.random() < 0.2:
                p = p + rnd.choice(["/", "x", ".js", "/../a.css"])
            role = rnd.choice(list(ROLES))
            sub = [(path, z3.StringVal(p)), (method, z3.StringVal(m))]
            exp = z3.is_true(z3.simplify(z3.substitute(A[role], *sub)))
            cases.append({"kind": "role_match", "roles": [ROLES[role]], "path": p, "method": m, "expect": exp})
            expc = z3.is_true(z3.simplify(z3.substitute(chk, *sub)))
            cases.append({"kind": "console_check_path", "path": p, "expect": expc})
        pats = [p for (p, m, h) in rts if "{" in p]
        s = z3.Solver()
        for pat in pats[:6]:
            s.push()
            s.add(z3.InRe(path, routes.pattern_to_re(pat)), z3.Length(path) < 40)
            if s.check() == z3.sat:
                w = s.model().eval(path, model_completion=True).as_string()
                if all(31 < ord(c) < 127 for c in w):
                    cases.append({"kind": "route_match", "route": pat, "path": w, "expect": True})
            s.pop()
        res = webreplay.run_cases("C17", "validate", cases, "translator validation")
        if res["outcome"] == "passed":
            ob.update({"verdict": "discharged", "distinct": len(cases), "sample": {"cases": len(cases), "example": cases[:2]}})
        else:
            ob.update({"verdict": "inconclusive", "message": "encoder disagrees with the real code: %s" % res["output"][-600:]})
    except rsparse.Unsupported as e:
        ob.update({"verdict": "inconclusive", "message": str(e)})
    return ob


if __name__ == "__main__":
    import sys
    r = run(sys.argv[1] if len(sys.argv) > 1 else "quick", 0)
    for ob in r["obligations"]:
        print(ob["harness"], ob.get("verdict"), str(ob.get("message", ""))[:400], ob.get("counterexample"), ob.get("queries"), ob.get("solver_s"),
              str(ob.get("sample"))[:300])
    print(r["info"])
