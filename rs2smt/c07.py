"""C07 — leader apply, follower replication and start-up replay dispatch every committed request
to the same actor with the same message.

Three programs of src/raft/filestore/raftdata.rs are evaluated symbolically from the source
(RaftDataHandler::apply_log_to_state_machine, do_send_log, load_log), once per ClientRequest variant
(variants and their fields are read from the enum definition in src/raft/store/mod.rs, so a new variant that
one copy forgets is a counterexample). Payload fields are uninterpreted symbols; an emission is the pair
(actor field the message is sent on, message term). The three emission sequences are compared as
first-order terms with uninterpreted function symbols by z3 (equal iff congruent).
"""
import time

import z3

from . import rseval, rsparse
from .common import load_program
from .rseval import Struct, Enum, Uninterp, Ok, Err, NONE, Some

FILES = ["src/raft/filestore/raftdata.rs", "src/raft/store/mod.rs", "src/raft/filestore/raftapply.rs"]
PROGRAMS = ["apply_log_to_state_machine", "do_send_log", "load_log"]


class Actor:
    def __init__(self, name):
        self.name = name
        self.ty = "ActorRef"

    def __repr__(self):
        return "actor:" + self.name


def make_request(prog, variant, shape):
    if shape[0] == "unit":
        return Enum("ClientRequest", variant)
    if shape[0] == "tuple":
        return Enum("ClientRequest", variant, [Uninterp("%s.%d" % (variant, i), []) for i in range(shape[1])])
    return Enum("ClientRequest", variant, {f: Uninterp("%s.%s" % (variant, f), []) for f in shape[1]})


def run_program(prog, fname, req, decode_ok):
    it = rseval.Interp(prog)
    it.lenient = True
    emitted = []

    def send(interp, recv, args):
        emitted.append((recv.name, args[0]))
        return Ok(Ok(Uninterp("reply", [recv.name])))

    def do_send(interp, recv, args):
        emitted.append((recv.name, args[0]))
        return ()
    it.models[("ActorRef", "send")] = send
    it.models[("ActorRef", "do_send")] = do_send
    it.fn_models["ConfigValueDO::from_bytes"] = (lambda interp, args: Ok(Uninterp("ConfigValueDO::from_bytes", [args[0]]))) if decode_ok \
        else (lambda interp, args: Err(Uninterp("decode-error", [])))
    fields = {}
    st = prog.structs.get("RaftDataHandler")
    if not st:
        raise rsparse.Unsupported("struct RaftDataHandler not found")
    for fname_, _ty in st:
        fields[fname_] = Actor(fname_)
    me = Struct("RaftDataHandler", fields)
    paths = it.explore(lambda: it.call_method("RaftDataHandler", fname, me, [req, Actor("index_manager")]))
    if len(paths) != 1:
        raise rsparse.Unsupported("%s forks on %s (%d paths): not a straight-line dispatch" % (fname, req.variant, len(paths)))
    pc, r, exc = paths[0]
    if exc is not None:
        return ("panic", str(exc)), emitted, sorted(it.opaque_seen)
    kind = "ok"
    if isinstance(r, Enum) and r.variant == "Err":
        kind = "err"
    return (kind, None), emitted, sorted(it.opaque_seen)


V = z3.DeclareSort("V")
_fns = {}
_consts = {}


def term(v):
    """first-order term of a message value"""
    if isinstance(v, Uninterp):
        if not v.args:
            return _consts.setdefault("u:" + v.name, z3.Const("u_" + v.name, V))
        return app("u:" + v.name, [term(a) for a in v.args])
    if isinstance(v, Enum):
        if v.payload is None:
            return _consts.setdefault("e:%s::%s" % (v.ty, v.variant), z3.Const("e_%s_%s" % (v.ty, v.variant), V))
        if isinstance(v.payload, dict):
            ks = sorted(v.payload)
            return app("e:%s::%s{%s}" % (v.ty, v.variant, ",".join(ks)), [term(v.payload[k]) for k in ks])
        return app("e:%s::%s/%d" % (v.ty, v.variant, len(v.payload)), [term(x) for x in v.payload])
    if isinstance(v, Struct):
        ks = sorted(v)
        return app("s:%s{%s}" % (v.ty, ",".join(ks)), [term(v[k]) for k in ks])
    if isinstance(v, (tuple, list)):
        return app("t/%d" % len(v), [term(x) for x in v])
    if isinstance(v, (int, str, bool)):
        return _consts.setdefault("c:%r" % (v,), z3.Const("c_%d" % len(_consts), V))
    if isinstance(v, Actor):
        return _consts.setdefault("a:" + v.name, z3.Const("a_" + v.name, V))
    raise rsparse.Unsupported("message component %r has no term encoding" % (v,))


def app(name, args):
    if not args:
        return _consts.setdefault(name, z3.Const("k_%d" % len(_consts), V))
    key = (name, len(args))
    if key not in _fns:
        _fns[key] = z3.Function("f_%d" % len(_fns), *([V] * len(args) + [V]))
    return _fns[key](*args)


def emission_term(emitted):
    return app("seq/%d" % len(emitted), [app("emit", [app("target:" + t, []), term(m)]) for t, m in emitted])


def run(tier, seed):
    t0 = time.time()
    info = {"files": FILES, "solver": "z3 " + z3.get_version_string(), "cmd": "python3-vt -m lib.main C07 (rs2smt/c07.py)"}
    obligations = []
    try:
        prog = load_program(FILES)
        variants = prog.enums.get("ClientRequest")
        if not variants:
            raise rsparse.Unsupported("enum ClientRequest not found")
    except rsparse.Unsupported as e:
        return {"obligations": [{"engine": "smt", "harness": "s07_parse", "verdict": "inconclusive", "message": str(e)}], "info": info}
    for variant, shape in variants.items():
        for decode_ok in ((True, False) if variant == "ConfigFullValue" else (True,)):
            name = "s07_%s%s" % (variant, "" if decode_ok else "_decode_error")
            ob = {"engine": "smt", "harness": name, "encodes": ["RaftDataHandler::" + p for p in PROGRAMS], "encodes_files": FILES,
                  "bound": "request variant %s with arbitrary (uninterpreted) payload; one request (the per-actor mailbox order of a sequence is the order of calls)" % variant,
                  "queries": 0, "solver_s": 0.0, "distinct": 0}
            try:
                req = make_request(prog, variant, shape)
                outs = {}
                for pname in PROGRAMS:
                    outs[pname] = run_program(prog, pname, req, decode_ok)
                s = z3.Solver()
                terms = {p: emission_term(outs[p][1]) for p in PROGRAMS}
                verdict = "discharged"
                for a, b in (("apply_log_to_state_machine", "do_send_log"), ("apply_log_to_state_machine", "load_log")):
                    s.push()
                    s.add(terms[a] != terms[b])
                    ts = time.time()
                    r = s.check()
                    ob["solver_s"] += time.time() - ts
                    ob["queries"] += 1
                    s.pop()
                    if r == z3.sat:
                        ob.update({"verdict": "violation", "tags": ["dispatch-differs"],
                                   "message": "request %s: %s emits %s but %s emits %s" % (variant, a, fmt(outs[a][1]), b, fmt(outs[b][1])),
                                   "counterexample": {"variant": variant, a: fmt(outs[a][1]), b: fmt(outs[b][1])}})
                        verdict = "violation"
                        break
                    if r != z3.unsat:
                        ob.update({"verdict": "inconclusive", "message": "solver %s" % r})
                        verdict = "inconclusive"
                        break
                if verdict == "discharged":
                    n_emit = len(outs[PROGRAMS[0]][1])
                    if decode_ok and n_emit == 0:
                        ob.update({"verdict": "violation", "tags": ["request-dropped"], "message": "request %s is dispatched to no actor by any path" % variant,
                                   "counterexample": {"variant": variant}})
                    else:
                        ob.update({"verdict": "discharged", "distinct": 2})
                ob["sample"] = {"emission": fmt(outs[PROGRAMS[0]][1]), "result_kinds": {p: outs[p][0][0] for p in PROGRAMS},
                                "opaque_symbols": outs[PROGRAMS[0]][2][:12]}
            except rsparse.Unsupported as e:
                ob.update({"verdict": "inconclusive", "message": "encoder met source it cannot encode: %s" % e})
            ob["solver_s"] = round(ob["solver_s"], 3)
            obligations.append(ob)
    obligations.append(last_applied_obligation(prog))
    # inside a component: the config actor on the leader and on a follower after the same committed requests
    from . import c07cfg
    obligations.append(c07cfg.run(tier, seed))
    from lib import native
    import os
    from .common import native_scenarios
    native_ok = not os.environ.get("VERIF_NO_NATIVE")
    NODE_VARIANTS = ("ConfigSet", "McpReq")   # request kinds the node-level scenario three_paths_same_state commits
    node_done = None
    for ob in obligations:
        if ob.get("verdict") == "violation":
            variant = (ob.get("counterexample") or {}).get("variant") or ob["harness"].replace("s07_", "")
            if native_ok and (variant in NODE_VARIANTS or ob["harness"] == "s07_last_applied"):
                if node_done is None:
                    node_done = native_scenarios("C07", "violation", ["three_paths_same_state"], ob["message"], {"obligation": ob["harness"], "model": ob.get("counterexample")})
                rr = node_done
                ob["replay_path"] = rr["path"]
                ob["replay"] = {"path": rr["path"], "outcome": rr["outcome"], "message": rr["message"]}
                if rr["outcome"] == "reproduced":
                    ob["message"] = "%s [real nodes: %s]" % (ob["message"], rr["message"][:300])
                    continue
                # the three real paths give the same served state for the scenario's requests: the difference in the emitted messages is
                # not observable there (e.g. a field the components ignore) - reported as model-only, not dropped
                ob["replay"]["note"] = "emission difference not observable in the node scenario (config value, MCP lookups)"
                continue
            path = native.write_replay("C07", "c07", "model", [], {"engine": "smt", "mode": "model-only", "obligation": ob["harness"],
                                                                   "message": ob["message"], "model": ob.get("counterexample")})
            ob["replay_path"] = path
            ob["replay"] = {"path": path, "outcome": "model-only", "message": "emission sequences of the three dispatch functions (no node-level scenario commits this request kind)"}
    if native_ok and not any(o.get("verdict") == "violation" for o in obligations):
        # node-level validation: the same committed requests through leader apply, follower replication and start-up replay on real
        # nodes (real store actors + state-machine components) serve the same state
        val = native_scenarios("C07", "validate", ["three_paths_same_state"])
        info["translator_validation_node"] = {"outcome": val["outcome"], "message": val["message"], "path": val["path"]}
        if val["outcome"] != "passed":
            obligations.append({"engine": "smt", "harness": "s07_node_validation", "verdict": "inconclusive", "queries": 0, "solver_s": 0,
                                "message": "the dispatch obligations are discharged but real nodes do not serve the same state through the three paths: %s" % val["message"]})
    # inside a component: the MCP registry on a node that applied the log one by one and on a node that went through start-up replay
    from . import c07mcp
    obligations.append(c07mcp.run(tier, seed))
    info["wall_s"] = round(time.time() - t0, 1)
    return {"obligations": obligations, "info": info}


def last_applied_obligation(prog):
    """the follower's batch path and the leader's single path record the same last-applied index for the same entries:
    after ApplyBatchRequest([e1..ek]) (k = 1..3, strictly increasing symbolic indexes) every entry has been handed to the
    state machine in order and both the in-memory and the persisted last_applied_log equal index(ek) - which is what k
    single ApplyRequest messages leave behind (Handler<StateApplyAsyncRequest>: last_applied_log = req.index)."""
    ob = {"engine": "smt", "harness": "s07_last_applied", "encodes": ["Handler<StateApplyRequest>::handle (ApplyBatchRequest arm)",
          "Handler<StateApplyAsyncRequest>::handle (ApplyRequest: last_applied_log assignment)"], "encodes_files": FILES,
          "bound": "batches of 1..=3 entries with strictly increasing symbolic 64-bit indexes", "queries": 0, "solver_s": 0.0, "distinct": 0}
    try:
        batch_fn = prog.trait_method("StateApplyManager", "handle", "StateApplyRequest")
        single_fn = prog.trait_method("StateApplyManager", "handle", "StateApplyAsyncRequest")
        if batch_fn is None or single_fn is None:
            raise rsparse.Unsupported("StateApplyManager handlers not found")
        nq = 0
        for k in (1, 2, 3):
            idx = [z3.BitVec("index%d" % i, 64) for i in range(k)]
            s = z3.Solver()
            for i in range(1, k):
                s.add(z3.ULT(idx[i - 1], idx[i]))
            it = rseval.Interp(prog)
            it.lenient = True
            applied = []
            saved = []
            it.models[("StateApplyManager", "apply_request_to_state_machine")] = lambda interp, recv, args: applied.append(args[0]["index"]) or Ok(())

            def do_send(interp, recv, args):
                saved.append(args[0])
                return ()
            it.models[("ActorRef", "do_send")] = do_send
            mgr = Struct("StateApplyManager", {"last_applied_log": 0, "index_manager": Some(Actor("index_manager")), "log_manager": Some(Actor("log_manager")),
                                               "snapshot_manager": Some(Actor("snapshot_manager")), "data_wrap": Some(Uninterp("data_wrap", [])), "snapshot_next_index": 0,
                                               "last_snapshot_index": 0, "is_init": True})
            reqs = [Struct("ApplyRequestDto", {"index": idx[i], "request": Uninterp("req%d" % i, [])}) for i in range(k)]
            paths = it.explore(lambda: it._invoke(batch_fn, [mgr, Enum("StateApplyRequest", "ApplyBatchRequest", [list(reqs)]), "ctx"], self_ty="StateApplyManager"))
            if len(paths) != 1 or paths[0][2] is not None:
                raise rsparse.Unsupported("batch arm forks or panics (%d paths)" % len(paths))
            batch_last = mgr["last_applied_log"]
            saved_vals = [m.args[0] if isinstance(m, Uninterp) and m.args else (m.payload[0] if isinstance(m, Enum) and m.payload else None) for m in saved]
            # single path: k ApplyRequest messages (forks on opaque Results inside the async block are all followed)
            it2 = rseval.Interp(prog)
            it2.lenient = True

            def single():
                mgr2 = Struct("StateApplyManager", dict(mgr, last_applied_log=0))
                for i in range(k):
                    it2._invoke(single_fn, [mgr2, Enum("StateApplyAsyncRequest", "ApplyRequest", [reqs[i]]), "ctx"], self_ty="StateApplyManager")
                return mgr2["last_applied_log"]
            spaths = it2.explore(single)
            svals = [r for pc, r, exc in spaths if exc is None]
            if not svals:
                raise rsparse.Unsupported("single-entry path not evaluable")
            single_last = svals[0]
            for v in svals[1:]:
                if not z3.is_true(z3.simplify(rseval.to_bv(v) == rseval.to_bv(single_last))):
                    raise rsparse.Unsupported("single-entry path records different indexes on different paths")
            bad = []
            bad.append(("batch path records a last-applied index that differs from the index of the last entry of the batch", rseval.to_bv(batch_last) != idx[-1]))
            bad.append(("batch path and single-entry path disagree on the last-applied index", rseval.to_bv(batch_last) != rseval.to_bv(single_last)))
            if len(applied) != k or any(not z3.is_true(z3.simplify(rseval.to_bv(a) == idx[i])) for i, a in enumerate(applied)):
                bad.append(("batch path does not hand every entry to the state machine in order", z3.BoolVal(True)))
            if len(saved_vals) != 1 or saved_vals[0] is None:
                bad.append(("batch path does not persist the last-applied index exactly once", z3.BoolVal(True)))
            else:
                bad.append(("batch path persists a last-applied index that differs from the index of the last entry", rseval.to_bv(saved_vals[0]) != idx[-1]))
            for msg, cond in bad:
                s.push()
                s.add(cond)
                ts = time.time()
                r = s.check()
                ob["solver_s"] += time.time() - ts
                nq += 1
                if r == z3.sat:
                    m = s.model()
                    ob.update({"verdict": "violation", "message": "%s (batch of %d entries)" % (msg, k), "tags": ["last-applied-bookkeeping"],
                               "counterexample": {"batch_indexes": [m.eval(x, model_completion=True).as_long() for x in idx],
                                                  "recorded": str(z3.simplify(rseval.to_bv(batch_last)))}})
                    s.pop()
                    ob["queries"] = nq
                    return ob
                s.pop()
        ob.update({"verdict": "discharged", "distinct": nq, "queries": nq})
    except rsparse.Unsupported as e:
        ob.update({"verdict": "inconclusive", "message": "encoder met source it cannot encode: %s" % e})
    ob["solver_s"] = round(ob["solver_s"], 3)
    return ob


def fmt(emitted):
    return "; ".join("%s <- %r" % (t, m) for t, m in emitted)[:400]


if __name__ == "__main__":
    r = run("quick", 0)
    for ob in r["obligations"]:
        print(ob["harness"], ob.get("verdict"), str(ob.get("message", ""))[:300], str(ob.get("sample"))[:260])
    print(r["info"])
