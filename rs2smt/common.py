"""shared helpers of the Engine-S obligations"""
import os
import time

import z3

from . import rsparse, rseval

REPO = os.environ.get("VERIF_REPO", "/repo")


def load_program(files):
    prog = rseval.Program()
    for f in files:
        prog.add_items(rsparse.parse_file(os.path.join(REPO, f)), f)
    return prog


def paths_to_bool(interp, paths):
    """[(pc, bool-ish result, exc)] -> one z3 Bool: result value as a function of the symbolic inputs;
    panicking paths are returned separately"""
    terms = []
    panics = []
    for pc, r, exc in paths:
        cond = z3.And(*pc) if pc else z3.BoolVal(True)
        if exc is not None:
            panics.append((cond, str(exc)))
            continue
        rv = rseval.to_bool(r) if isinstance(r, bool) or z3.is_bool(r) else None
        if rv is None:
            raise rsparse.Unsupported("non-boolean path result %r" % (r,))
        terms.append(z3.And(cond, rv))
    return (z3.Or(*terms) if terms else z3.BoolVal(False)), panics


class Timer:
    def __init__(self):
        self.t = 0.0

    def check(self, solver):
        t0 = time.time()
        r = solver.check()
        self.t += time.time() - t0
        return r
