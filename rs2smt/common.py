"""shared helpers of the Engine-S obligations"""
import os
import time

import z3

from . import rsparse, rseval

REPO = os.environ.get("VERIF_REPO", "/repo")


def load_program(files):
    prog = rseval.Program()
    for f in files:
        prog.add_items(rsparse.parse_file(os.path.join(REPO, f)), f)
    return prog


def paths_to_bool(interp, paths):
    """[(pc, bool-ish result, exc)] -> one z3 Bool: result value as a function of the symbolic inputs;
    panicking paths are returned separately"""
    terms = []
    panics = []
    for pc, r, exc in paths:
        cond = z3.And(*pc) if pc else z3.BoolVal(True)
        if exc is not None:
            panics.append((cond, str(exc)))
            continue
        rv = rseval.to_bool(r) if isinstance(r, bool) or z3.is_bool(r) else None
        if rv is None:
            raise rsparse.Unsupported("non-boolean path result %r" % (r,))
        terms.append(z3.And(cond, rv))
    return (z3.Or(*terms) if terms else z3.BoolVal(False)), panics


class Timer:
    def __init__(self):
        self.t = 0.0

    def check(self, solver):
        t0 = time.time()
        r = solver.check()
        self.t += time.time() - t0
        return r


def concretize(obj, model):
    """replace every z3 term inside a JSON-like structure by its value under the model"""
    def c(v):
        if isinstance(v, dict):
            return {str(k): c(x) for k, x in v.items()}
        if isinstance(v, (list, tuple)):
            return [c(x) for x in v]
        if isinstance(v, (bool, int, float, str)) or v is None:
            return v
        if isinstance(v, z3.ExprRef):
            e = model.eval(v, model_completion=True)
            if z3.is_bool(e):
                return z3.is_true(e)
            if z3.is_string(e):
                return e.as_string()
            if z3.is_bv(e) or z3.is_int(e):
                return e.as_long()
            if z3.is_fp(e):
                if not isinstance(e, z3.FPNumRef):
                    return str(e)
                if e.isNaN():
                    return "NaN"
                if e.isInf():
                    return "-inf" if e.isNegative() else "inf"
                if e.isZero():
                    return -0.0 if e.isNegative() else 0.0
                return float(z3.simplify(z3.fpToReal(e)).as_fraction())
            return str(e)
        return str(v)
    return c(obj)


def native_histories(prop, module, mode, histories, extra=None, message=""):
    """write a histories replay file and run it on the native build; returns run_replay's dict (+ path) or an error dict"""
    from lib import native
    exe, berr = native.build()
    body = {"engine": "smt", "mode": mode, "histories": histories, "message": message}
    body.update(extra or {})
    path = native.write_replay(prop, module, "history" if mode == "violation" else "validate", [], body)
    if exe is None:
        return {"outcome": "error", "message": "native build failed: " + berr[-300:], "path": path, "n": len(histories)}
    rr = native.run_replay(exe, path)
    mm = [l for l in rr.get("output", "").splitlines() if "VERIF-VALIDATE-MISMATCH" in l]
    return {"outcome": rr["outcome"], "message": (mm[0][:500] if mm else rr["message"]), "path": path, "n": len(histories)}


def native_scenarios(prop, mode, scenarios, message="", extra=None):
    """node-level native scenarios of harness/hist_store.rs (real store actors + state-machine components)"""
    from lib import native
    exe, berr = native.build()
    body = {"engine": "smt", "mode": mode, "scenarios": scenarios, "message": message}
    body.update(extra or {})
    path = native.write_replay(prop, "store", "scenario", [], body)
    if exe is None:
        return {"outcome": "error", "message": "native build failed: " + berr[-300:], "path": path}
    rr = native.run_replay(exe, path, timeout=600)
    mm = [l for l in rr.get("output", "").splitlines() if "VERIF-VALIDATE-MISMATCH" in l]
    return {"outcome": rr["outcome"], "message": (mm[0][:500] if mm else rr["message"]), "path": path, "tags": rr.get("tags", [])}
