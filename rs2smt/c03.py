"""File-level scenarios of the raft log file (serves C02, C03 and C04), decided by symbolic evaluation of the real source of
LogInnerManager::{init, read_indexs, move_to_end, move_to_index_by_count, write, strip_log_to, get_file_index_by_log_index,
read_records, get_start_index, get_end_index, get_last_term, flush_log} (src/raft/filestore/raftlog/mod.rs), LogRecord message
code (log.rs), LogRecordDto conversions (model.rs), MessageBufReader, FileMessageReader, the varint trio
(common/protobuf_utils.rs) over the environment models of rs2smt/iomodel.py (in-memory tokio::fs, quick_protobuf primitives,
Cursor + binrw big-endian header of 32 bytes).

The index interval is carried by the file header: the scenario patches it to 2 in the freshly initialised file (any value >= 1
is a valid file), so that index entries, cuts on and across index boundaries and index-area rewinds occur with 3-5 records
instead of 128+. Record payloads are symbolic bytes, payload lengths are chosen symbolically from {1, 2}.

  C02: n appends (one wrong-index append in between), optional reopen: the reopened log exposes exactly the acknowledged
       entries (index, term, payload) and reports the last index / term
  C03: n appends, delete from k (every k), m re-appends of any length, optional reopen: entries below k unchanged, nothing at or
       above k except the re-appended ones, the append at k is accepted
  C04: the same histories with a crash point after any prefix of the file mutations (write / set_len calls): the log reopens,
       exposes a contiguous prefix of really submitted entries that contains every append acknowledged before the crash point
"""
import time

import z3

from . import rseval, rsparse, iomodel
from .c05 import make
from .common import load_program
from .rseval import Struct, Enum, NONE, Some, Ok, Uninterp

FILES = ["src/raft/filestore/raftlog/mod.rs", "src/raft/filestore/log.rs", "src/raft/filestore/model.rs", "src/common/protobuf_utils.rs"]
INTERVAL_OFFSET = 4 + 2 + 8 + 8 + 2  # magic, version, last_term, first_index, data_area_index
BOUNDARY = list(range(5, 26))  # preallocation boundary, bytes into the data area (three records of 1-2 payload bytes occupy 15-24 bytes)


def setup(prog):
    it, fs = make(prog)
    iomodel.install_cursor(it, prog)
    it.concretizer = iomodel.concretize
    it.fn_models["cmp::max"] = lambda interp, args: max(args) if all(isinstance(a, int) for a in args) else z3.If(z3.UGE(rseval.to_bv(args[0]), rseval.to_bv(args[1])), rseval.to_bv(args[0]), rseval.to_bv(args[1]))
    it.fn_models["cmp::min"] = lambda interp, args: min(args) if all(isinstance(a, int) for a in args) else z3.If(z3.ULE(rseval.to_bv(args[0]), rseval.to_bv(args[1])), rseval.to_bv(args[0]), rseval.to_bv(args[1]))
    return it, fs


def concretize_ops(ops, model):
    def c(v):
        if isinstance(v, dict):
            return {k: c(x) for k, x in v.items()}
        if isinstance(v, (list, tuple)):
            return [c(x) for x in v]
        if isinstance(v, (bool, int, str)) or v is None:
            return v
        if isinstance(v, z3.ExprRef):
            return model.eval(v, model_completion=True).as_long()
        return str(v)
    return c(ops)


def native_validate(obligations, seed, n_samples=6):
    """translator validation: sampled discharged paths (one model each) are executed on the real LogInnerManager; write results,
    visible entries and the file bytes must be what the encoding computed"""
    import random
    from lib import native
    rnd = random.Random(seed)
    hist = []
    for ob in obligations:
        okp, rng = ob.pop("_ok_paths", ([], []))
        if ob.get("verdict") != "discharged" or not okp:
            continue
        s = z3.Solver()
        s.add(*rng)
        for pc, ops in rnd.sample(okp, min(n_samples, len(okp))):
            s.push()
            s.add(*pc)
            if s.check() == z3.sat:
                hist.append({"obligation": ob["harness"], "ops": concretize_ops(ops, s.model())})
            s.pop()
    if not hist:
        return None
    exe, berr = native.build()
    if exe is None:
        return {"outcome": "error", "message": "native build failed: " + berr[-300:], "n": len(hist)}
    path = native.write_replay("C03", "c03", "validate", [], {"engine": "smt", "mode": "validate", "histories": hist})
    rr = native.run_replay(exe, path)
    m = [l for l in rr.get("output", "").splitlines() if "VERIF-VALIDATE-MISMATCH" in l]
    return {"outcome": rr["outcome"], "message": (m[0][:400] if m else rr["message"]), "n": len(hist), "path": path}


def pick(it, var, options):
    for k, o in enumerate(options[:-1]):
        if it.branch(var == k):
            return o
    return options[-1]


def run_mode(prog, mode, n_app, n_re, name, bound, timer):
    stats = {"paths": 0, "queries": 0}
    ob = {"engine": "smt", "harness": name, "encodes_files": FILES, "bound": bound, "queries": 0, "solver_s": 0.0, "distinct": 0,
          "encodes": ["LogInnerManager::{init,read_indexs,move_to_end,move_to_index_by_count,write,strip_log_to,get_file_index_by_log_index,read_records,get_start_index,get_end_index,get_last_term}",
                      "LogRecord::{get_size,write_message,from_reader}", "MessageBufReader::*", "FileMessageReader::{read_next_position,read_index_position,read_len}",
                      "write_varint64 / read_varint64_offset / inner_sizeof_varint"]}
    try:
        it, fs = setup(prog)
        init_fn = prog.methods[("LogInnerManager", "init")]
        lens = [z3.BitVec("len%d" % i, 8) for i in range(n_app + n_re)]
        if mode == "append":
            payload = [[z3.BitVec("b%d_%d" % (i, j), 64) for j in range(2)] for i in range(n_app + n_re)]
        else:
            # truncation scenarios: concrete, pairwise different payload bytes (left-over bytes that are parsed out of alignment then
            # take one concrete path instead of forking over every value a symbolic byte could have as a length or a tag)
            payload = [[0x21 + 2 * i + j for j in range(2)] for i in range(n_app + n_re)]
        cutv, nrev, reopenv, crashv, wrongv = z3.BitVec("cut", 8), z3.BitVec("n_reappend", 8), z3.Bool("reopen"), z3.BitVec("crash_after", 8), z3.Bool("wrong_index_append")
        # payload bytes range over {1, 2, 3}: when left-over bytes are parsed out of alignment a payload byte acts as a length or a
        # tag and the evaluator forks over its values
        rng = [z3.ULE(b, 3) for row in payload for b in row if not isinstance(b, int)] + [b != 0 for row in payload for b in row if not isinstance(b, int)]
        covers = {}

        def cover(c):
            covers[c] = covers.get(c, 0) + 1

        startv = z3.BitVec("first_index_of_file", 8)
        boundv = z3.BitVec("preallocation_boundary", 8)
        st_box = [0]

        def open_log():
            r = it._invoke(init_fn, ["log", st_box[0], 0, 0], self_ty="LogInnerManager")
            if not (isinstance(r, Enum) and r.variant == "Ok"):
                return None
            return r.payload[0]

        def mk_rec(i, index, term):
            ln = pick(it, lens[i], [1, 2])
            return Struct("LogRecordDto", {"index": st_box[0] + index, "term": term, "value": payload[i][:ln]}), ln

        ops_box = [[]]

        def write(m, recd, expect="ok", what=None):
            r = it.call_method("LogInnerManager", "write", m, [recd])
            kind = r.payload[0].variant if isinstance(r, Enum) and r.variant == "Ok" and isinstance(r.payload[0], Enum) else "Err"
            ops_box[0].append({"op": "write", "index": recd["index"], "term": recd["term"], "value": list(recd["value"]), "expect": expect,
                               "model_kind": kind, "what": what or "a contiguous append is refused"})
            return kind in ("Success", "SuccessToEnd"), kind

        def entries(ref):
            return [[st_box[0] + i, t, list(v)] for (i, t, v) in ref]

        def possible(cond):
            if isinstance(cond, bool):
                return cond
            cond = z3.simplify(cond)
            if z3.is_false(cond):
                return False
            if it._feasible(cond):
                it.pc.append(cond)
                return True
            return False

        def compare(m, ref, log, what, record=True):
            """the log's view (end index, last term, entries) against the reference list"""
            if record:
                ops_box[0].append({"op": "expect", "what": what, "candidates": [entries(ref)]})
            end = it.call_method("LogInnerManager", "get_end_index", m, []) - st_box[0]
            if end != len(ref):
                return ("violation", "%s: the log reports end index %s, %d entries are acknowledged and not removed" % (what, end, len(ref)), log,
                        "end-index-too-large" if end > len(ref) else "end-index-too-small")
            if ref:
                lt = it.call_method("LogInnerManager", "get_last_term", m, [])
                if lt != ref[-1][1]:
                    return ("violation", "%s: last term reported (%s) differs from the term of the last entry (%s)" % (what, lt, ref[-1][1]), log, "last-term")
            r = it.call_method("LogInnerManager", "read_records", m, [0, st_box[0] + len(ref) + 3])
            if not (isinstance(r, Enum) and r.variant == "Ok"):
                return ("violation", "%s: entries cannot be read" % what, log, "read-fails")
            got = r.payload[0]
            if len(got) != len(ref):
                return ("violation", "%s: %d entries are returned, %d are acknowledged and not removed" % (what, len(got), len(ref)), log,
                        "entries-resurrected" if len(got) > len(ref) else "entries-lost")
            for g, (idx, term, val) in zip(got, ref):
                if g["index"] != st_box[0] + idx or g["term"] != term or len(g["value"]) != len(val):
                    return ("violation", "%s: entry %d comes back with index %s term %s payload length %d instead of index %d term %d length %d"
                            % (what, idx, g["index"], g["term"], len(g["value"]), idx, term, len(val)), log, "entry-changed")
                for a, b in zip(g["value"], val):
                    if possible(rseval.to_bv(a) != rseval.to_bv(b)):
                        return ("violation", "%s: payload of entry %d differs from the acknowledged payload" % (what, idx), log, "payload-changed")
            return None

        def thunk():
            r = thunk_inner()
            return (r, list(ops_box[0]))

        def thunk_inner():
            fs.files.clear()
            fs.mutations = 0
            # the file's first index: 0, or 1 (not a multiple of the index interval: a file created after a snapshot / rollover)
            st_box[0] = pick(it, startv, [0, 1]) if mode not in ("crash", "crashapp") else 0
            m = open_log()
            if m is None:
                return ("violation", "a fresh log file cannot be initialised", [], "init")
            fs.files["log"][INTERVAL_OFFSET:INTERVAL_OFFSET + 2] = [0, 2]
            m = open_log()
            if m is None:
                return ("violation", "the log does not reopen after initialisation", [], "init")
            log = [("first-index", st_box[0])]
            ops = ops_box[0] = [{"op": "open", "first": st_box[0]}, {"op": "patch_interval", "offset": INTERVAL_OFFSET, "value": 2}]
            if mode in ("append", "crashapp"):
                # the file's preallocated length is what init finds on disk; place the preallocation boundary t bytes into the data
                # area so that records end before / exactly on / across it (at the real scale: 1 MiB steps)
                t = pick(it, boundv, [None] + BOUNDARY)
                if t is not None:
                    del fs.files["log"][4096 + t:]
                    ops.append({"op": "set_len", "len": 4096 + t})
                    log.append(("preallocated-length", 4096 + t))
                    m = open_log()
                    if m is None:
                        return ("violation", "the log does not reopen after initialisation", log, "init")
                    cover("preallocation boundary inside the scenario")
            ref = []
            base_image = {k: list(v) for k, v in fs.files.items()}
            crashing = mode in ("crash", "crashapp")
            fs.journal = [] if crashing else None
            states = [(0, [])]  # (journal length when the step was acknowledged, reference list)
            images = [(list(fs.files["log"]), [])]
            for i in range(n_app):
                if mode == "append" and i == 1 and it.branch(wrongv):
                    bad, _l = mk_rec(i, len(ref) + 1, 9)
                    ok, kind = write(m, bad, expect="refused")
                    log.append(("append-wrong-index", kind))
                    if ok or kind != "IndexEqualError":
                        return ("violation", "an append with a non-contiguous index is not refused (%s)" % kind, log, "wrong-index-accepted")
                    cover("wrong index refused")
                recd, ln = mk_rec(i, len(ref), 1)
                ok, kind = write(m, recd)
                log.append(("append", len(ref), "len=%d" % ln, kind))
                if not ok:
                    return ("violation", "a contiguous append is refused (%s)" % kind, log, "append-refused")
                ref.append((len(ref), 1, recd["value"]))
                if crashing:
                    states.append((len(fs.journal), list(ref)))
            if mode in ("strip", "crash"):
                k = pick(it, cutv, list(range(n_app + 1)))
                r = it.call_method("LogInnerManager", "strip_log_to", m, [st_box[0] + k])
                ops.append({"op": "strip", "index": st_box[0] + k})
                log.append(("delete-from", k))
                if not (isinstance(r, Enum) and r.variant == "Ok"):
                    return ("violation", "delete-from fails", log, "strip-error")
                ref = ref[:k]
                if k % 2 == 0 and 0 < k < n_app:
                    cover("cut exactly on an index entry")
                if k < n_app and (n_app - 1) // 2 > k // 2:
                    cover("cut removes an index entry")
                if mode == "crash":
                    states.append((len(fs.journal), list(ref)))
                bad = compare(m, ref, log, "after delete-from %d" % k)
                if bad:
                    return bad
                nre = pick(it, nrev, list(range(n_re + 1)))
                for j in range(nre):
                    recd, ln = mk_rec(n_app + j, len(ref), 2)
                    ok, kind = write(m, recd, what="the append at the cut index is refused after a delete-from")
                    log.append(("re-append", len(ref), "len=%d" % ln, kind))
                    if not ok:
                        return ("violation", "the append at the cut index is refused after a delete-from (%s)" % kind, log, "append-after-strip-refused")
                    ref.append((len(ref), 2, recd["value"]))
                    cover("re-append after a cut")
                    if mode == "crash":
                        states.append((len(fs.journal), list(ref)))
            if crashing:
                # crash after any prefix of the journal of file mutations (also in the middle of an operation)
                journal = fs.journal
                fs.journal = None
                p = pick(it, crashv, list(range(len(journal) + 1)))
                ops.append({"op": "model_file", "bytes": list(fs.files["log"])})
                fs.files.clear()
                fs.files.update(iomodel.replay_journal(base_image, journal, p))
                ops.append({"op": "load_image", "bytes": list(fs.files["log"])})
                mm = open_log()
                log.append(("crash-after-mutation", p, "of", len(journal)))
                if mm is None:
                    return ("violation", "the log does not reopen after a crash", log, "reopen-after-crash-fails")
                cover("crash image reopened")
                # the state the store must show: that of the last step acknowledged before the crash point, or that of the step in flight
                done = [st for st in states if st[0] <= p]
                nxt = [st for st in states if st[0] > p]
                cands = [done[-1][1]] + ([nxt[0][1]] if nxt else [])
                if nxt and p > done[-1][0]:
                    cover("crash inside an operation")
                ops.append({"op": "expect", "what": "after a crash behind file mutation %d" % p, "candidates": [entries(c) for c in cands]})
                results = [compare(mm, c, list(log), "after a crash behind file mutation %d" % p, record=False) for c in cands]
                if all(r is not None for r in results):
                    return results[0] + (list(ops),)
                return ("ok", None, log, None, list(ops))
            mm = m
            if it.branch(reopenv):
                ops.append({"op": "model_file", "bytes": list(fs.files["log"])})
                mm = open_log()
                ops.append({"op": "reopen"})
                log.append(("reopen",))
                if mm is None:
                    return ("violation", "the log does not reopen", log, "reopen-fails")
                cover("reopened")
            bad = compare(mm, ref, log, "after reopen" if mm is not m else "same handle")
            if bad:
                return bad
            return ("ok", None, log, None, list(ops))
        it.solver.push()
        it.solver.add(*rng)
        t1 = time.time()
        paths = it.explore(thunk, max_paths=200000)
        it.solver.pop()
        stats["paths"] = len(paths)
        s = z3.Solver()
        s.add(*rng)
        viol = None
        ok_paths = []
        for pc, rr, exc in paths:
            if exc is not None:
                viol = {"message": "panic in the log file code: %s" % exc, "tags": ["panic"], "model": {}, "ops": None}
                break
            r, ops = rr
            if r[0] == "violation":
                s.push()
                s.add(*pc)
                if s.check() == z3.sat:
                    m_ = s.model()
                    viol = {"message": r[1], "tags": [r[3]], "model": {"history": [list(map(str, e)) for e in r[2]],
                            "payload_bytes": [[(b if isinstance(b, int) else m_.eval(b, model_completion=True).as_long()) for b in row] for row in payload]},
                            "ops": concretize_ops(ops, m_)}
                s.pop()
                if viol:
                    break
            elif r[0] == "ok":
                ok_paths.append((pc, ops))
        ob["_ok_paths"] = (ok_paths, rng)
        ob["queries"] = it.queries
        ob["solver_s"] = round(time.time() - t1, 1)
        ob["sample"] = {"paths_explored": len(paths), "covers": covers, "opaque_symbols": sorted(it.opaque_seen)[:20]}
        need = {"append": ["wrong index refused", "reopened", "preallocation boundary inside the scenario"], "strip": ["cut exactly on an index entry", "cut removes an index entry", "re-append after a cut", "reopened"],
                "crash": ["crash image reopened", "crash inside an operation"],
                "crashapp": ["crash image reopened", "crash inside an operation", "preallocation boundary inside the scenario"]}[mode]
        missing = [c for c in need if not covers.get(c)]
        if viol:
            ob.update({"verdict": "violation", "message": viol["message"], "tags": viol["tags"], "counterexample": viol["model"], "_ops": viol.get("ops")})
        elif missing:
            ob.update({"verdict": "inconclusive", "message": "reachability witness never reached: %s" % missing})
        else:
            ob.update({"verdict": "discharged", "distinct": len(paths)})
    except rsparse.Unsupported as e:
        ob.update({"verdict": "inconclusive", "message": "encoder met source it cannot encode: %s" % e})
    return ob


def creation_crash(prog, name):
    """s04_2: a crash behind every prefix of the file mutations that LogInnerManager::init makes while it creates a new log file
    (first write of a fresh store, rollover, snapshot-pointer log): the file must reopen as an empty log that accepts the first append"""
    ob = {"engine": "smt", "harness": name, "encodes_files": FILES, "queries": 0, "solver_s": 0.0, "distinct": 0,
          "encodes": ["LogInnerManager::{init,read_indexs,move_to_end,move_to_index_by_count,write,read_records,get_end_index}"],
          "bound": "creation of a new log file (first index 0 or 5): a crash behind every prefix of init's file mutations, reopen, one append, reopen"}
    try:
        it, fs = setup(prog)
        init_fn = prog.methods[("LogInnerManager", "init")]
        startv, crashv = z3.BitVec("first_index_of_file", 8), z3.BitVec("crash_after", 8)
        covers = {}
        ops_box = [[]]

        def thunk():
            try:
                r = inner()
            except rseval.RustPanic as e:
                ops_box[0].append({"op": "expect", "what": "reopened after a crash during creation", "candidates": [[]]})
                r = ("violation", "panic in the log file code while reopening a file whose creation was interrupted: %s" % e, [("crash during creation",)], "panic-after-creation-crash")
            return (r, list(ops_box[0]))

        def inner():
            st = pick(it, startv, [0, 5])
            fs.files.clear()
            fs.journal = []
            r = it._invoke(init_fn, ["log", st, 0, 0], self_ty="LogInnerManager")
            journal = fs.journal
            fs.journal = None
            if not (isinstance(r, Enum) and r.variant == "Ok"):
                return ("violation", "a fresh log file cannot be initialised", [], "init")
            p = pick(it, crashv, list(range(len(journal) + 1)))
            log = [("first-index", st), ("crash-after-mutation", p, "of", len(journal), "during creation")]
            fs.files.clear()
            fs.files.update(iomodel.replay_journal({}, journal, p))
            ops = ops_box[0] = [{"op": "first", "first": st}]
            if "log" in fs.files:
                ops.append({"op": "load_image", "bytes": list(fs.files["log"])})
            else:
                ops.append({"op": "open", "first": st})
            if 0 < p < len(journal):
                covers["crash inside the creation of a log file"] = covers.get("crash inside the creation of a log file", 0) + 1
            r = it._invoke(init_fn, ["log", st, 0, 0], self_ty="LogInnerManager")
            if not (isinstance(r, Enum) and r.variant == "Ok"):
                return ("violation", "a log file whose creation was interrupted does not reopen", log, "reopen-after-crash-fails")
            m = r.payload[0]
            ops.append({"op": "expect", "what": "reopened after a crash during creation", "candidates": [[]]})
            end = it.call_method("LogInnerManager", "get_end_index", m, [])
            if end != st:
                return ("violation", "a log file whose creation was interrupted reports end index %s instead of its first index %s" % (end, st), log, "end-index-too-large")
            recd = Struct("LogRecordDto", {"index": st, "term": 1, "value": [7]})
            r = it.call_method("LogInnerManager", "write", m, [recd])
            kind = r.payload[0].variant if isinstance(r, Enum) and r.variant == "Ok" and isinstance(r.payload[0], Enum) else "Err"
            ops.append({"op": "write", "index": st, "term": 1, "value": [7], "expect": "ok", "model_kind": kind, "what": "the first append to a log file whose creation was interrupted is refused"})
            log.append(("append", st, kind))
            if kind not in ("Success", "SuccessToEnd"):
                return ("violation", "the first append to a log file whose creation was interrupted is refused (%s)" % kind, log, "append-refused")
            r = it._invoke(init_fn, ["log", st, 0, 0], self_ty="LogInnerManager")
            ops.append({"op": "reopen"})
            ops.append({"op": "expect", "what": "after the first append and a reopen", "candidates": [[[st, 1, [7]]]]})
            if not (isinstance(r, Enum) and r.variant == "Ok"):
                return ("violation", "the log does not reopen", log, "reopen-fails")
            m2 = r.payload[0]
            if it.call_method("LogInnerManager", "get_end_index", m2, []) != st + 1:
                return ("violation", "after the first append and a reopen the log does not report exactly one entry", log, "entries-lost")
            return ("ok", None, log, None)
        t1 = time.time()
        paths = it.explore(thunk, max_paths=5000)
        viol = None
        ok_paths = []
        for pc, rr, exc in paths:
            r, ops = rr if rr is not None else ((None,), [])
            if exc is not None:
                viol = {"message": "panic in the log file code: %s" % exc, "tags": ["panic"], "model": {}, "ops": None}
                break
            if r[0] == "violation":
                viol = {"message": r[1], "tags": [r[3]], "model": {"history": [list(map(str, e)) for e in r[2]]}, "ops": concretize_ops(ops, z3.Solver().model() if False else _empty_model())}
                break
            ok_paths.append((pc, ops))
        ob["queries"] = it.queries
        ob["solver_s"] = round(time.time() - t1, 1)
        ob["sample"] = {"paths_explored": len(paths), "covers": covers}
        ob["_ok_paths"] = (ok_paths, [])
        if viol:
            ob.update({"verdict": "violation", "message": viol["message"], "tags": viol["tags"], "counterexample": viol["model"], "_ops": viol.get("ops")})
        elif not covers.get("crash inside the creation of a log file"):
            ob.update({"verdict": "inconclusive", "message": "reachability witness never reached: crash inside the creation of a log file"})
        else:
            ob.update({"verdict": "discharged", "distinct": len(paths)})
    except rsparse.Unsupported as e:
        ob.update({"verdict": "inconclusive", "message": "encoder met source it cannot encode: %s" % e})
    return ob


def _empty_model():
    s = z3.Solver()
    s.check()
    return s.model()


def run(tier, seed, which="C03"):
    t0 = time.time()
    info = {"files": FILES, "solver": "z3 " + z3.get_version_string(), "cmd": "python3-vt -m lib.main %s (rs2smt/c03.py)" % which}
    try:
        prog = load_program(FILES)
    except rsparse.Unsupported as e:
        return {"obligations": [{"engine": "smt", "harness": "s03_parse", "verdict": "inconclusive", "message": str(e)}], "info": info}
    n_app = 3 if tier == "quick" else 4
    obligations = []
    if which == "C02":
        obligations.append(run_mode(prog, "append", n_app, 0, "s02_5_append_reopen",
                                    "%d appends (payload length 1-2, bytes symbolic), one wrong-index append, optional reopen; index interval 2" % n_app, None))
    if which == "C03":
        obligations.append(run_mode(prog, "strip", n_app, 2, "s03_2_delete_from_reappend",
                                    "%d appends, delete from every k in 0..=%d, 0-2 re-appends (payload length 1-2), optional reopen; index interval 2" % (n_app, n_app), None))
    if which == "C04":
        obligations.append(run_mode(prog, "crash", n_app, 1, "s04_1_crash_points",
                                    "%d appends, delete from k, 0-1 re-append; a crash after every prefix of the file mutations (write / set_len calls, also inside an operation), then reopen; index interval 2" % n_app, None))
        obligations.append(run_mode(prog, "crashapp", n_app, 0, "s04_7_crash_at_preallocation_boundary",
                                    "%d appends (payload length 1-2) into a file whose preallocated length ends 5..25 bytes into the data area (a record ends before / exactly on / across it; at the real scale: 1 MiB steps); "
                                    "a crash after every prefix of the file mutations (set_len growth, data write, index write), then reopen; index interval 2" % n_app, None))
        obligations.append(creation_crash(prog, "s04_2_crash_during_creation"))
        from . import c04index
        iob = c04index.run(tier, seed)
        if iob.get("verdict") == "violation":
            from lib import native as _n
            pth = _n.write_replay("C04", "c04", "model", [], {"engine": "smt", "mode": "model-only", "obligation": iob["harness"], "message": iob["message"], "model": iob.get("counterexample")})
            iob["replay_path"] = pth
            iob["replay"] = {"path": pth, "outcome": "model-only", "message": "saved values and crash point for the raft index file (a native run would need a write interposer)"}
        index_ob = iob
        from . import c04snap
        snap_obs = c04snap.run(tier, seed)
        from . import c08
        inst_ob = c08.run_c04_order(tier, seed)
        if inst_ob.get("verdict") == "violation":
            from lib import native as _n
            pth = _n.write_replay("C04", "c04", "model", [], {"engine": "smt", "mode": "model-only", "obligation": inst_ob["harness"], "message": inst_ob["message"], "model": inst_ob.get("counterexample")})
            inst_ob["replay_path"] = pth
            inst_ob["replay"] = {"path": pth, "outcome": "model-only", "message": "emission order of a snapshot installation (a native run would need a kill between two actor messages)"}
        snap_obs.append(inst_ob)
    from lib import native
    import os
    if which == "C04" and not os.environ.get("VERIF_NO_NATIVE"):
        from .common import native_scenarios
        cob = snap_obs[0]
        if cob.get("verdict") == "violation":
            n = len((cob.get("counterexample") or {}).get("catalogue_ids", [0, 0])) + 1
            rr = native_scenarios("C04", "violation", ["snapshot_catalogue_crash_image_%d" % n], cob["message"], {"obligation": cob["harness"], "model": cob.get("counterexample")})
            cob["replay_path"] = rr["path"]
            cob["replay"] = {"path": rr["path"], "outcome": rr["outcome"], "message": rr["message"]}
            if "catalogued-snapshot-missing" in cob.get("tags", []):
                if rr["outcome"] != "reproduced":
                    cob.update({"verdict": "inconclusive", "message": "engine-S counterexample (%s) did not reproduce on the real index / snapshot managers (%s %s)" % (cob["message"], rr["outcome"], rr["message"])})
                else:
                    cob["message"] = "%s [real RaftIndexManager + RaftSnapshotManager, crash image: %s]" % (cob["message"], rr["message"][:400])
            else:
                cob["replay"]["outcome"] = "model-only" if rr["outcome"] != "reproduced" else rr["outcome"]
        elif cob.get("verdict") == "discharged":
            nv = native_scenarios("C04", "validate", ["snapshot_catalogue_crash_image_2", "snapshot_catalogue_crash_image_3", "snapshot_catalogue_crash_image_4"])
            info["translator_validation_snapshot_catalogue"] = {"outcome": nv["outcome"], "message": nv["message"], "path": nv["path"]}
            if nv["outcome"] != "passed":
                cob.update({"verdict": "inconclusive", "message": "the catalogue obligation is discharged but the real index / snapshot managers lose the last catalogued snapshot in a crash image: %s" % nv["message"]})
        oob = snap_obs[1]
        if oob.get("verdict") == "violation":
            from lib import native as _n
            pth = _n.write_replay("C04", "c04", "model", [], {"engine": "smt", "mode": "model-only", "obligation": oob["harness"], "message": oob["message"], "model": oob.get("counterexample")})
            oob["replay_path"] = pth
            oob["replay"] = {"path": pth, "outcome": "model-only", "message": "emission order of a log compaction (a native run would need a kill between two actor messages)"}
    if os.environ.get("VERIF_NO_NATIVE"):
        if which == "C04":
            obligations.append(index_ob)
            obligations.extend(snap_obs)
        # development self-test against a scratch copy of the sources (VERIF_REPO): the native build is of /repo, skip it
        for ob in obligations:
            ob.pop("_ops", None)
            ob.pop("_ok_paths", None)
        info["wall_s"] = round(time.time() - t0, 1)
        return {"obligations": obligations, "info": info}
    for ob in obligations:
        if ob.get("verdict") == "violation":
            ops = ob.pop("_ops", None)
            ob.pop("_ok_paths", None)
            path = native.write_replay(which, "c03", "history", [], {"engine": "smt", "mode": "violation", "obligation": ob["harness"], "message": ob["message"],
                                                                     "model": ob.get("counterexample"), "histories": [{"ops": ops}] if ops else []})
            ob["replay_path"] = path
            exe, berr = native.build()
            if exe is None or not ops:
                ob.update({"verdict": "inconclusive", "message": "counterexample (%s) could not be replayed natively: %s" % (ob["message"], "no operation list" if exe else "native build failed")})
                continue
            rr = native.run_replay(exe, path)
            ob["replay"] = {"path": path, "outcome": rr["outcome"], "message": rr["message"]}
            if rr["outcome"] != "reproduced":
                ob.update({"verdict": "inconclusive", "message": "engine-S counterexample (%s) did not reproduce on the real LogInnerManager (%s %s)" % (ob["message"], rr["outcome"], rr["message"])})
            else:
                ob["message"] = "%s [real code: %s]" % (ob["message"], rr["message"][:300])
    if which == "C02":
        # the level above one file: reads and rollover over the catalogue, a replicated batch at the end of a file
        from . import c03files
        from .common import native_scenarios
        rob = c03files.run_reads(tier, seed)
        if rob.get("verdict") == "violation":
            from lib import native as _n
            pth = _n.write_replay("C02", "c02", "model", [], {"engine": "smt", "mode": "model-only", "obligation": rob["harness"], "message": rob["message"], "model": rob.get("counterexample")})
            rob["replay_path"] = pth
            rob["replay"] = {"path": pth, "outcome": "model-only", "message": "catalogue and read range / rollover index for RaftLogManager (a rollover needs ~259 000 records natively)"}
        bob = c03files.run_batch(tier, seed)
        if bob.get("verdict") == "violation":
            rr = native_scenarios("C02", "violation", ["replicated_batch_fills_a_file"], bob["message"], {"obligation": bob["harness"], "model": bob.get("counterexample")})
            bob["replay_path"] = rr["path"]
            bob["replay"] = {"path": rr["path"], "outcome": rr["outcome"], "message": rr["message"]}
            if rr["outcome"] != "reproduced":
                bob.update({"verdict": "inconclusive", "message": "engine-S counterexample (%s) did not reproduce on a real node (%s %s)" % (bob["message"], rr["outcome"], rr["message"])})
            else:
                bob["message"] = "%s [real node, through RaftStorage::replicate_to_log: %s]" % (bob["message"], rr["message"][:400])
        elif bob.get("verdict") == "discharged" and rob.get("verdict") == "discharged":
            nv = native_scenarios("C02", "validate", ["replicated_batch_fills_a_file"])
            info["translator_validation_node"] = {"outcome": nv["outcome"], "message": nv["message"], "path": nv["path"]}
            if nv["outcome"] != "passed":
                obligations.append({"engine": "smt", "harness": "s02_node_validation", "verdict": "inconclusive", "queries": 0, "solver_s": 0,
                                    "message": "the catalogue-level obligations are discharged but a real node does not replicate across a log-file rollover: %s" % nv["message"]})
        cob = c03files.run_compaction(tier, seed)
        if cob.get("verdict") == "violation":
            rr = native_scenarios("C02", "violation", ["pointer_inside_file_then_reopen"], cob["message"], {"obligation": cob["harness"], "model": cob.get("counterexample")})
            cob["replay_path"] = rr["path"]
            if rr["outcome"] == "reproduced":
                cob["replay"] = {"path": rr["path"], "outcome": rr["outcome"], "message": rr["message"]}
                cob["message"] = "%s [real node, through RaftStorage::finalize_snapshot_installation + reopen: %s]" % (cob["message"], rr["message"][:400])
            else:
                cob["replay"] = {"path": rr["path"], "outcome": "model-only", "message": "the fixed node scenario (pointer inside the current file, reopen) does not show it: %s" % rr["message"][:200]}
        elif cob.get("verdict") == "discharged":
            nv2 = native_scenarios("C02", "validate", ["pointer_inside_file_then_reopen"])
            info["translator_validation_pointer"] = {"outcome": nv2["outcome"], "message": nv2["message"], "path": nv2["path"]}
            if nv2["outcome"] != "passed":
                cob.update({"verdict": "inconclusive", "message": "the obligation is discharged but on a real node entries covered by a pointer come back after a reopen: %s" % nv2["message"]})
        extra_obs = [rob, bob, cob]
    if which == "C03":
        # the level above one file: which files of the catalogue a truncation reaches (RaftLogManager::strip_log_to_index)
        from . import c03files
        from .common import native_scenarios
        fob = c03files.run(tier, seed)
        if fob.get("verdict") == "violation":
            scen3 = ["cut_removes_whole_file_then_restart"] if set(fob.get("tags", [])) & {"catalogue-not-saved", "current-file-marked-closed", "current-file-wrong", "catalogue-wrong"} \
                else ["truncate_behind_snapshot_pointer", "truncate_at_split_off_behind_snapshot_pointer", "cut_at_first_index_of_a_file", "cut_behind_pointer_installed_on_existing_log"]
            rr = native_scenarios("C03", "violation", scen3, fob["message"], {"obligation": fob["harness"], "model": fob.get("counterexample")})
            fob["replay_path"] = rr["path"]
            fob["replay"] = {"path": rr["path"], "outcome": rr["outcome"], "message": rr["message"]}
            if rr["outcome"] != "reproduced":
                fob.update({"verdict": "inconclusive", "message": "engine-S counterexample (%s) did not reproduce on a real node (%s %s)" % (fob["message"], rr["outcome"], rr["message"])})
            else:
                fob["message"] = "%s [real node, through RaftStorage::delete_logs_from: %s]" % (fob["message"], rr["message"][:400])
        elif fob.get("verdict") == "discharged":
            nv = native_scenarios("C03", "validate", ["truncate_behind_snapshot_pointer", "truncate_at_split_off_behind_snapshot_pointer", "truncate_behind_installed_snapshot", "cut_at_first_index_of_a_file",
                                                      "cut_behind_pointer_installed_on_existing_log", "cut_removes_whole_file_then_restart"])
            info["translator_validation_node"] = {"outcome": nv["outcome"], "message": nv["message"], "path": nv["path"]}
            if nv["outcome"] != "passed":
                obligations.append({"engine": "smt", "harness": "s03_node_validation", "verdict": "inconclusive", "queries": 0, "solver_s": 0,
                                    "message": "the file-selection obligation is discharged but a real node does not truncate behind a snapshot pointer file: %s" % nv["message"]})
        obligations.append(fob)
    val = native_validate(obligations, seed, 6 if tier == "quick" else 24)
    if which == "C04":
        obligations.append(index_ob)
        obligations.extend(snap_obs)
    if which == "C02":
        obligations.extend(extra_obs)
    for ob in obligations:
        ob.pop("_ok_paths", None)
        ob.pop("_ops", None)
    if val is not None:
        info["translator_validation"] = val
        if val["outcome"] != "passed":
            obligations.append({"engine": "smt", "harness": "s03_translator_validation", "verdict": "inconclusive", "queries": 0, "solver_s": 0,
                                "message": "the real LogInnerManager and the encoding disagree on a sampled history: %s" % val["message"]})
    info["wall_s"] = round(time.time() - t0, 1)
    return {"obligations": obligations, "info": info}


if __name__ == "__main__":
    import sys
    r = run(sys.argv[2] if len(sys.argv) > 2 else "quick", 0, which=sys.argv[1] if len(sys.argv) > 1 else "C03")
    for ob in r["obligations"]:
        print(ob["harness"], ob.get("verdict"), str(ob.get("message", ""))[:500], str(ob.get("counterexample"))[:700], ob.get("queries"), ob.get("solver_s"), str(ob.get("sample"))[:400])
    print(r["info"])
