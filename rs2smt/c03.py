"""File-level scenarios of the raft log file (serves C02, C03 and C04), decided by symbolic evaluation of the real source of
LogInnerManager::{init, read_indexs, move_to_end, move_to_index_by_count, write, strip_log_to, get_file_index_by_log_index,
read_records, get_start_index, get_end_index, get_last_term, flush_log} (src/raft/filestore/raftlog/mod.rs), LogRecord message
code (log.rs), LogRecordDto conversions (model.rs), MessageBufReader, FileMessageReader, the varint trio
(common/protobuf_utils.rs) over the environment models of rs2smt/iomodel.py (in-memory tokio::fs, quick_protobuf primitives,
Cursor + binrw big-endian header of 32 bytes).

The index interval is carried by the file header: the scenario patches it to 2 in the freshly initialised file (any value >= 1
is a valid file), so that index entries, cuts on and across index boundaries and index-area rewinds occur with 3-5 records
instead of 128+. Record payloads are symbolic bytes, payload lengths are chosen symbolically from {1, 2}.

  C02: n appends (one wrong-index append in between), optional reopen: the reopened log exposes exactly the acknowledged
       entries (index, term, payload) and reports the last index / term
  C03: n appends, delete from k (every k), m re-appends of any length, optional reopen: entries below k unchanged, nothing at or
       above k except the re-appended ones, the append at k is accepted
  C04: the same histories with a crash point after any prefix of the file mutations (write / set_len calls): the log reopens,
       exposes a contiguous prefix of really submitted entries that contains every append acknowledged before the crash point
"""
import time

import z3

from . import rseval, rsparse, iomodel
from .c05 import make
from .common import load_program
from .rseval import Struct, Enum, NONE, Some, Ok, Uninterp

FILES = ["src/raft/filestore/raftlog/mod.rs", "src/raft/filestore/log.rs", "src/raft/filestore/model.rs", "src/common/protobuf_utils.rs"]
INTERVAL_OFFSET = 4 + 2 + 8 + 8 + 2  # magic, version, last_term, first_index, data_area_index


def setup(prog):
    it, fs = make(prog)
    iomodel.install_cursor(it, prog)
    it.concretizer = iomodel.concretize
    it.fn_models["cmp::max"] = lambda interp, args: max(args) if all(isinstance(a, int) for a in args) else z3.If(z3.UGE(rseval.to_bv(args[0]), rseval.to_bv(args[1])), rseval.to_bv(args[0]), rseval.to_bv(args[1]))
    it.fn_models["cmp::min"] = lambda interp, args: min(args) if all(isinstance(a, int) for a in args) else z3.If(z3.ULE(rseval.to_bv(args[0]), rseval.to_bv(args[1])), rseval.to_bv(args[0]), rseval.to_bv(args[1]))
    return it, fs


class Crash(Exception):
    pass


def pick(it, var, options):
    for k, o in enumerate(options[:-1]):
        if it.branch(var == k):
            return o
    return options[-1]


def scenario(prog, mode, n_app, n_re, stats):
    it, fs = setup(prog)
    init_fn = prog.methods[("LogInnerManager", "init")]
    lens = [z3.BitVec("len%d" % i, 8) for i in range(n_app + n_re)]
    payload = [[z3.BitVec("b%d_%d" % (i, j), 64) for j in range(2)] for i in range(n_app + n_re)]
    cutv, nrev, reopenv, crashv, wrongv = z3.BitVec("cut", 8), z3.BitVec("n_reappend", 8), z3.Bool("reopen"), z3.BitVec("crash_after", 8), z3.Bool("wrong_index_append")
    rng = [z3.ULT(b, 256) for row in payload for b in row]
    covers = stats.setdefault("covers", {})

    def cover(name):
        covers[name] = covers.get(name, 0) + 1

    def open_log():
        r = it._invoke(init_fn, ["log", 0, 0, 0], self_ty="LogInnerManager")
        if not (isinstance(r, Enum) and r.variant == "Ok"):
            return None
        return r.payload[0]

    def mk_rec(i, index, term):
        ln = pick(it, lens[i], [1, 2])
        return Struct("LogRecordDto", {"index": index, "term": term, "value": payload[i][:ln]}), ln

    def read_all(m, upto):
        r = it.call_method("LogInnerManager", "read_records", m, [0, upto])
        if not (isinstance(r, Enum) and r.variant == "Ok"):
            return None
        return r.payload[0]

    def thunk():
        fs.files.clear()
        fs.mutations = 0
        m = open_log()
        if m is None:
            return ("violation", "a fresh log file cannot be initialised", [], "init")
        # the format carries the index interval: 2 instead of 128 (see module docstring)
        fs.files["log"][INTERVAL_OFFSET:INTERVAL_OFFSET + 2] = [0, 2]
        m = open_log()
        base_mut = fs.mutations
        crash_at = None
        if mode == "crash":
            crash_at = "pending"
        log = []
        ref = []  # acknowledged entries: (index, term, payload bytes)
        # ---- appends
        snapshots = []  # (mutations count after an acknowledged step, copy of ref)
        images = [(fs.mutations, {k: list(v) for k, v in fs.files.items()}, list(ref))]

        def do_write(recd, term):
            before = fs.mutations
            r = it.call_method("LogInnerManager", "write", m_box[0], [recd])
            ok = isinstance(r, Enum) and r.variant == "Ok" and isinstance(r.payload[0], Enum) and r.payload[0].variant in ("Success", "SuccessToEnd")
            return ok, (r.payload[0].variant if isinstance(r, Enum) and r.variant == "Ok" and isinstance(r.payload[0], Enum) else "Err")
        m_box = [m]
        for i in range(n_app):
            if mode == "append" and i == 1 and it.branch(wrongv):
                bad, _l = mk_rec(i, len(ref) + 1, 9)
                ok, kind = do_write(bad, 9)
                log.append(("append-wrong-index", kind))
                if ok or kind != "IndexEqualError":
                    return ("violation", "an append with a non-contiguous index is not refused", log, "wrong-index-accepted")
                cover("wrong index refused")
            recd, ln = mk_rec(i, len(ref), 1)
            ok, kind = do_write(recd, 1)
            log.append(("append", len(ref), "len=%d" % ln, kind))
            if not ok:
                return ("violation", "a contiguous append is refused (%s)" % kind, log, "append-refused")
            ref.append((len(ref), 1, recd["value"]))
            images.append((fs.mutations, None, list(ref)))
        # ---- truncation + re-append
        if mode in ("strip", "crash"):
            k = pick(it, cutv, list(range(n_app + 1)))
            r = it.call_method("LogInnerManager", "strip_log_to", m_box[0], [k])
            log.append(("delete-from", k))
            if not (isinstance(r, Enum) and r.variant == "Ok"):
                return ("violation", "delete-from fails", log, "strip-error")
            ref = ref[:k]
            if k % 2 == 0 and 0 < k < n_app:
                cover("cut exactly on an index entry")
            if k < n_app - 1 and (k // 2) < ((n_app - 1) // 2):
                cover("cut across an index entry")
            images.append((fs.mutations, None, list(ref)))
            nre = pick(it, nrev, list(range(n_re + 1)))
            for j in range(nre):
                recd, ln = mk_rec(n_app + j, len(ref), 2)
                ok, kind = do_write(recd, 2)
                log.append(("re-append", len(ref), "len=%d" % ln, kind))
                if not ok:
                    return ("violation", "the append at the cut index is refused after a delete-from (%s)" % kind, log, "append-after-strip-refused")
                ref.append((len(ref), 2, recd["value"]))
                images.append((fs.mutations, None, list(ref)))
        total_mut = fs.mutations
        # ---- crash point: re-run is not needed, the file model keeps every mutation; rebuild the image of a prefix
        if mode == "crash":
            return ("crash-eval", (total_mut, base_mut), log, images)
        # ---- observe (same handle or after reopen)
        reopened = it.branch(reopenv)
        mm = m_box[0]
        if reopened:
            mm = open_log()
            log.append(("reopen",))
            if mm is None:
                return ("violation", "the log does not reopen", log, "reopen-fails")
            cover("reopened")
        return ("observe", mm, log, ref)
    it.solver.push()
    it.solver.add(*rng)
    paths = it.explore(thunk, max_paths=100000)
    it.solver.pop()
    stats["paths"] += len(paths)
    stats["queries"] += it.queries
    stats["opaque"] = sorted(it.opaque_seen)
    return it, fs, paths, rng, (lens, payload)


def check_observation(it, prog, paths, rng, stats):
    """for 'observe' results: compare the log's answers with the reference list (needs evaluation of read_records on each path:
    done inside a second exploration pass to keep the first pass cheap)"""
    return None


def run_mode(prog, mode, n_app, n_re, name, bound, timer):
    stats = {"paths": 0, "queries": 0}
    ob = {"engine": "smt", "harness": name, "encodes_files": FILES, "bound": bound, "queries": 0, "solver_s": 0.0, "distinct": 0,
          "encodes": ["LogInnerManager::{init,read_indexs,move_to_end,move_to_index_by_count,write,strip_log_to,get_file_index_by_log_index,read_records,get_start_index,get_end_index,get_last_term}",
                      "LogRecord::{get_size,write_message,from_reader}", "MessageBufReader::*", "FileMessageReader::{read_next_position,read_index_position,read_len}",
                      "write_varint64 / read_varint64_offset / inner_sizeof_varint"]}
    try:
        it, fs = setup(prog)
        init_fn = prog.methods[("LogInnerManager", "init")]
        lens = [z3.BitVec("len%d" % i, 8) for i in range(n_app + n_re)]
        if mode == "append":
            payload = [[z3.BitVec("b%d_%d" % (i, j), 64) for j in range(2)] for i in range(n_app + n_re)]
        else:
            # truncation scenarios: concrete, pairwise different payload bytes (left-over bytes that are parsed out of alignment then
            # take one concrete path instead of forking over every value a symbolic byte could have as a length or a tag)
            payload = [[0x21 + 2 * i + j for j in range(2)] for i in range(n_app + n_re)]
        cutv, nrev, reopenv, crashv, wrongv = z3.BitVec("cut", 8), z3.BitVec("n_reappend", 8), z3.Bool("reopen"), z3.BitVec("crash_after", 8), z3.Bool("wrong_index_append")
        # payload bytes range over {1, 2, 3}: when left-over bytes are parsed out of alignment a payload byte acts as a length or a
        # tag and the evaluator forks over its values
        rng = [z3.ULE(b, 3) for row in payload for b in row if not isinstance(b, int)] + [b != 0 for row in payload for b in row if not isinstance(b, int)]
        covers = {}

        def cover(c):
            covers[c] = covers.get(c, 0) + 1

        startv = z3.BitVec("first_index_of_file", 8)
        st_box = [0]

        def open_log():
            r = it._invoke(init_fn, ["log", st_box[0], 0, 0], self_ty="LogInnerManager")
            if not (isinstance(r, Enum) and r.variant == "Ok"):
                return None
            return r.payload[0]

        def mk_rec(i, index, term):
            ln = pick(it, lens[i], [1, 2])
            return Struct("LogRecordDto", {"index": st_box[0] + index, "term": term, "value": payload[i][:ln]}), ln

        def write(m, recd):
            r = it.call_method("LogInnerManager", "write", m, [recd])
            kind = r.payload[0].variant if isinstance(r, Enum) and r.variant == "Ok" and isinstance(r.payload[0], Enum) else "Err"
            return kind in ("Success", "SuccessToEnd"), kind

        def possible(cond):
            if isinstance(cond, bool):
                return cond
            cond = z3.simplify(cond)
            if z3.is_false(cond):
                return False
            if it._feasible(cond):
                it.pc.append(cond)
                return True
            return False

        def compare(m, ref, log, what):
            """the log's view (end index, last term, entries) against the reference list"""
            end = it.call_method("LogInnerManager", "get_end_index", m, []) - st_box[0]
            if end != len(ref):
                return ("violation", "%s: the log reports end index %s, %d entries are acknowledged and not removed" % (what, end, len(ref)), log,
                        "end-index-too-large" if end > len(ref) else "end-index-too-small")
            if ref:
                lt = it.call_method("LogInnerManager", "get_last_term", m, [])
                if lt != ref[-1][1]:
                    return ("violation", "%s: last term reported (%s) differs from the term of the last entry (%s)" % (what, lt, ref[-1][1]), log, "last-term")
            r = it.call_method("LogInnerManager", "read_records", m, [0, st_box[0] + len(ref) + 3])
            if not (isinstance(r, Enum) and r.variant == "Ok"):
                return ("violation", "%s: entries cannot be read" % what, log, "read-fails")
            got = r.payload[0]
            if len(got) != len(ref):
                return ("violation", "%s: %d entries are returned, %d are acknowledged and not removed" % (what, len(got), len(ref)), log,
                        "entries-resurrected" if len(got) > len(ref) else "entries-lost")
            for g, (idx, term, val) in zip(got, ref):
                if g["index"] != st_box[0] + idx or g["term"] != term or len(g["value"]) != len(val):
                    return ("violation", "%s: entry %d comes back with index %s term %s payload length %d instead of index %d term %d length %d"
                            % (what, idx, g["index"], g["term"], len(g["value"]), idx, term, len(val)), log, "entry-changed")
                for a, b in zip(g["value"], val):
                    if possible(rseval.to_bv(a) != rseval.to_bv(b)):
                        return ("violation", "%s: payload of entry %d differs from the acknowledged payload" % (what, idx), log, "payload-changed")
            return None

        def thunk():
            fs.files.clear()
            fs.mutations = 0
            # the file's first index: 0, or 1 (not a multiple of the index interval: a file created after a snapshot / rollover)
            st_box[0] = pick(it, startv, [0, 1]) if mode != "crash" else 0
            m = open_log()
            if m is None:
                return ("violation", "a fresh log file cannot be initialised", [], "init")
            fs.files["log"][INTERVAL_OFFSET:INTERVAL_OFFSET + 2] = [0, 2]
            m = open_log()
            if m is None:
                return ("violation", "the log does not reopen after initialisation", [], "init")
            log = [("first-index", st_box[0])]
            ref = []
            base_image = {k: list(v) for k, v in fs.files.items()}
            fs.journal = [] if mode == "crash" else None
            states = [(0, [])]  # (journal length when the step was acknowledged, reference list)
            images = [(list(fs.files["log"]), [])]
            for i in range(n_app):
                if mode == "append" and i == 1 and it.branch(wrongv):
                    bad, _l = mk_rec(i, len(ref) + 1, 9)
                    ok, kind = write(m, bad)
                    log.append(("append-wrong-index", kind))
                    if ok or kind != "IndexEqualError":
                        return ("violation", "an append with a non-contiguous index is not refused (%s)" % kind, log, "wrong-index-accepted")
                    cover("wrong index refused")
                recd, ln = mk_rec(i, len(ref), 1)
                ok, kind = write(m, recd)
                log.append(("append", len(ref), "len=%d" % ln, kind))
                if not ok:
                    return ("violation", "a contiguous append is refused (%s)" % kind, log, "append-refused")
                ref.append((len(ref), 1, recd["value"]))
                if mode == "crash":
                    states.append((len(fs.journal), list(ref)))
            if mode in ("strip", "crash"):
                k = pick(it, cutv, list(range(n_app + 1)))
                r = it.call_method("LogInnerManager", "strip_log_to", m, [st_box[0] + k])
                log.append(("delete-from", k))
                if not (isinstance(r, Enum) and r.variant == "Ok"):
                    return ("violation", "delete-from fails", log, "strip-error")
                ref = ref[:k]
                if k % 2 == 0 and 0 < k < n_app:
                    cover("cut exactly on an index entry")
                if k < n_app and (n_app - 1) // 2 > k // 2:
                    cover("cut removes an index entry")
                if mode == "crash":
                    states.append((len(fs.journal), list(ref)))
                bad = compare(m, ref, log, "after delete-from %d" % k)
                if bad:
                    return bad
                nre = pick(it, nrev, list(range(n_re + 1)))
                for j in range(nre):
                    recd, ln = mk_rec(n_app + j, len(ref), 2)
                    ok, kind = write(m, recd)
                    log.append(("re-append", len(ref), "len=%d" % ln, kind))
                    if not ok:
                        return ("violation", "the append at the cut index is refused after a delete-from (%s)" % kind, log, "append-after-strip-refused")
                    ref.append((len(ref), 2, recd["value"]))
                    cover("re-append after a cut")
                    if mode == "crash":
                        states.append((len(fs.journal), list(ref)))
            if mode == "crash":
                # crash after any prefix of the journal of file mutations (also in the middle of an operation)
                journal = fs.journal
                fs.journal = None
                p = pick(it, crashv, list(range(len(journal) + 1)))
                fs.files.clear()
                fs.files.update(iomodel.replay_journal(base_image, journal, p))
                mm = open_log()
                log.append(("crash-after-mutation", p, "of", len(journal)))
                if mm is None:
                    return ("violation", "the log does not reopen after a crash", log, "reopen-after-crash-fails")
                cover("crash image reopened")
                # the state the store must show: that of the last step acknowledged before the crash point, or that of the step in flight
                done = [st for st in states if st[0] <= p]
                nxt = [st for st in states if st[0] > p]
                cands = [done[-1][1]] + ([nxt[0][1]] if nxt else [])
                if nxt and p > done[-1][0]:
                    cover("crash inside an operation")
                results = [compare(mm, c, list(log), "after a crash behind file mutation %d" % p) for c in cands]
                if all(r is not None for r in results):
                    return results[0]
                return ("ok", None, log, None)
            mm = m
            if it.branch(reopenv):
                mm = open_log()
                log.append(("reopen",))
                if mm is None:
                    return ("violation", "the log does not reopen", log, "reopen-fails")
                cover("reopened")
            bad = compare(mm, ref, log, "after reopen" if mm is not m else "same handle")
            if bad:
                return bad
            return ("ok", None, log, None)
        it.solver.push()
        it.solver.add(*rng)
        t1 = time.time()
        paths = it.explore(thunk, max_paths=200000)
        it.solver.pop()
        stats["paths"] = len(paths)
        s = z3.Solver()
        s.add(*rng)
        viol = None
        for pc, r, exc in paths:
            if exc is not None:
                viol = {"message": "panic in the log file code: %s" % exc, "tags": ["panic"], "model": {}}
                break
            if r[0] == "violation":
                s.push()
                s.add(*pc)
                if s.check() == z3.sat:
                    m_ = s.model()
                    viol = {"message": r[1], "tags": [r[3]], "model": {"history": [list(map(str, e)) for e in r[2]],
                            "payload_bytes": [[(b if isinstance(b, int) else m_.eval(b, model_completion=True).as_long()) for b in row] for row in payload]}}
                s.pop()
                if viol:
                    break
        ob["queries"] = it.queries
        ob["solver_s"] = round(time.time() - t1, 1)
        ob["sample"] = {"paths_explored": len(paths), "covers": covers, "opaque_symbols": sorted(it.opaque_seen)[:20]}
        need = {"append": ["wrong index refused", "reopened"], "strip": ["cut exactly on an index entry", "cut removes an index entry", "re-append after a cut", "reopened"],
                "crash": ["crash image reopened", "crash inside an operation"]}[mode]
        missing = [c for c in need if not covers.get(c)]
        if viol:
            ob.update({"verdict": "violation", "message": viol["message"], "tags": viol["tags"], "counterexample": viol["model"]})
        elif missing:
            ob.update({"verdict": "inconclusive", "message": "reachability witness never reached: %s" % missing})
        else:
            ob.update({"verdict": "discharged", "distinct": len(paths)})
    except rsparse.Unsupported as e:
        ob.update({"verdict": "inconclusive", "message": "encoder met source it cannot encode: %s" % e})
    return ob


def run(tier, seed, which="C03"):
    t0 = time.time()
    info = {"files": FILES, "solver": "z3 " + z3.get_version_string(), "cmd": "python3-vt -m lib.main %s (rs2smt/c03.py)" % which}
    try:
        prog = load_program(FILES)
    except rsparse.Unsupported as e:
        return {"obligations": [{"engine": "smt", "harness": "s03_parse", "verdict": "inconclusive", "message": str(e)}], "info": info}
    n_app = 3 if tier == "quick" else 4
    obligations = []
    if which == "C02":
        obligations.append(run_mode(prog, "append", n_app, 0, "s02_5_append_reopen",
                                    "%d appends (payload length 1-2, bytes symbolic), one wrong-index append, optional reopen; index interval 2" % n_app, None))
    if which == "C03":
        obligations.append(run_mode(prog, "strip", n_app, 2, "s03_2_delete_from_reappend",
                                    "%d appends, delete from every k in 0..=%d, 0-2 re-appends (payload length 1-2), optional reopen; index interval 2" % (n_app, n_app), None))
    if which == "C04":
        obligations.append(run_mode(prog, "crash", n_app, 1, "s04_1_crash_points",
                                    "%d appends, delete from k, 0-1 re-append; a crash after every prefix of the file mutations (write / set_len calls, also inside an operation), then reopen; index interval 2" % n_app, None))
    from lib import native
    for ob in obligations:
        if ob.get("verdict") == "violation":
            path = native.write_replay(which, "c03", "model", [], {"engine": "smt", "mode": "model-only", "obligation": ob["harness"], "message": ob["message"],
                                                                   "model": ob.get("counterexample")})
            ob["replay_path"] = path
            ob["replay"] = {"path": path, "outcome": "model-only", "message": "operation history for LogInnerManager with the index interval patched to 2"}
    info["wall_s"] = round(time.time() - t0, 1)
    return {"obligations": obligations, "info": info}


if __name__ == "__main__":
    import sys
    r = run(sys.argv[2] if len(sys.argv) > 2 else "quick", 0, which=sys.argv[1] if len(sys.argv) > 1 else "C03")
    for ob in r["obligations"]:
        print(ob["harness"], ob.get("verdict"), str(ob.get("message", ""))[:500], str(ob.get("counterexample"))[:700], ob.get("queries"), ob.get("solver_s"), str(ob.get("sample"))[:400])
    print(r["info"])
