"""C19 — the sequence service's replicated counter table: SequenceDbManager (src/sequence/core.rs).

Handler<SequenceRaftReq> (NextId, NextRange, SetId, RemoveId), next_id, next_range, build_snapshot, load_snapshot_record
(through Handler<RaftApplyDataRequest>) evaluated from source; id_to_bin / bin_to_id_result are the identity (k05_2_id_bin),
the snapshot writer is a recording sink.

Scenario: every history of N committed requests on two keys over
  next(k)        NextId
  range(k, s)    NextRange with a symbolic step 1 <= s < 2^32 (every node that draws from the named sequence sends one)
  set(k, v) / remove(k)   the explicit reset the property exempts
  restart        the table is written to a snapshot and loaded into a fresh manager (compaction + restart, or a node caught up by snapshot)
Oracle: for each key, the ids handed out since its last explicit reset - [start, start + len) per answer - are pairwise disjoint
and each answer starts at or above the end of the previous one (never issued twice, never backwards), across restarts.
"""
import copy
import time

import z3

from . import rseval, rsparse
from .c11 import pick
from .common import load_program, concretize
from .rseval import Struct, Enum, NONE, Some, Ok, Uninterp

FILES = ["src/sequence/core.rs", "src/sequence/model.rs"]
KEYS = ["ka", "kb"]


class Writer:
    def __init__(self):
        self.ty = "WriterAddr"
        self.records = []


def run(tier, seed):
    t0 = time.time()
    n = 4 if tier == "quick" else 5
    ob = {"engine": "smt", "harness": "s19_6_sequence_table", "encodes_files": FILES, "queries": 0, "solver_s": 0.0, "distinct": 0,
          "encodes": ["Handler<SequenceRaftReq>::handle", "SequenceDbManager::{next_id,next_range,build_snapshot,load_snapshot_record}", "Handler<RaftApplyDataRequest>::handle"],
          "bound": "every history of %d committed requests on two keys over {NextId, NextRange(step symbolic in 1..2^32), SetId, RemoveId, snapshot + load into a fresh manager}" % n}
    try:
        prog = load_program(FILES)
        it = rseval.Interp(prog)
        it.lenient = True
        it.fn_models["id_to_bin"] = lambda interp, args: args[0]
        it.fn_models["bin_to_id_result"] = lambda interp, args: Ok(args[0])
        it.fn_models["String::from_utf8"] = lambda interp, args: Ok(args[0])
        it.fn_models["HashMap::new"] = lambda interp, args: {}
        it.models[(None, "as_bytes")] = lambda interp, recv, args: recv

        def writer_do_send(interp, recv, args):
            msg = args[0]
            payload = msg.payload if isinstance(msg, Enum) else getattr(msg, "args", None)
            recv.records.append(payload[0] if isinstance(payload, (list, tuple)) else payload)
            return ()
        it.models[("WriterAddr", "do_send")] = writer_do_send
        handle = prog.trait_method("SequenceDbManager", "handle", "SequenceRaftReq")
        apply_h = prog.trait_method("SequenceDbManager", "handle", "RaftApplyDataRequest")
        if handle is None or apply_h is None:
            raise rsparse.Unsupported("handlers of SequenceDbManager not found")
        opv = [z3.BitVec("op%d" % i, 8) for i in range(n)]
        keyv = [z3.Bool("op%d_key_b" % i) for i in range(n)]
        stepv = [z3.BitVec("step%d" % i, 64) for i in range(n)]
        setv = [z3.BitVec("set%d" % i, 64) for i in range(n)]
        rng = [z3.And(z3.UGE(s_, 1), z3.ULT(s_, 1 << 32)) for s_ in stepv] + [z3.And(z3.UGE(s_, 1), z3.ULT(s_, 1 << 40)) for s_ in setv]
        covers = {"a fresh key's first range followed by a second": 0, "a draw after a restart": 0, "a draw after an explicit reset": 0}
        ops_box = [[]]

        def possible(cond):
            if isinstance(cond, bool):
                return cond
            cond = z3.simplify(cond)
            if z3.is_false(cond):
                return False
            if it._feasible(cond):
                it.pc.append(cond)
                return True
            return False

        def new_mgr():
            return Struct("SequenceDbManager", {"seq_map": {}, "init": False})

        def thunk():
            r = inner()
            return r + (list(ops_box[0]),)

        def inner():
            mgr = new_mgr()
            rec = ops_box[0] = []
            log = []
            last_end = {}     # key -> end (exclusive) of the last answer since the last explicit reset
            drawn = {}        # key -> number of draws since the reset
            restarted = False
            for i in range(n):
                op = pick(it, opv[i], ["next", "range", "set", "remove", "restart"])
                if op == "restart":
                    w = Writer()
                    r = it._invoke(apply_h, [mgr, Enum("RaftApplyDataRequest", "BuildSnapshot", [w]), "ctx"], self_ty="SequenceDbManager")
                    if not (isinstance(r, Enum) and r.variant == "Ok"):
                        return ("violation", "building the snapshot of the sequence table fails", log, "snapshot-error")
                    fresh = new_mgr()
                    for x in w.records:
                        r = it._invoke(apply_h, [fresh, Enum("RaftApplyDataRequest", "LoadSnapshotRecord", [copy.deepcopy(x)]), "ctx"], self_ty="SequenceDbManager")
                        if not (isinstance(r, Enum) and r.variant == "Ok"):
                            return ("violation", "loading a snapshot record of the sequence table fails", log, "snapshot-error")
                    it._invoke(apply_h, [fresh, Enum("RaftApplyDataRequest", "LoadCompleted", None), "ctx"], self_ty="SequenceDbManager")
                    mgr = fresh
                    restarted = True
                    rec.append({"op": "restart"})
                    log.append(("restart",))
                    continue
                k = KEYS[1] if it.branch(keyv[i]) else KEYS[0]
                if op == "set":
                    it._invoke(handle, [mgr, Enum("SequenceRaftReq", "SetId", [k, setv[i]]), "ctx"], self_ty="SequenceDbManager")
                    last_end.pop(k, None)
                    drawn[k] = -1000
                    rec.append({"op": "set", "key": k, "value": setv[i]})
                    log.append(("set", k, "set%d" % i))
                    continue
                if op == "remove":
                    it._invoke(handle, [mgr, Enum("SequenceRaftReq", "RemoveId", [k]), "ctx"], self_ty="SequenceDbManager")
                    last_end.pop(k, None)
                    drawn[k] = -1000
                    rec.append({"op": "remove", "key": k})
                    log.append(("remove", k))
                    continue
                if op == "next":
                    r = it._invoke(handle, [mgr, Enum("SequenceRaftReq", "NextId", [k]), "ctx"], self_ty="SequenceDbManager")
                    if not (isinstance(r, Enum) and r.variant == "Ok" and isinstance(r.payload[0], Enum) and r.payload[0].variant == "NextId"):
                        return ("violation", "NextId is not answered with an id", log, "no-answer")
                    start, ln = r.payload[0].payload[0], 1
                    rec.append({"op": "next", "key": k})
                    log.append(("next", k))
                else:
                    r = it._invoke(handle, [mgr, Enum("SequenceRaftReq", "NextRange", [k, stepv[i]]), "ctx"], self_ty="SequenceDbManager")
                    if not (isinstance(r, Enum) and r.variant == "Ok" and isinstance(r.payload[0], Enum) and r.payload[0].variant == "NextRange"):
                        return ("violation", "NextRange is not answered with a range", log, "no-answer")
                    pl = r.payload[0].payload
                    start, ln = pl["start"], pl["len"]
                    rec.append({"op": "range", "key": k, "step": stepv[i]})
                    log.append(("range", k, "step%d" % i))
                    if possible(rseval.to_bv(ln) != stepv[i]):
                        return ("violation", "NextRange answers with a length that differs from the requested step", log, "range-length")
                if possible(rseval.to_bv(start) == 0):
                    return ("violation", "id 0 is handed out", log, "id-zero")
                if k in last_end:
                    if possible(z3.ULT(rseval.to_bv(start), rseval.to_bv(last_end[k]))):
                        return ("violation", "key %s: an answer starts below the end of the previous one: an id is issued twice (or ids go backwards)" % k, log, "id-issued-twice")
                    if drawn.get(k, 0) == 1:
                        covers["a fresh key's first range followed by a second"] += 1
                    if restarted:
                        covers["a draw after a restart"] += 1
                if drawn.get(k, 0) < 0:
                    covers["a draw after an explicit reset"] += 1
                drawn[k] = max(drawn.get(k, 0), 0) + 1
                last_end[k] = rseval.to_bv(start) + rseval.to_bv(ln)
            return ("ok", None, log, None)
        it.solver.push()
        it.solver.add(*rng)
        paths = it.explore(thunk, max_paths=400000)
        it.solver.pop()
        s = z3.Solver()
        s.add(*rng)
        viol = None
        for pc, r, exc in paths:
            if exc is not None:
                viol = {"message": "panic in the sequence table: %s" % exc, "tags": ["panic"], "model": {}}
                break
            if r[0] == "violation":
                s.push()
                s.add(*pc)
                if s.check() == z3.sat:
                    m_ = s.model()
                    viol = {"message": r[1], "tags": [r[3]], "model": {"history": [list(map(str, e)) for e in r[2]], "ops": concretize(r[4], m_)}}
                s.pop()
                if viol:
                    break
        ob["queries"] = it.queries
        ob["solver_s"] = round(time.time() - t0, 1)
        ob["sample"] = {"paths_explored": len(paths), "covers": covers, "opaque_symbols": sorted(it.opaque_seen)[:20]}
        missing = [c for c, k in covers.items() if k == 0]
        if viol:
            ob.update({"verdict": "violation", "message": viol["message"], "tags": viol["tags"], "counterexample": viol["model"]})
        elif missing:
            ob.update({"verdict": "inconclusive", "message": "reachability witness never reached: %s" % missing})
        else:
            ob.update({"verdict": "discharged", "distinct": len(paths)})
    except rsparse.Unsupported as e:
        ob.update({"verdict": "inconclusive", "message": "encoder met source it cannot encode: %s" % e})
    return ob


if __name__ == "__main__":
    import sys
    ob = run(sys.argv[1] if len(sys.argv) > 1 else "quick", 0)
    print(ob["harness"], ob.get("verdict"), str(ob.get("message", ""))[:900], str(ob.get("counterexample"))[:900], ob.get("queries"), ob.get("solver_s"), str(ob.get("sample"))[:800])
