"""C01 (narrow) — the snapshot file: what a snapshot build writes is what a restart reads back, also when an earlier,
interrupted build left a file under the same name (snapshot ids are reused for builds that were never catalogued).

Symbolic evaluation of the real source of SnapshotWriter::{init, write_record, flush}, SnapshotReader::{init, read_record,
get_header} (src/raft/filestore/raftsnapshot.rs), SnapshotHeaderDto / SnapshotRecordDto conversions (model.rs), the
generated protobuf code of SnapshotHeader / LogSnapshotItem (log.rs), MessageBufReader (common/protobuf_utils.rs) over the
environment models of rs2smt/iomodel.py. Record keys / values are symbolic bytes; header fields symbolic (< 2^14).
"""
import time

import z3

from . import rseval, rsparse, iomodel
from .c05 import make
from .common import load_program
from .rseval import Struct, Enum, NONE, Some, Ok, Uninterp

FILES = ["src/raft/filestore/raftsnapshot.rs", "src/raft/filestore/log.rs", "src/raft/filestore/model.rs", "src/common/protobuf_utils.rs"]


def header(li, lt):
    return Struct("SnapshotHeaderDto", {"last_index": li, "last_term": lt, "member": [], "member_after_consensus": [], "node_addrs": {}})


def rec(k, v):
    return Struct("SnapshotRecordDto", {"tree": "t", "key": [k], "value": [v], "op_type": 0})


def run(tier, seed):
    t0 = time.time()
    info = {"files": FILES, "solver": "z3 " + z3.get_version_string(), "cmd": "python3-vt -m lib.main C01 (rs2smt/c01.py)"}
    obligations = []
    try:
        prog = load_program(FILES)
    except rsparse.Unsupported as e:
        return {"obligations": [{"engine": "smt", "harness": "s01_parse", "verdict": "inconclusive", "message": str(e)}], "info": info}
    for left in ((0, 2) if tier == "quick" else (0, 1, 2, 3)):
        ob = {"engine": "smt", "harness": "s01_1_snapshot_leftover%d" % left, "encodes_files": FILES,
              "encodes": ["SnapshotWriter::{init,write_record,flush}", "SnapshotReader::{init,read_record,get_header}", "SnapshotHeaderDto/SnapshotRecordDto conversions",
                          "SnapshotHeader/LogSnapshotItem::{get_size,write_message,from_reader} (generated code)", "MessageBufReader::{new,append_next_buf,next_message_vec,is_empty}"],
              "bound": "an earlier build left header + %d records under the same name; the new build writes header + 1 record; 1-byte keys/values symbolic, header fields symbolic in 1..=127 (all lengths equal: the left-over bytes are record-aligned)" % left,
              "queries": 0, "solver_s": 0.0, "distinct": 0}
        try:
            it, fs = make(prog)
            k = [z3.BitVec("key%d" % i, 64) for i in range(left + 1)]
            v = [z3.BitVec("val%d" % i, 64) for i in range(left + 1)]
            li, lt, li2, lt2 = z3.BitVec("last_index0", 64), z3.BitVec("last_term0", 64), z3.BitVec("last_index", 64), z3.BitVec("last_term", 64)
            rng = [z3.ULT(x, 256) for x in k + v] + [z3.ULT(x, 128) for x in (li, lt, li2, lt2)] + [x != 0 for x in (li, lt, li2, lt2)]
            w_init = prog.methods[("SnapshotWriter", "init")]
            r_init = prog.methods[("SnapshotReader", "init")]

            def thunk():
                fs.files.clear()
                if left > 0:
                    w0 = it._invoke(w_init, ["snap", header(li, lt)], self_ty="SnapshotWriter").payload[0]
                    for i in range(left):
                        it.call_method("SnapshotWriter", "write_record", w0, [rec(k[i], v[i])])
                    it.call_method("SnapshotWriter", "flush", w0, [])
                w = it._invoke(w_init, ["snap", header(li2, lt2)], self_ty="SnapshotWriter").payload[0]
                it.call_method("SnapshotWriter", "write_record", w, [rec(k[left], v[left])])
                it.call_method("SnapshotWriter", "flush", w, [])
                r = it._invoke(r_init, ["snap"], self_ty="SnapshotReader")
                if not (isinstance(r, Enum) and r.variant == "Ok"):
                    return ("reader-init-failed", None, None)
                r = r.payload[0]
                got = []
                for _ in range(left + 3):
                    x = it.call_method("SnapshotReader", "read_record", r, [])
                    if not (isinstance(x, Enum) and x.variant == "Ok"):
                        got.append("ERR")
                        break
                    x = x.payload[0]
                    if x.variant == "None":
                        break
                    got.append(x.payload[0])
                return ("ok", r["header"], got)
            it.solver.push()
            it.solver.add(*rng)
            paths = it.explore(thunk, max_paths=50000)
            it.solver.pop()
            s = z3.Solver()
            s.add(*rng)
            nq = 0
            viol = None
            for pc, r, exc in paths:
                if exc is not None:
                    viol = ("panic while writing / reading the snapshot file: %s" % exc, {}, "panic")
                    break
                kind, hdr, got = r
                checks = []
                if kind != "ok":
                    checks.append((z3.BoolVal(True), "snapshot file cannot be opened for reading", "reader-init"))
                else:
                    checks.append((rseval.to_bv(hdr["last_index"]) != li2, "snapshot header: last index read back differs from the written one", "header"))
                    checks.append((rseval.to_bv(hdr["last_term"]) != lt2, "snapshot header: last term read back differs from the written one", "header"))
                    if len(got) == 0 or got[0] == "ERR":
                        checks.append((z3.BoolVal(True), "the record written by the snapshot build is not read back", "record-lost"))
                    else:
                        g = got[0]
                        if len(g["key"]) != 1 or len(g["value"]) != 1:
                            checks.append((z3.BoolVal(True), "record key/value length read back differs", "record-changed"))
                        else:
                            checks.append((rseval.to_bv(g["key"][0]) != k[left], "record key read back differs", "record-changed"))
                            checks.append((rseval.to_bv(g["value"][0]) != v[left], "record value read back differs", "record-changed"))
                    extra = [g for g in got[1:] if g != "ERR"]
                    if extra:
                        checks.append((z3.BoolVal(True), "the snapshot reader returns %d record(s) that the snapshot build did not write (left over from an earlier file of the same name)"
                                       % len(extra), "leftover-records-read"))
                    elif len(got) > 1:
                        checks.append((z3.BoolVal(True), "reading the snapshot fails with an error behind the written record (bytes left over from an earlier file of the same name)",
                                       "leftover-bytes-break-reading"))
                for bad, msg, tag in checks:
                    s.push()
                    s.add(*pc)
                    s.add(bad)
                    ts = time.time()
                    res = s.check()
                    ob["solver_s"] += time.time() - ts
                    nq += 1
                    if res == z3.sat:
                        m = s.model()
                        viol = (msg, {"leftover_records": left, "keys": [m.eval(x, model_completion=True).as_long() for x in k],
                                      "values": [m.eval(x, model_completion=True).as_long() for x in v],
                                      "header0": [m.eval(li, model_completion=True).as_long(), m.eval(lt, model_completion=True).as_long()],
                                      "header": [m.eval(li2, model_completion=True).as_long(), m.eval(lt2, model_completion=True).as_long()]}, tag)
                    s.pop()
                    if viol:
                        break
                if viol:
                    break
            ob["queries"] = nq + it.queries
            ob["solver_s"] = round(ob["solver_s"], 2)
            ob["sample"] = {"paths_explored": len(paths), "opaque_symbols": sorted(it.opaque_seen)[:20]}
            if viol:
                ob.update({"verdict": "violation", "message": viol[0], "tags": [viol[2]] + (["leftover-file-longer-than-new-snapshot"] if left else []), "counterexample": viol[1]})
            elif not paths:
                ob.update({"verdict": "inconclusive", "message": "no path"})
            else:
                ob.update({"verdict": "discharged", "distinct": nq})
        except rsparse.Unsupported as e:
            ob.update({"verdict": "inconclusive", "message": "encoder met source it cannot encode: %s" % e})
        obligations.append(ob)
    for ob in obligations:
        if ob.get("verdict") == "violation":
            replay_native(ob)
    # start-up orchestration (load index -> snapshot -> log suffix -> load complete)
    from . import c01orch
    ob = c01orch.run(tier, seed)
    import os
    from .common import native_scenarios
    native_ok = not os.environ.get("VERIF_NO_NATIVE")
    if ob.get("verdict") == "violation":
        ce = ob.get("counterexample") or {}
        scen = None
        if ce.get("catalogue_has_snapshot") and ce.get("older_snapshot_end") is not None and ce.get("last_applied", 0) > 0:
            scen = "two_compactions_then_restart"   # an older snapshot is still in the catalogue
        elif ce.get("catalogue_has_snapshot") and ce.get("last_applied") == 0:
            scen = "install_then_restart"      # state arrived by snapshot installation, nothing applied since
        elif ce.get("catalogue_has_snapshot") and 0 < ce.get("last_applied", 0) <= ce.get("snapshot_end", 0):
            scen = "compaction_then_restart"   # restart right behind a compaction
        if scen and native_ok:
            rr = native_scenarios("C01", "violation", [scen], ob["message"], {"obligation": ob["harness"], "model": ce})
            ob["replay_path"] = rr["path"]
            ob["replay"] = {"path": rr["path"], "outcome": rr["outcome"], "message": rr["message"]}
            if rr["outcome"] != "reproduced":
                ob.update({"verdict": "inconclusive", "message": "engine-S counterexample (%s) did not reproduce on a real node (%s %s)" % (ob["message"], rr["outcome"], rr["message"])})
            else:
                ob["message"] = "%s [real node: %s]" % (ob["message"], rr["message"][:400])
        else:
            from lib import native
            path = native.write_replay("C01", "c01", "model", [], {"engine": "smt", "mode": "model-only", "obligation": ob["harness"], "message": ob["message"], "model": ce})
            ob["replay_path"] = path
            ob["replay"] = {"path": path, "outcome": "model-only", "message": "index contents + emission sequence of the start-up chain (no node-level scenario of that shape)"}
    elif ob.get("verdict") == "discharged" and native_ok:
        # translator validation: the two node-level histories behind the oracle hold on a real node
        val = native_scenarios("C01", "validate", ["compaction_then_restart", "install_then_restart", "two_compactions_then_restart"])
        info["translator_validation_node"] = {"outcome": val["outcome"], "message": val["message"], "path": val["path"]}
        if val["outcome"] != "passed":
            obligations.append({"engine": "smt", "harness": "s01_node_validation", "verdict": "inconclusive", "queries": 0, "solver_s": 0,
                                "message": "the start-up obligation is discharged but a real node does not serve the same state after a restart: %s" % val["message"]})
    obligations.append(ob)
    # a component's own snapshot records: the namespace registry
    from . import c01ns
    ob = c01ns.run(tier, seed)
    if ob.get("verdict") == "violation":
        from lib import native
        path = native.write_replay("C01", "c01", "model", [], {"engine": "smt", "mode": "model-only", "obligation": ob["harness"], "message": ob["message"], "model": ob.get("counterexample")})
        ob["replay_path"] = path
        ob["replay"] = {"path": path, "outcome": "model-only", "message": "which namespaces exist (created by a user / referenced by a config / by a service) before the snapshot is built"}
    obligations.append(ob)
    # record order of the MCP registry's snapshot (servers are resolved against the tool specs loaded before them)
    from . import c01mcp
    ob = c01mcp.run(tier, seed)
    if ob.get("verdict") == "violation":
        from lib import native
        path = native.write_replay("C01", "c01", "model", [], {"engine": "smt", "mode": "model-only", "obligation": ob["harness"], "message": ob["message"], "model": ob.get("counterexample")})
        ob["replay_path"] = path
        ob["replay"] = {"path": path, "outcome": "model-only", "message": "order of the record trees in the snapshot"}
    obligations.append(ob)
    # the configuration component's own snapshot records: build_snapshot -> load_snapshot into a fresh actor serves the same
    from . import c01cfg
    ob = c01cfg.run(tier, seed)
    if ob.get("verdict") == "violation":
        if native_ok:
            # the node scenario publishes one key twice, compacts and restarts: it shows every difference in what is served for a key published more than once
            rr = native_scenarios("C01", "violation", ["compaction_then_restart"], ob["message"], {"obligation": ob["harness"], "model": ob.get("counterexample")})
            ob["replay_path"] = rr["path"]
            if rr["outcome"] == "reproduced":
                ob["replay"] = {"path": rr["path"], "outcome": rr["outcome"], "message": rr["message"]}
                ob["message"] = "%s [real node: %s]" % (ob["message"], rr["message"][:400])
            else:
                ob["replay"] = {"path": rr["path"], "outcome": "model-only", "message": "the fixed node scenario (one key published twice, compaction, restart) does not show it: %s" % rr["message"][:200]}
        else:
            from lib import native
            path = native.write_replay("C01", "c01", "model", [], {"engine": "smt", "mode": "model-only", "obligation": ob["harness"], "message": ob["message"], "model": ob.get("counterexample")})
            ob["replay_path"] = path
            ob["replay"] = {"path": path, "outcome": "model-only", "message": "publish / remove history before the snapshot"}
    obligations.append(ob)
    # the table component behind the user manager
    from . import c01table
    ob = c01table.run(tier, seed)
    if ob.get("verdict") == "violation":
        from lib import native
        path = native.write_replay("C01", "c01", "model", [], {"engine": "smt", "mode": "model-only", "obligation": ob["harness"], "message": ob["message"], "model": ob.get("counterexample")})
        ob["replay_path"] = path
        ob["replay"] = {"path": path, "outcome": "model-only", "message": "set / remove / drop history of the user table before the snapshot"}
    obligations.append(ob)
    # the naming component's own snapshot records: persistent instances
    from . import c01naming
    from .common import concretize
    ob = c01naming.run(tier, seed)
    ok_paths, rng = ob.pop("_ok_paths", []), ob.pop("_rng", [])
    if ob.get("verdict") == "violation" and (ob.get("counterexample") or {}).get("ops") and native_ok:
        rr = native_scenarios("C01", "violation", ["naming_snapshot_history"], ob["message"], {"obligation": ob["harness"], "model": ob.get("counterexample"), "ops": ob["counterexample"]["ops"]})
        ob["replay_path"] = rr["path"]
        ob["replay"] = {"path": rr["path"], "outcome": rr["outcome"], "message": rr["message"]}
        if rr["outcome"] != "reproduced":
            ob.update({"verdict": "inconclusive", "message": "engine-S counterexample (%s) did not reproduce on a real NamingActor (%s %s)" % (ob["message"], rr["outcome"], rr["message"])})
        else:
            ob["message"] = "%s [real NamingActor through a real snapshot file: %s]" % (ob["message"], rr["message"][:300])
    elif ob.get("verdict") == "violation":
        from lib import native
        path = native.write_replay("C01", "c01", "model", [], {"engine": "smt", "mode": "model-only", "obligation": ob["harness"], "message": ob["message"], "model": ob.get("counterexample")})
        ob["replay_path"] = path
        ob["replay"] = {"path": path, "outcome": "model-only", "message": "naming requests before the snapshot"}
    elif ob.get("verdict") == "discharged" and native_ok:
        import random
        rnd = random.Random(seed)
        rnd.shuffle(ok_paths)
        s_ = z3.Solver()
        s_.add(*rng)
        bad = None
        n_val = 0
        for pc, ops in ok_paths[:6]:
            s_.push()
            s_.add(*pc)
            if s_.check() == z3.sat:
                cops = concretize(ops, s_.model())
                if all(isinstance(o.get("weight", 0.0), float) for o in cops):
                    nv = native_scenarios("C01", "validate", ["naming_snapshot_history"], "", {"ops": cops})
                    n_val += 1
                    if nv["outcome"] != "passed":
                        bad = nv
            s_.pop()
            if bad:
                break
        info["translator_validation_naming_snapshot"] = {"outcome": "passed" if not bad else bad["outcome"], "histories": n_val, "message": "" if not bad else bad["message"]}
        if bad or not n_val:
            ob.update({"verdict": "inconclusive", "message": "the obligation is discharged but a real NamingActor breaks it on a sampled history: %s" % (bad or {}).get("message", "no history sampled")})
    obligations.append(ob)
    info["wall_s"] = round(time.time() - t0, 1)
    return {"obligations": obligations, "info": info}


def le(v, n):
    return [(v >> (8 * i)) & 0xff for i in range(n)]


def replay_native(ob):
    """through the native scenario harness/c01.rs::k01_1_snapshot_{fresh,leftover2} (real files)"""
    from lib import native
    ce = ob["counterexample"]
    left = ce["leftover_records"]
    if left not in (0, 2):
        path = native.write_replay("C01", "c01", "model", [], {"engine": "smt", "mode": "model-only", "message": ob["message"], "model": ce})
        ob["replay_path"] = path
        ob["replay"] = {"path": path, "outcome": "model-only", "message": "no native scenario with %d leftover records" % left}
        return
    vals = [le(ce["header0"][0], 8), le(ce["header0"][1], 8)]
    for i in range(left):
        vals += [[ce["keys"][i]], [ce["values"][i]]]
    vals += [[ce["keys"][left]], [ce["values"][left]], le(ce["header"][0], 8), le(ce["header"][1], 8)]
    # the native scenario asks for header values < 128
    name = "k01_1_snapshot_leftover2" if left == 2 else "k01_1_snapshot_fresh"
    path = native.write_replay("C01", "c01", name, vals, {"engine_s_model": ce})
    ob["replay_path"] = path
    exe, berr = native.build()
    if exe is None:
        ob.update({"verdict": "inconclusive", "message": "native replay build failed: " + berr[-300:]})
        return
    rr = native.run_replay(exe, path)
    ob["replay"] = {"path": path, "outcome": rr["outcome"], "message": rr["message"], "tags": rr["tags"]}
    if rr["outcome"] != "reproduced":
        ob.update({"verdict": "inconclusive", "message": "solver counterexample did not reproduce against the real code (%s %s)" % (rr["outcome"], rr["message"])})
    else:
        ob["message"] = rr["message"] or ob["message"]
        ob["tags"] = sorted(set(ob.get("tags", [])) | set(rr["tags"]))
