"""C08 (narrow: the receiving side, one process) — a node that is caught up by snapshot installation takes over the
snapshot's state: FileStore::finalize_snapshot_installation (src/raft/filestore/core.rs, the RaftStorage method async-raft
calls when the last chunk has arrived) and what it triggers in the same process, Handler<StateApplyRequest>::handle /
StateApplyManager::apply_snapshot (raftapply.rs), evaluated from source.

Collaborators are recording sinks: the snapshot manager (InstallSnapshot), the log manager (SplitOff,
InstallSnapshotPointerLog), the index manager (SaveMember, LoadMember), the data handler (load_snapshot, load_complete);
the apply manager's address dispatches into the real handler. The installed snapshot has a header with members [1, 2] and
two records. Symbolic: snapshot index, term, whether async-raft asks to delete the log through an index, that index.

Oracle over the emissions:
  (a) the catalogue is told about the snapshot with end index = the snapshot's index
  (b) every record of the installed snapshot is delivered to the state machine, followed by the load-complete notification
      (otherwise the node keeps serving its old / empty state until it is restarted)
  (c) the membership of the snapshot header is saved
  (d) the log is split off behind delete_through (or at 0 when none is given) and the snapshot pointer entry is installed
"""
import time

import z3

from . import rseval, rsparse
from .common import load_program
from .c01orch import Sink, install_actor_future
from .rseval import Struct, Enum, NONE, Some, Ok, Uninterp

FILES = ["src/raft/filestore/core.rs", "src/raft/filestore/raftapply.rs"]
ENUM_FILES = ["src/raft/filestore/raftindex.rs", "src/raft/filestore/raftsnapshot.rs", "src/raft/filestore/raftlog/mod.rs"]


def variant_of(msg):
    if isinstance(msg, Enum):
        return msg.variant, msg.payload
    if isinstance(msg, Uninterp):
        return msg.name.split("::")[-1], msg.args
    if isinstance(msg, tuple) and msg and msg[0] == "extern":
        return msg[1].split("::")[-1], None
    return str(msg), None


def run_obligations(tier, seed):
    t0 = time.time()
    ob = {"engine": "smt", "harness": "s08_1_snapshot_installation_receiver", "encodes_files": FILES,
          "encodes": ["FileStore::finalize_snapshot_installation", "Handler<StateApplyRequest>::handle (ApplySnapshot arm)", "StateApplyManager::{apply_snapshot,do_load_snapshot,load_complete}"],
          "bound": "every snapshot index / term (64-bit), delete_through absent or any index; installed snapshot with a 2-member header and 2 records",
          "queries": 0, "solver_s": 0.0, "distinct": 0}
    try:
        prog = load_program(FILES + ENUM_FILES)
        it = rseval.Interp(prog)
        it.lenient = True
        install_actor_future(it)
        index, term, dthru = z3.BitVec("snapshot_index", 64), z3.BitVec("snapshot_term", 64), z3.BitVec("delete_through", 64)
        has_dt = z3.Bool("has_delete_through")
        events = []
        handle = prog.trait_method("StateApplyManager", "handle", "StateApplyRequest")
        if handle is None:
            raise rsparse.Unsupported("Handler<StateApplyRequest> for StateApplyManager not found")
        box = {}

        def rec(name):
            def f(interp, recv, args):
                v, payload = variant_of(args[0])
                recv.events.append((name, v, payload))
                if v == "LoadMember":
                    return Ok(Ok(Enum("RaftIndexResponse", "MemberShip", {"member": [1, 2], "member_after_consensus": [], "node_addrs": {}})))
                return Ok(Ok(Enum("Resp", "None", None)))
            return f
        for ty in ("IndexAddr", "SnapAddr", "LogAddr"):
            it.models[(ty, "send")] = rec(ty)
            it.models[(ty, "do_send")] = lambda interp, recv, args, ty=ty: recv.events.append((ty, variant_of(args[0])[0], variant_of(args[0])[1])) or ()

        def apply_send(interp, recv, args):
            recv.events.append(("ApplyAddr", variant_of(args[0])[0], None))
            r = interp._invoke(handle, [box["apply_actor"], args[0], "ctx"], self_ty="StateApplyManager")
            return Ok(r)
        it.models[("ApplyAddr", "send")] = apply_send

        def reader_init(interp, args):
            return Ok(Struct("SnapshotReader", {"left": 2, "header": Struct("SnapshotHeaderDto", {"member": [1, 2], "member_after_consensus": [], "node_addrs": {}, "last_index": index, "last_term": term})}))
        it.fn_models["SnapshotReader::init_by_file"] = reader_init

        def read_record(interp, recv, args):
            if recv["left"] > 0:
                recv["left"] -= 1
                return Ok(Some(Struct("SnapshotRecordDto", {"n": recv["left"]})))
            return Ok(NONE)
        it.models[("SnapshotReader", "read_record")] = read_record
        it.models[("SnapshotReader", "get_header")] = lambda interp, recv, args: recv["header"]
        it.models[("DataWrap", "load_snapshot")] = lambda interp, recv, args: recv.events.append(("DataWrap", "snapshot-record", None)) or Ok(())
        it.models[("DataWrap", "load_complete")] = lambda interp, recv, args: recv.events.append(("DataWrap", "load-complete", None)) or Ok(())
        fin = prog.trait_method("FileStore", "finalize_snapshot_installation", "RaftStorage") or prog.methods.get(("FileStore", "finalize_snapshot_installation"))
        if fin is None:
            raise rsparse.Unsupported("FileStore::finalize_snapshot_installation not found")

        def thunk():
            del events[:]
            box["apply_actor"] = Struct("StateApplyManager", {"index_manager": Some(Sink("IndexAddr", events)), "snapshot_manager": Some(Sink("SnapAddr", events)),
                                                              "log_manager": Some(Sink("LogAddr", events)), "data_wrap": Some(Sink("DataWrap", events)),
                                                              "snapshot_next_index": 1, "last_applied_log": 0})
            store = Struct("FileStore", {"node_id": 1, "index_manager": Sink("IndexAddr", events), "snapshot_manager": Sink("SnapAddr", events), "log_manager": Sink("LogAddr", events),
                                         "apply_manager": Sink("ApplyAddr", events), "close_write": False})
            dt = Some(dthru) if it.branch(has_dt) else NONE
            r = it._invoke(fin, [store, index, term, dt, "5", "snapshot-file"], self_ty="FileStore")
            return (r, list(events), dt is not NONE)
        paths = it.explore(thunk, max_paths=2000)
        s = z3.Solver()
        s.add(z3.ULT(dthru, (1 << 64) - 1))
        viol = None
        nq = 0

        def ask(pc, cond, msg, tag, evs):
            nonlocal nq
            s.push()
            s.add(*pc)
            if cond is not True:
                s.add(cond)
            nq += 1
            out = None
            if s.check() == z3.sat:
                m = s.model()
                out = {"message": msg, "tags": [tag], "model": {"snapshot_index": m.eval(index, model_completion=True).as_long(), "snapshot_term": m.eval(term, model_completion=True).as_long(),
                                                                   "delete_through": m.eval(dthru, model_completion=True).as_long() if z3.is_true(m.eval(has_dt, model_completion=True)) else None,
                                                                   "emissions": ["%s <- %s" % (e[0], e[1]) for e in evs]}}
            s.pop()
            return out
        covered = 0
        viol_state = None   # (b) the snapshot's records reach the state machine
        viol_meta = None    # (a), (c), (d) catalogue, membership, log
        viol_order = None   # C04: a process death between two messages of the installation
        for pc, rr, exc in paths:
            if exc is not None:
                viol_meta = {"message": "panic while a snapshot is installed: %s" % exc, "tags": ["panic"], "model": {}}
                break
            r, evs, with_dt = rr
            if not (isinstance(r, Enum) and r.variant == "Ok"):
                # an environment call failed (id.parse, entry_to_record are opaque and may answer Err): an error return is the right answer
                continue
            covered += 1
            cat = [e for e in evs if e[0] == "SnapAddr" and e[1] == "InstallSnapshot"]
            if not viol_meta:
                if len(cat) != 1:
                    viol_meta = ask(pc, True, "the snapshot catalogue is not told about the installed snapshot", "catalogue-not-updated", evs)
                elif isinstance(cat[0][2], dict):
                    viol_meta = ask(pc, rseval.to_bv(cat[0][2]["end_index"]) != index, "the catalogue records an end index that differs from the snapshot's index", "catalogue-wrong-index", evs)
            if not viol_state:
                recs = [i for i, e in enumerate(evs) if e[0] == "DataWrap" and e[1] == "snapshot-record"]
                comp = [i for i, e in enumerate(evs) if e[0] == "DataWrap" and e[1] == "load-complete"]
                if len(recs) != 2:
                    viol_state = ask(pc, True, "a snapshot is installed but %d of its 2 records are delivered to the state machine: the node keeps serving its old state until it restarts" % len(recs),
                                     "installed-snapshot-not-loaded", evs)
                elif not comp or comp[0] < max(recs):
                    viol_state = ask(pc, True, "the installed snapshot's records are delivered but the load-complete notification does not follow", "installed-snapshot-no-load-complete", evs)
            if not viol_order:
                # what each collaborator persists when it gets its message: InstallSnapshot -> the index file's catalogue names the snapshot;
                # SplitOff / InstallSnapshotPointerLog -> the log loses the entries up to delete_through / its catalogue starts at the pointer.
                # Behind every prefix of the emissions the entries removed from the log must be under a catalogued snapshot.
                pos_cat = [i for i, e in enumerate(evs) if e[0] == "SnapAddr" and e[1] == "InstallSnapshot"]
                pos_log = [i for i, e in enumerate(evs) if e[0] == "LogAddr" and e[1] in ("SplitOff", "InstallSnapshotPointerLog")]
                if pos_log and (not pos_cat or pos_cat[0] > pos_log[0]):
                    k = pos_log[0]
                    viol_order = ask(pc, True, "a process death behind message %d of the installation (%s <- %s) leaves the log cut / re-based on the snapshot pointer while the "
                                               "snapshot catalogue does not name the installed snapshot yet: the entries removed from the log are neither in the log nor under a "
                                               "catalogued snapshot after the restart" % (k + 1, evs[k][0], evs[k][1]), "log-cut-before-catalogue", evs[:k + 1])
            if not viol_meta:
                sm = [e for e in evs if e[0] == "IndexAddr" and e[1] == "SaveMember"]
                if not sm:
                    viol_meta = ask(pc, True, "the membership of the installed snapshot's header is not saved", "member-not-saved", evs)
            if not viol_meta:
                so = [e for e in evs if e[0] == "LogAddr" and e[1] == "SplitOff"]
                ptr = [e for e in evs if e[0] == "LogAddr" and e[1] == "InstallSnapshotPointerLog"]
                if len(so) != 1 or len(ptr) != 1:
                    viol_meta = ask(pc, True, "the log is not split off / the snapshot pointer entry is not installed", "log-not-adjusted", evs)
                elif isinstance(so[0][2], list) and so[0][2]:
                    if with_dt:
                        viol_meta = ask(pc, rseval.to_bv(so[0][2][0]) != dthru + 1, "the log is split off at an index other than delete_through + 1", "log-not-adjusted", evs)
                    else:
                        # delete_through = None (the local log ends at or below the snapshot): async-raft's contract is "all entries of the log are to be
                        # deleted". RaftLogManager::split_off removes a file iff the split index reaches its end, and the file that takes the appends
                        # ends at u64::MAX (LogRangeWrap::get_log_range_end_index): only that index removes it. Anything smaller keeps the old file as
                        # the append target and the entry behind the snapshot is refused (finding S08-c, fixed cea1ae5).
                        viol_meta = ask(pc, rseval.to_bv(so[0][2][0]) != z3.BitVecVal((1 << 64) - 1, 64),
                                        "delete_through = None (the follower's log ends at or below the snapshot): the log is split off at an index that leaves the old log file in place - "
                                        "it stays the append target and the entry behind the snapshot is refused", "log-not-emptied", evs)
        out = []
        for name, viol, what in (("s08_1_installed_state_is_served", viol_state, "every record of the installed snapshot reaches the state machine, then load-complete"),
                                 ("s08_2_catalogue_membership_log", viol_meta, "catalogue entry, membership of the header, log split-off and snapshot pointer entry"),
                                 ("s04_6_installation_write_order", viol_order, "behind every prefix of the installation's messages the log is only cut once the catalogue names the snapshot")):
            o = dict(ob)
            o["harness"] = name
            o["bound"] = ob["bound"] + "; oracle: " + what
            o["queries"] = nq + it.queries
            o["solver_s"] = round(time.time() - t0, 1)
            o["sample"] = {"paths_explored": len(paths), "paths_reaching_the_end_of_the_installation": covered, "opaque_symbols": sorted(it.opaque_seen)[:20]}
            if viol:
                o.update({"verdict": "violation", "message": viol["message"], "tags": viol["tags"], "counterexample": viol["model"]})
            elif covered < 2:
                o.update({"verdict": "inconclusive", "message": "reachability witness never reached: installation with and without delete_through"})
            else:
                o.update({"verdict": "discharged", "distinct": nq})
            out.append(o)
        return out
    except rsparse.Unsupported as e:
        ob.update({"verdict": "inconclusive", "message": "encoder met source it cannot encode: %s" % e})
    return [ob]


def run_c04_order(tier, seed):
    """the write-order obligation of a snapshot installation (claimed under C04)"""
    obs = [o for o in run_obligations(tier, seed) if o["harness"].startswith("s04_") or o.get("verdict") == "inconclusive"]
    ob = obs[0]
    ob["harness"] = "s04_6_installation_write_order"
    return ob


def run(tier, seed):
    t0 = time.time()
    info = {"files": FILES, "solver": "z3 " + z3.get_version_string(), "cmd": "python3-vt -m lib.main C08 (rs2smt/c08.py)"}
    obligations = run_obligations(tier, seed)
    for o in obligations:
        if o["harness"].startswith("s04_"):
            # the same write-order obligation C04 claims, read for C08: a follower killed anywhere inside an installation and restarted must not
            # come back with a log that claims the snapshot's index while no catalogued snapshot (and no data) stands behind it - the leader's
            # prev-log check would match and replication would go on behind the snapshot: the node never gets the data in front of it
            o["harness"] = "s08_7_installation_interrupted"
            if o.get("verdict") == "violation":
                o["message"] += " - the restarted follower reports the snapshot's index as its last log index, the leader goes on behind it and the data in front of it never arrives"
    import os
    from .common import native_scenarios
    if not os.environ.get("VERIF_NO_NATIVE"):
        for ob in obligations:
            if ob.get("verdict") != "violation":
                continue
            if "log-not-emptied" in ob.get("tags", []):
                rr = native_scenarios("C08", "violation", ["install_beyond_leftover_log_then_append"], ob["message"], {"obligation": ob["harness"], "model": ob.get("counterexample")})
                ob["replay_path"] = rr["path"]
                ob["replay"] = {"path": rr["path"], "outcome": rr["outcome"], "message": rr["message"]}
                if rr["outcome"] != "reproduced":
                    ob.update({"verdict": "inconclusive", "message": "engine-S counterexample (%s) did not reproduce on a real node (%s %s)" % (ob["message"], rr["outcome"], rr["message"])})
                else:
                    ob["message"] = "%s [real node, through RaftStorage::{replicate_to_log, finalize_snapshot_installation}: %s]" % (ob["message"], rr["message"][:400])
            elif "installed-snapshot-not-loaded" in ob.get("tags", []) or "installed-snapshot-no-load-complete" in ob.get("tags", []):
                rr = native_scenarios("C08", "violation", ["install_then_serve"], ob["message"], {"obligation": ob["harness"], "model": ob.get("counterexample")})
                ob["replay_path"] = rr["path"]
                ob["replay"] = {"path": rr["path"], "outcome": rr["outcome"], "message": rr["message"]}
                if rr["outcome"] != "reproduced":
                    ob.update({"verdict": "inconclusive", "message": "engine-S counterexample (%s) did not reproduce on a real node (%s %s)" % (ob["message"], rr["outcome"], rr["message"])})
                else:
                    ob["message"] = "%s [real node, through RaftStorage::finalize_snapshot_installation: %s]" % (ob["message"], rr["message"][:400])
            else:
                from lib import native
                path = native.write_replay("C08", "c08", "model", [], {"engine": "smt", "mode": "model-only", "obligation": ob["harness"], "message": ob["message"], "model": ob.get("counterexample")})
                ob["replay_path"] = path
                ob["replay"] = {"path": path, "outcome": "model-only", "message": "emission sequence of the installation"}
    # the log catalogue of an installation that empties the log (delete_through = None), at the level of the log manager
    from . import c03files
    eob = c03files.run_install_none(tier, seed)
    if eob.get("verdict") == "violation" and not os.environ.get("VERIF_NO_NATIVE"):
        rr = native_scenarios("C08", "violation", ["install_beyond_leftover_log_then_append"], eob["message"], {"obligation": eob["harness"], "model": eob.get("counterexample")})
        eob["replay_path"] = rr["path"]
        eob["replay"] = {"path": rr["path"], "outcome": rr["outcome"], "message": rr["message"]}
        if rr["outcome"] != "reproduced":
            eob.update({"verdict": "inconclusive", "message": "engine-S counterexample (%s) did not reproduce on a real node (%s %s)" % (eob["message"], rr["outcome"], rr["message"])})
        else:
            eob["message"] = "%s [real node, through RaftStorage::{replicate_to_log, finalize_snapshot_installation}: %s]" % (eob["message"], rr["message"][:400])
    obligations.append(eob)
    # the byte stream of the transfer on the receiving node
    from . import c08stream
    sob = c08stream.run(tier, seed)
    if not os.environ.get("VERIF_NO_NATIVE"):
        if sob.get("verdict") == "violation":
            rr = native_scenarios("C08", "violation", ["install_after_interrupted_longer_transfer"], sob["message"], {"obligation": sob["harness"], "model": sob.get("counterexample")})
            sob["replay_path"] = rr["path"]
            if rr["outcome"] == "reproduced":
                sob["replay"] = {"path": rr["path"], "outcome": rr["outcome"], "message": rr["message"]}
                sob["message"] = "%s [real node, through RaftStorage::create_snapshot / finalize_snapshot_installation: %s]" % (sob["message"], rr["message"][:300])
            else:
                sob["replay"] = {"path": rr["path"], "outcome": "model-only", "message": "the fixed node scenario (interrupted longer transfer, then a complete one) does not show it: %s" % rr["message"][:200]}
        elif sob.get("verdict") == "discharged":
            nv = native_scenarios("C08", "validate", ["install_after_interrupted_longer_transfer", "install_beyond_leftover_log_then_append"])
            info["translator_validation_stream"] = {"outcome": nv["outcome"], "message": nv["message"], "path": nv["path"]}
            if nv["outcome"] != "passed":
                sob.update({"verdict": "inconclusive", "message": "the obligation is discharged but a real node keeps bytes of an interrupted transfer: %s" % nv["message"]})
    obligations.append(sob)
    # what the snapshot a follower installs CONTAINS: the leader's components write their records, the follower's load them - the data C08 names
    # (configuration, namespace and user data). The same obligations decide the restart form of this round trip under C01.
    from . import c01cfg, c01ns, c01table
    from lib import native
    for mod, name, what in ((c01cfg, "s08_4_config_records", "configuration data"), (c01ns, "s08_5_namespace_records", "namespace data"), (c01table, "s08_6_user_records", "user data")):
        cob = mod.run(tier, seed)
        cob.pop("_ok_paths", None)
        cob["harness"] = name
        cob["bound"] = "leader builds its snapshot records, follower loads them (%s): %s" % (what, cob.get("bound", ""))
        if cob.get("verdict") == "violation":
            cob["message"] = cob["message"].replace("after a restart from the snapshot", "on a follower that installed the leader's snapshot").replace("before the stop", "on the leader")
            if not os.environ.get("VERIF_NO_NATIVE"):
                path = native.write_replay("C08", "c08", "model", [], {"engine": "smt", "mode": "model-only", "obligation": name, "message": cob["message"], "model": cob.get("counterexample")})
                cob["replay_path"] = path
                cob["replay"] = {"path": path, "outcome": "model-only", "message": "write history on the leader before its snapshot is built"}
        obligations.append(cob)
    info["wall_s"] = round(time.time() - t0, 1)
    return {"obligations": obligations, "info": info}


if __name__ == "__main__":
    for ob in run("quick", 0)["obligations"]:
        print(ob["harness"], ob.get("verdict"), str(ob.get("message", ""))[:700], str(ob.get("counterexample"))[:600], ob.get("queries"), ob.get("solver_s"), str(ob.get("sample"))[:300])
