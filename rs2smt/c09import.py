"""C09 — the store under the two paths that by-pass an ordinary publish: the temporary value a node sets after forwarding a
publish to the leader (ConfigCmd::SetTmpValue -> set_tmp_config) and the full-value import (ConfigCmd::SetFullValue ->
inner_set_config: snapshot load, backup import).

ConfigActor::{set_config, del_config, set_tmp_config, inner_set_config} and the GET / SetTmpValue / SetFullValue arms of
Handler<ConfigCmd> (src/config/core.rs), TenantIndex / ConfigIndex (config_index.rs) evaluated from source.
Scenario: every sequence of N operations over {publish, remove, tmp value, import} on one key, contents symbolic.
Oracle after every operation: GET returns the content of the last operation that set one (nothing after a remove) with the
md5 of that content; a key that was published or imported and not removed since is listed exactly once, a removed key is not
listed, the index size counter equals the number of listed keys. (A key that so far only holds a tmp value is between a
forwarded publish and its raft apply: listed or not is accepted.)
"""
import time

import z3

from . import rseval, rsparse
from .c09 import KEYS, make_interp, new_actor, FILES, md5_model
from .common import load_program
from .rseval import Struct, Enum, NONE, Some, Uninterp


def pick(it, var, options):
    for k, o in enumerate(options[:-1]):
        if it.branch(var == k):
            return o
    return options[-1]


def run(tier, seed):
    t0 = time.time()
    n = 3 if tier == "quick" else 4
    ob = {"engine": "smt", "harness": "s09_5_tmp_value_and_import", "encodes_files": FILES, "queries": 0, "solver_s": 0.0, "distinct": 0,
          "encodes": ["ConfigActor::{set_config,del_config,set_tmp_config,inner_set_config}", "Handler<ConfigCmd>::handle (GET, SetTmpValue, SetFullValue arms)", "TenantIndex::{insert_config,remove_config}"],
          "bound": "every sequence of %d operations over {publish, remove, tmp value, full-value import} on one key; contents arbitrary strings" % n}
    try:
        prog = load_program(FILES)
        it = make_interp(prog)
        handle = prog.trait_method("ConfigActor", "handle", "ConfigCmd")
        opv = [z3.BitVec("op%d" % i, 8) for i in range(n)]
        content = [z3.String("content%d" % i) for i in range(n)]
        k = KEYS[1]
        kt = (k["tenant"], k["group"], k["data_id"])
        covers = {"import over a tmp value": 0, "publish over a tmp value": 0, "import then remove": 0}

        def possible(cond):
            cond = z3.simplify(cond)
            if z3.is_false(cond):
                return False
            if it._feasible(cond):
                it.pc.append(cond)
                return True
            return False

        def thunk():
            actor = new_actor(it)
            served = None      # content a GET must return (z3 string) or None
            stored = False     # must be listed
            tmp_only = False
            log = []
            prev = None
            for i in range(n):
                op = pick(it, opv[i], ["publish", "remove", "tmp", "import"])
                if op == "publish":
                    param = Struct("SetConfigParam", {"key": k, "value": content[i], "config_type": NONE, "desc": NONE, "history_id": i + 1, "history_table_id": NONE, "op_time": 100 + i, "op_user": NONE})
                    it.call_method("ConfigActor", "set_config", actor, [param])
                    served, stored, tmp_only = content[i], True, False
                    if prev == "tmp":
                        covers["publish over a tmp value"] += 1
                elif op == "remove":
                    it.call_method("ConfigActor", "del_config", actor, [k])
                    served, stored, tmp_only = None, False, False
                    if prev == "import":
                        covers["import then remove"] += 1
                elif op == "tmp":
                    it._invoke(handle, [actor, Enum("ConfigCmd", "SetTmpValue", [k, content[i]]), "ctx"], self_ty="ConfigActor")
                    served = content[i]
                    tmp_only = not stored
                else:
                    val = Struct("ConfigValue", {"content": content[i], "md5": md5_model(it, [content[i]]), "tmp": False,
                                                 "histories": [Struct("ConfigHistoryInfo", {"id": 50 + i, "content": content[i], "modified_time": 100 + i, "op_user": NONE})],
                                                 "config_type": NONE, "desc": NONE, "last_modified": 100 + i})
                    it._invoke(handle, [actor, Enum("ConfigCmd", "SetFullValue", [k, val]), "ctx"], self_ty="ConfigActor")
                    served, stored, tmp_only = content[i], True, False
                    if prev == "tmp":
                        covers["import over a tmp value"] += 1
                log.append(op)
                prev = op
                # ---- observe
                r = it._invoke(handle, [actor, Enum("ConfigCmd", "GET", [k]), "ctx"], self_ty="ConfigActor")
                is_data = isinstance(r, Enum) and r.variant == "Ok" and isinstance(r.payload[0], Enum) and r.payload[0].variant == "Data"
                if served is None and is_data:
                    return ("violation", "a removed key is served", log, "served-after-remove")
                if served is not None:
                    if not is_data:
                        return ("violation", "GET returns nothing after a %s" % op, log, "published-not-served")
                    d = r.payload[0].payload
                    if possible(rseval.to_str(d["value"]) != served):
                        return ("violation", "GET does not return the content of the last %s" % op, log, "stale-content")
                    if possible(rseval.to_str(d["md5"]) != z3.Concat(z3.StringVal("md5:"), rseval.to_str(d["value"]))):
                        return ("violation", "md5 served with a content is not the md5 of that content", log, "md5-mismatch")
                ti = actor["tenant_index"]
                listed = [(t, g, dd) for t, ci in ti["tenant_group"].items() for g, st in ci["group_data"].items() for dd in st]
                cnt = listed.count(kt)
                if stored and cnt != 1:
                    return ("violation", "after %s the key is stored but listed %d times" % (", ".join(log), cnt), log, "stored-not-listed")
                if not stored and not tmp_only and cnt != 0:
                    return ("violation", "after %s the key is still listed" % ", ".join(log), log, "listed-after-remove")
                if ti["size"] != len(listed):
                    return ("violation", "after %s the index size counter (%s) differs from the number of listed keys (%d)" % (", ".join(log), ti["size"], len(listed)), log, "index-size")
            return ("ok", None, log, None)
        paths = it.explore(thunk, max_paths=60000)
        s = z3.Solver()
        viol = None
        for pc, r, exc in paths:
            if exc is not None:
                viol = {"message": "panic in the config store: %s" % exc, "tags": ["panic"], "model": {}}
                break
            if r[0] == "violation":
                s.push()
                s.add(*pc)
                if s.check() == z3.sat:
                    m = s.model()
                    viol = {"message": r[1], "tags": [r[3]], "model": {"history": r[2], "contents": [m.eval(c, model_completion=True).as_string() for c in content]}}
                s.pop()
                if viol:
                    break
        ob["queries"] = it.queries
        ob["solver_s"] = round(time.time() - t0, 1)
        ob["sample"] = {"paths_explored": len(paths), "covers": covers, "opaque_symbols": sorted(it.opaque_seen)[:12]}
        missing = [c for c, v in covers.items() if v == 0]
        if viol:
            ob.update({"verdict": "violation", "message": viol["message"], "tags": viol["tags"], "counterexample": viol["model"]})
        elif missing:
            ob.update({"verdict": "inconclusive", "message": "reachability witness never reached: %s" % missing})
        else:
            ob.update({"verdict": "discharged", "distinct": len(paths)})
    except rsparse.Unsupported as e:
        ob.update({"verdict": "inconclusive", "message": "encoder met source it cannot encode: %s" % e})
    return ob


if __name__ == "__main__":
    ob = run("quick", 0)
    print(ob["harness"], ob.get("verdict"), str(ob.get("message", ""))[:700], str(ob.get("counterexample"))[:400], ob.get("queries"), ob.get("solver_s"), str(ob.get("sample"))[:400])
