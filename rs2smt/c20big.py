"""C20 at the literal 1024-byte scale — records shorter than, longer than and spanning several read chunks.

SnapshotWriter::{init, write_record, flush} and SnapshotReader::{init, read_record} (raftsnapshot.rs) with the generated
message code, MessageBufReader::{new, append_next_buf, next_message_vec, is_empty}, move_data_to_start, copy_data,
capacity_expansion and the varint trio evaluated from source over the file model: the reader's chunk size (1024) and buffer
size (1024, doubling) are the source's own. A snapshot of 3 records whose value lengths come from a symbolic choice among
{3, 100, 600, 1100, 2100} is written and read back; a quarter of the value bytes are symbolic, the others concrete and
position-dependent (so that a misplaced byte is visible).
Oracle: the reader returns exactly the written records, in order, same keys and values, then the end.
Covers: a short record followed by a record longer than half a chunk (the unread remainder is longer than the consumed
prefix at a buffer compaction), a record longer than two chunks (buffer growth), a record ending on a chunk boundary region.
"""
import time

import z3

from . import rseval, rsparse
from .c05 import make
from .c01 import header
from .c11 import pick
from .common import load_program
from .rseval import Struct, Enum, NONE, Some, Ok, Uninterp

FILES = ["src/raft/filestore/raftsnapshot.rs", "src/raft/filestore/log.rs", "src/raft/filestore/model.rs", "src/common/protobuf_utils.rs"]
LENS = [3, 100, 600, 1100, 2100]


class Desync(Exception):
    pass


def run(tier, seed):
    t0 = time.time()
    nrec = 3
    lens = LENS if tier != "quick" else [3, 100, 600, 2100]
    ob = {"engine": "smt", "harness": "s20_6_snapshot_reader_real_scale", "encodes_files": FILES, "queries": 0, "solver_s": 0.0, "distinct": 0,
          "encodes": ["SnapshotWriter::{init,write_record,flush}", "SnapshotReader::{init,read_record}", "MessageBufReader::{new,append_next_buf,next_message_vec,is_empty,capacity_expansion}",
                      "move_data_to_start", "copy_data", "read_varint64", "LogSnapshotItem::{get_size,write_message,from_reader} (generated code)"],
          "bound": "snapshots of %d records, value lengths from %s (every combination), every 4th value byte symbolic; the reader's own chunk (1024) and buffer (1024, doubling) sizes" % (nrec, lens)}
    try:
        prog = load_program(FILES)
        it, fs = make(prog)
        it.max_loop = 1 << 16
        choice = [z3.BitVec("len_choice%d" % i, 8) for i in range(nrec)]
        symb = {}

        def value(i, n):
            out = []
            for j in range(n):
                if j % 4 == 1:
                    b = symb.setdefault((i, j), z3.BitVec("v%d_%d" % (i, j), 64))
                    out.append(b)
                else:
                    out.append((i * 37 + j * 11 + 5) % 251 + 1)
            return out
        # a correct decoder never decides anything on a value byte (lengths and tags were written from concrete numbers): a branch on one means the reader is out of step.
        # Reported as a decoding failure instead of being explored (a desynchronised reader forks on every byte).
        from z3 import z3util
        orig_branch = it.branch

        def guarded_branch(cond):
            if isinstance(cond, z3.ExprRef) and any(str(v).startswith("v") and "_" in str(v) for v in z3util.get_vars(cond)):
                raise Desync()
            return orig_branch(cond)
        it.branch = guarded_branch
        w_init = prog.methods[("SnapshotWriter", "init")]
        r_init = prog.methods[("SnapshotReader", "init")]

        def thunk():
            fs.files.clear()
            ls = [pick(it, choice[i], lens) for i in range(nrec)]
            w = it._invoke(w_init, ["snap", header(7, 3)], self_ty="SnapshotWriter").payload[0]
            written = []
            for i, n in enumerate(ls):
                rec = Struct("SnapshotRecordDto", {"tree": "t", "key": [i + 1], "value": value(i, n), "op_type": 0})
                written.append(rec)
                it.call_method("SnapshotWriter", "write_record", w, [rec])
            it.call_method("SnapshotWriter", "flush", w, [])
            r = it._invoke(r_init, ["snap"], self_ty="SnapshotReader")
            if not (isinstance(r, Enum) and r.variant == "Ok"):
                return ("reader-init-failed", ls, written, [])
            r = r.payload[0]
            got = []
            for _ in range(nrec + 2):
                try:
                    x = it.call_method("SnapshotReader", "read_record", r, [])
                except Desync:
                    got.append("ERR")
                    break
                except rsparse.Unsupported as e:
                    if "feasible values" not in str(e):
                        raise
                    # every length prefix of the file was written from a concrete length: a length that depends on symbolic value bytes means the reader is out of step
                    got.append("ERR")
                    break
                if not (isinstance(x, Enum) and x.variant == "Ok"):
                    got.append("ERR")
                    break
                x = x.payload[0]
                if x.variant == "None":
                    break
                got.append(x.payload[0])
            return ("ok", ls, written, got)
        rng = []
        it.solver.push()
        paths = it.explore(thunk, max_paths=5000)
        it.solver.pop()
        s = z3.Solver()
        for b in symb.values():
            s.add(z3.ULT(b, 256))
        nq = 0
        viol = None
        covers = {"a short record followed by a record longer than half a chunk": 0, "a record longer than two chunks": 0, "three records in one chunk": 0}
        for pc, rr, exc in paths:
            if exc is not None:
                viol = {"message": "panic while a snapshot with large records is written / read: %s" % exc, "tags": ["panic"], "model": {}}
                break
            kind, ls, written, got = rr
            if any(a <= 100 and b >= 600 for a, b in zip(ls, ls[1:])):
                covers["a short record followed by a record longer than half a chunk"] += 1
            if any(a >= 2100 for a in ls):
                covers["a record longer than two chunks"] += 1
            if sum(ls) < 400:
                covers["three records in one chunk"] += 1
            msg = None
            if kind != "ok":
                msg = "the snapshot file cannot be opened for reading"
            elif "ERR" in got:
                msg = "reading fails (error, or a length prefix made of value bytes) after %d of %d records" % (got.index("ERR"), len(written))
            elif len(got) != len(written):
                msg = "%d records are read back, %d were written" % (len(got), len(written))
            if msg:
                viol = {"message": "value lengths %s: %s" % (ls, msg), "tags": ["records-lost-or-added"], "model": {"value_lengths": ls}}
                break
            for i, (a, b) in enumerate(zip(written, got)):
                if len(b["value"]) != len(a["value"]) or len(b["key"]) != len(a["key"]):
                    viol = {"message": "value lengths %s: record %d is read back with a value of %d bytes" % (ls, i, len(b["value"])), "tags": ["record-changed"], "model": {"value_lengths": ls}}
                    break
                diffs = []
                for j, (x, y) in enumerate(zip(a["value"] + a["key"], b["value"] + b["key"])):
                    if isinstance(x, int) and isinstance(y, int):
                        if x != y:
                            diffs.append((j, True))
                    elif x is not y:
                        diffs.append((j, rseval.to_bv(x) != rseval.to_bv(y)))
                if diffs:
                    s.push()
                    s.add(*pc)
                    s.add(z3.Or(*[z3.BoolVal(True) if c is True else c for _j, c in diffs]))
                    nq += 1
                    if s.check() == z3.sat:
                        viol = {"message": "value lengths %s: record %d is read back with other bytes than were written (first at offset %d of its value)" % (ls, i, diffs[0][0]),
                                "tags": ["record-changed"], "model": {"value_lengths": ls, "record": i, "first_offset": diffs[0][0]}}
                    s.pop()
                else:
                    nq += 1
                if viol:
                    break
            if viol:
                break
        ob["queries"] = nq + it.queries
        ob["solver_s"] = round(time.time() - t0, 1)
        ob["sample"] = {"paths_explored": len(paths), "covers": covers, "opaque_symbols": sorted(it.opaque_seen)[:20]}
        missing = [c for c, k in covers.items() if k == 0]
        if viol:
            ob.update({"verdict": "violation", "message": viol["message"], "tags": viol["tags"], "counterexample": viol["model"]})
        elif missing:
            ob.update({"verdict": "inconclusive", "message": "reachability witness never reached: %s" % missing})
        else:
            ob.update({"verdict": "discharged", "distinct": nq})
    except rsparse.Unsupported as e:
        ob.update({"verdict": "inconclusive", "message": "encoder met source it cannot encode: %s" % e})
    return ob


if __name__ == "__main__":
    import sys
    ob = run(sys.argv[1] if len(sys.argv) > 1 else "quick", 0)
    print(ob["harness"], ob.get("verdict"), str(ob.get("message", ""))[:900], str(ob.get("counterexample"))[:900], ob.get("queries"), ob.get("solver_s"), str(ob.get("sample"))[:800])
