"""C10 — config change notification is complete: no listener waits on a stale md5.

Symbolic evaluation of the real source of the LISTENER / Subscribe / RemoveSubscribe /
RemoveSubscribeClient arms of Handler<ConfigCmd> for ConfigActor, ConfigListener::{add, notify, timeout},
Subscriber::{add_subscribe, remove_subscribe, remove_client_subscribe, remove_config_key, notify},
ConfigActor::{set_config, del_config} (src/config/core.rs, src/config/config_subscribe.rs).

Scenario: every interleaving of <= N actor messages drawn from
  L(i): long-poll listener i (i = 1, 2) registers for key k1 or {k1,k2} holding an md5 that is symbolic
        (equal to the current one, stale, or empty) with a symbolic timeout
  P(k): publish to key k with symbolic content        R(k): remove key k
  T:    the 500 ms tick (listener.timeout()) at a symbolic clock value
  S/U/D: gRPC client c subscribes to k / unsubscribes / disconnects
oneshot senders and the connection manager are recording sinks; the md5 model is 'md5:' ++ content.
"""
import time

import z3

from . import rseval, rsparse
from .c09 import KEYS, md5_model, key, FILES as C09_FILES
from .common import load_program, concretize, native_histories
from .rseval import Struct, Enum, NONE, Some, Uninterp, Ok

FILES = C09_FILES + ["src/config/config_subscribe.rs"]


class Sender:
    """tokio oneshot sender of a long poll"""

    def __init__(self, name):
        self.ty = "OneshotSender"
        self.name = name
        self.sent = []


class ConnManage:
    def __init__(self):
        self.ty = "ConnManage"
        self.sent = []


def make_interp(prog, clock):
    it = rseval.Interp(prog)
    it.lenient = True
    it.fn_models["get_md5"] = md5_model
    it.fn_models["now_millis_i64"] = lambda interp, args: 0

    def send(interp, recv, args):
        recv.sent.append((args[0], list(interp.pc)))
        return Ok(())
    it.models[("OneshotSender", "send")] = send
    it.models[("ConnManage", "do_send")] = lambda interp, recv, args: recv.sent.append(args[0]) or ()
    it.fn_models["Local::now"] = lambda interp, args: Struct("DateTime", {})
    it.models[("DateTime", "timestamp_millis")] = lambda interp, recv, args: clock["now"]
    return it


def new_actor(it, conn):
    return Struct("ConfigActor", {
        "cache": {}, "listener": it._invoke(it.prog.methods[("ConfigListener", "new")], [], self_ty="ConfigListener"),
        "subscriber": Struct("Subscriber", {"listener": {}, "client_keys": {}, "conn_manage": Some(conn)}),
        "tenant_index": it.default_of_type("TenantIndex"), "raft": NONE, "namespace_actor": NONE,
        "sequence": it._invoke(it.prog.methods[("SimpleSequence", "new")], [0, 100], self_ty="SimpleSequence"),
    })


def cur_md5(actor, k):
    v = actor["cache"].get(k)
    return v["md5"] if v is not None else None


def listener_scenario_core(prog, nsteps, stats):
    return listener_scenario(prog, nsteps, stats, allowed=(0, 1, 2, 3, 5))


def listener_scenario(prog, nsteps, stats, allowed=(0, 1, 2, 3, 4, 5, 6)):
    """long-poll completeness. Steps are chosen symbolically; returns violation or None"""
    clock = {"now": 0}
    it = make_interp(prog, clock)
    handle = prog.trait_method("ConfigActor", "handle", "ConfigCmd")
    step = [z3.BitVec("step%d" % i, 8) for i in range(nsteps)]
    content = [z3.String("content%d" % i) for i in range(nsteps)]
    held = [z3.String("held_md5_%d" % i) for i in range(nsteps)]
    timeout = [z3.BitVec("timeout%d" % i, 64) for i in range(nsteps)]
    now = [z3.BitVec("now%d" % i, 64) for i in range(nsteps)]
    found = {}
    covers = stats.setdefault("covers", {"listener registered": 0, "registered listener answered by a change": 0, "tick after a deadline": 0, "tmp value set": 0,
                                         "listener waits across a tmp value": 0})

    ops_box = [[], True]

    def kk(k):
        return [k["data_id"], k["group"], k["tenant"]]

    def thunk():
        r = thunk_inner()
        return r + (list(ops_box[0]), ops_box[1])

    def thunk_inner():
        conn = ConnManage()
        actor = new_actor(it, conn)
        clock["last"] = 0
        clock["now"] = 0
        # listeners registered so far: dict name -> {sender, keys, deadline, registered(bool), answered_at}
        ls = {}
        log = []
        rec = ops_box[0] = []
        ops_box[1] = True  # replayable natively (no timer tick: the native clock cannot be set)
        for i in range(nsteps):
            # 0: L1 on k1   1: L2 on {k1,k2}   2: publish k1   3: publish k2   4: remove k1   5: tick
            # 6: SetTmpValue k1 (what a node that forwarded a publish to the leader does before the raft apply arrives)
            op = None
            for cand in allowed:
                if it.branch(step[i] == cand):
                    op = cand
                    break
            if op is None:
                raise rseval.PathAbort()
            if op in (0, 1):
                name = "L%d" % (op + 1)
                if name in ls:
                    raise rseval.PathAbort()
                keys = [KEYS[0]] if op == 0 else [KEYS[0], KEYS[1]]
                snd = Sender(name)
                items = [Struct("ListenerItem", {"key": k, "md5": held[i]}) for k in keys]
                # expected immediate changes, by the property's wording: held md5 differs from the current one
                expect_changed = []
                for k in keys:
                    cm = cur_md5(actor, k)
                    if cm is None:
                        differs = it.lnot(it.eq(held[i], ""))
                    else:
                        differs = it.lnot(it.eq(held[i], cm))
                    d = differs if isinstance(differs, bool) else it.branch(differs)
                    if d:
                        expect_changed.append(k)
                # deadline (absolute ms) drawn from {0 (= answer now), 100, 200}: the time-ordered map needs concrete keys
                tval = 0
                for cand in (100, 200):
                    if it.branch(timeout[i] == cand):
                        tval = cand
                        break
                tneg = tval == 0
                rec.append({"op": "listen", "name": name, "keys": [kk(k) for k in keys], "held": [held[i] for _k in keys], "immediate": tneg})
                it._invoke(handle, [actor, Enum("ConfigCmd", "LISTENER", [items, snd, tval]), "ctx"], self_ty="ConfigActor")
                answered_now = len(snd.sent) > 0
                log.append(("listen", name, [k["data_id"] for k in keys], "changed=%s" % [k["data_id"] for k in expect_changed], "immediate" if answered_now else "registered"))
                if expect_changed or tneg:
                    if not answered_now:
                        return ("violation", "a listener holding a stale md5 (or with time-out <= 0) is registered instead of being answered at once", log, "stale-listener-not-answered")
                    got = snd.sent[0][0]
                    if not (isinstance(got, Enum) and got.variant == "DATA" and sorted(k["data_id"] for k in got.payload[0]) == sorted(k["data_id"] for k in expect_changed)):
                        return ("violation", "immediate answer does not list exactly the keys whose md5 differs", log, "immediate-answer-wrong-keys")
                else:
                    if answered_now:
                        # answered although nothing differs and the time-out is positive: allowed only as an (empty) no-change answer? the source registers
                        return ("violation", "a listener with up-to-date md5s and a positive time-out is answered at once", log, "fresh-listener-answered")
                ls[name] = {"sender": snd, "keys": keys, "deadline": tval, "registered": not answered_now, "n_at_reg": len(snd.sent), "held": held[i]}
                if not answered_now:
                    covers["listener registered"] += 1
            elif op in (2, 3):
                k = KEYS[0] if op == 2 else KEYS[1]
                before = cur_md5(actor, k)
                param = Struct("SetConfigParam", {"key": k, "value": content[i], "config_type": NONE, "desc": NONE, "history_id": i + 1,
                                                  "history_table_id": NONE, "op_time": 100 + i, "op_user": NONE})
                rec.append({"op": "publish", "key": kk(k), "content": content[i], "type": None, "desc": None, "history_id": i + 1, "history_table_id": None, "op_time": 100 + i})
                it.call_method("ConfigActor", "set_config", actor, [param])
                after = cur_md5(actor, k)
                changed = True if before is None else it.lnot(it.eq(before, after))
                changed = changed if isinstance(changed, bool) else it.branch(changed)
                log.append(("publish", k["data_id"], "changed" if changed else "same"))
                if changed:
                    r = must_be_answered(ls, k, log, "publish")
                    if r:
                        return r
            elif op == 4:
                k = KEYS[0]
                existed = cur_md5(actor, k) is not None
                rec.append({"op": "remove", "key": kk(k)})
                it.call_method("ConfigActor", "del_config", actor, [k])
                log.append(("remove", k["data_id"], "existed" if existed else "absent"))
                if existed:
                    r = must_be_answered(ls, k, log, "remove")
                    if r:
                        return r
            elif op == 6:
                k = KEYS[0]
                rec.append({"op": "tmp", "key": kk(k), "content": content[i]})
                it._invoke(handle, [actor, Enum("ConfigCmd", "SetTmpValue", [k, content[i]]), "ctx"], self_ty="ConfigActor")
                log.append(("set-tmp-value", k["data_id"]))
                covers["tmp value set"] = covers.get("tmp value set", 0) + 1
            else:
                nowv = 50
                for cand in (150, 250):
                    if it.branch(now[i] == cand):
                        nowv = cand
                        break
                if nowv < clock.get("last", 0):
                    raise rseval.PathAbort()  # the clock does not go backwards
                clock["last"] = nowv
                clock["now"] = nowv
                ops_box[1] = False
                before_tick = {n_: len(l_["sender"].sent) for n_, l_ in ls.items()}
                it.call_method("ConfigListener", "timeout", actor["listener"], [])
                log.append(("tick", nowv))
                for name, l in ls.items():
                    if l["registered"]:
                        if l["deadline"] < nowv and not l["sender"].sent:
                            return ("violation", "a pending long poll is not answered by the tick that follows its deadline", log, "timeout-not-answered")
                        if l["deadline"] < nowv and isinstance(l["sender"].sent[0][0], Enum) and l["sender"].sent[0][0].variant == "NULL":
                            covers["tick after a deadline"] += 1
                        if l["deadline"] >= nowv and len(l["sender"].sent) > before_tick[name]:
                            return ("violation", "a long poll is timed out before its deadline", log, "timeout-too-early")
            for name, l in ls.items():
                if len(l["sender"].sent) > 1:
                    return ("violation", "a listener is answered twice", log, "answered-twice")
            # state form of the property: no registered, unanswered listener holds an md5 that differs from the stored one
            # (a key whose value is a tmp value is between a forwarded publish and its raft apply: the apply owes the notification)
            for name, l in ls.items():
                if not l["registered"] or l["sender"].sent:
                    continue
                for k in l["keys"]:
                    v = actor["cache"].get(k)
                    if v is not None and v["tmp"] is True:
                        covers["listener waits across a tmp value"] = covers.get("listener waits across a tmp value", 0) + 1
                        continue
                    cm = v["md5"] if v is not None else ""
                    stale = it.lnot(it.eq(l["held"], cm))
                    if stale is True or (not isinstance(stale, bool) and possible(it, stale)):
                        return ("violation", "listener %s keeps waiting although the md5 it holds for %s differs from the stored one" % (name, k["data_id"]), log, "listener-waits-on-stale-md5")
        return ("ok", None, log, None)
    it.solver.push()
    for i in range(nsteps):
        it.solver.add(z3.ULT(timeout[i], z3.BitVecVal(1 << 62, 64)) if False else z3.BoolVal(True))
    paths = it.explore(thunk, max_paths=200000)
    it.solver.pop()
    stats["paths"] += len(paths)
    stats["queries"] += it.queries
    stats["opaque"] = sorted(it.opaque_seen)
    s = z3.Solver()
    ok_paths = []
    for pc, r, exc in paths:
        if exc is not None:
            return {"message": "panic in listener code: %s" % exc, "tags": ["panic"], "model": {}}
        if r[0] == "violation":
            s.push()
            s.add(*pc)
            if s.check() == z3.sat:
                m = s.model()
                s.pop()
                return {"message": r[1], "tags": [r[3]], "model": {"history": [list(map(str, e)) for e in r[2]],
                        "held_md5": [m.eval(h, model_completion=True).as_string() for h in held],
                        "contents": [m.eval(c, model_completion=True).as_string() for c in content]},
                        "ops": concretize(r[4], m) if r[5] else None}
            s.pop()
        elif r[5] and r[4]:
            ok_paths.append((pc, r[4]))
    import random
    rnd = random.Random(stats.get("seed", 0))
    hist = []
    for pc, ops in rnd.sample(ok_paths, min(stats.get("n_validate", 10), len(ok_paths))):
        s.push()
        s.add(*pc)
        if s.check() == z3.sat:
            hist.append({"ops": concretize(ops, s.model())})
        s.pop()
    stats["validate"] = hist
    return None


COVER = {}


def possible(it, cond):
    cond = z3.simplify(cond)
    if z3.is_false(cond):
        return False
    if it._feasible(cond):
        it.pc.append(cond)
        return True
    return False


def is_notify(m, k, clients):
    """BiStreamManageCmd::NotifyConfig(key, clients) — the enum lives in src/grpc (not loaded): the constructor call is an opaque term"""
    if isinstance(m, Enum) and m.variant == "NotifyConfig":
        a = m.payload
    elif isinstance(m, Uninterp) and m.name.endswith("NotifyConfig"):
        a = m.args
    else:
        return False
    return len(a) == 2 and a[0] == k and sorted(a[1]) == sorted(clients)


def must_be_answered(ls, k, log, what):
    for name, l in ls.items():
        if l["registered"] and k in l["keys"]:
            sent = l["sender"].sent
            if not sent:
                return ("violation", "a %s of a key does not answer a registered listener of that key" % what, log, "change-not-reported")
            got = sent[0][0]
            if isinstance(got, Enum) and got.variant == "DATA":
                COVER["registered listener answered by a change"] = COVER.get("registered listener answered by a change", 0) + 1
            # an earlier answer (NULL by time-out, or DATA for another of its keys) is fine: the long poll has returned and the
            # client re-registers with its md5s
    return None


def subscriber_scenario(prog, nsteps, stats):
    """gRPC subscriptions: the two maps stay mirrored; a change reaches the connection manager for exactly the subscribers of the key"""
    clock = {"now": 0}
    it = make_interp(prog, clock)
    handle = prog.trait_method("ConfigActor", "handle", "ConfigCmd")
    step = [z3.BitVec("sstep%d" % i, 8) for i in range(nsteps)]
    content = [z3.String("scontent%d" % i) for i in range(nsteps)]
    clients = ["c1", "c2"]

    def thunk():
        conn = ConnManage()
        actor = new_actor(it, conn)
        sub = actor["subscriber"]
        ref = {KEYS[0]: set(), KEYS[1]: set()}  # reference: key -> subscribed clients
        log = []
        for i in range(nsteps):
            op = None
            for cand in range(8):
                if it.branch(step[i] == cand):
                    op = cand
                    break
            if op is None:
                raise rseval.PathAbort()
            # 0/1: c1 subscribes k1 / {k1,k2}; 2: c2 subscribes k1; 3: c1 unsubscribes k1; 4: c1 disconnects; 5: publish k1; 6: remove k1; 7: publish k2
            if op in (0, 1, 2):
                c = "c2" if op == 2 else "c1"
                ks = [KEYS[0], KEYS[1]] if op == 1 else [KEYS[0]]
                items = [Struct("ListenerItem", {"key": k, "md5": ""}) for k in ks]
                it._invoke(handle, [actor, Enum("ConfigCmd", "Subscribe", [items, c]), "ctx"], self_ty="ConfigActor")
                for k in ks:
                    ref[k].add(c)
                log.append(("subscribe", c, [k["data_id"] for k in ks]))
            elif op == 3:
                items = [Struct("ListenerItem", {"key": KEYS[0], "md5": ""})]
                it._invoke(handle, [actor, Enum("ConfigCmd", "RemoveSubscribe", [items, "c1"]), "ctx"], self_ty="ConfigActor")
                ref[KEYS[0]].discard("c1")
                log.append(("unsubscribe", "c1", "d1"))
            elif op == 4:
                it._invoke(handle, [actor, Enum("ConfigCmd", "RemoveSubscribeClient", ["c1"]), "ctx"], self_ty="ConfigActor")
                for k in ref:
                    ref[k].discard("c1")
                log.append(("disconnect", "c1"))
            elif op in (5, 7):
                k = KEYS[0] if op == 5 else KEYS[1]
                before = cur_md5(actor, k)
                n0 = len(conn.sent)
                param = Struct("SetConfigParam", {"key": k, "value": content[i], "config_type": NONE, "desc": NONE, "history_id": i + 1,
                                                  "history_table_id": NONE, "op_time": 100 + i, "op_user": NONE})
                it.call_method("ConfigActor", "set_config", actor, [param])
                after = cur_md5(actor, k)
                changed = True if before is None else it.lnot(it.eq(before, after))
                changed = changed if isinstance(changed, bool) else it.branch(changed)
                log.append(("publish", k["data_id"], "changed" if changed else "same"))
                if changed and ref[k]:
                    new = conn.sent[n0:]
                    ok = any(is_notify(m, k, ref[k]) for m in new)
                    if not ok:
                        return ("violation", "a content change does not notify exactly the subscribed clients of the key", log, "subscribers-not-notified")
            else:
                k = KEYS[0]
                existed = cur_md5(actor, k) is not None
                n0 = len(conn.sent)
                it.call_method("ConfigActor", "del_config", actor, [k])
                log.append(("remove", "d1"))
                if existed and ref[k]:
                    new = conn.sent[n0:]
                    ok = any(is_notify(m, k, ref[k]) for m in new)
                    if not ok:
                        return ("violation", "a remove does not notify the subscribed clients of the key", log, "subscribers-not-notified-on-remove")
                ref[k] = set()  # remove_config_key drops the subscriptions of a removed key
            # mirror invariant after every step
            lis, cks = sub["listener"], sub["client_keys"]
            for k, cs in lis.items():
                if not cs:
                    return ("violation", "an empty subscriber set is left in the key map", log, "empty-set-left")
                for c in cs:
                    if c not in cks or k not in cks[c]:
                        return ("violation", "subscriber maps not mirrored: key map has (key, client) that the client map lacks", log, "maps-not-mirrored")
            for c, ks in cks.items():
                if not ks:
                    return ("violation", "an empty key set is left in the client map", log, "empty-set-left")
                for k in ks:
                    if k not in lis or c not in lis[k]:
                        return ("violation", "subscriber maps not mirrored: client map has (client, key) that the key map lacks", log, "maps-not-mirrored")
            for k in ref:
                have = sorted(lis.get(k, []))
                if have != sorted(ref[k]):
                    return ("violation", "subscribers recorded for a key differ from the subscribe/unsubscribe history", log, "subscription-lost-or-invented")
        return ("ok", None, log, None)
    paths = it.explore(thunk, max_paths=400000)
    stats["paths"] += len(paths)
    stats["queries"] += it.queries
    s = z3.Solver()
    for pc, r, exc in paths:
        if exc is not None:
            return {"message": "panic in subscriber code: %s" % exc, "tags": ["panic"], "model": {}}
        if r[0] == "violation":
            s.push()
            s.add(*pc)
            if s.check() == z3.sat:
                s.pop()
                return {"message": r[1], "tags": [r[3]], "model": {"history": [list(map(str, e)) for e in r[2]]}}
            s.pop()
    return None


def run(tier, seed):
    t0 = time.time()
    info = {"files": FILES, "solver": "z3 " + z3.get_version_string(), "cmd": "python3-vt -m lib.main C10 (rs2smt/c10.py)"}
    obligations = []
    try:
        prog = load_program(FILES)
    except rsparse.Unsupported as e:
        return {"obligations": [{"engine": "smt", "harness": "s10_parse", "verdict": "inconclusive", "message": str(e)}], "info": info}
    for name, fn, n, enc, bound in (
            ("s10_1_long_poll", listener_scenario, 3 if tier == "quick" else 4,
             ["Handler<ConfigCmd>::handle (LISTENER arm)", "ConfigListener::{add,notify,timeout}", "ConfigActor::{set_config,del_config}"],
             "every sequence of %d messages over {listen L1(k1), listen L2(k1,k2), publish k1, publish k2, remove k1, tick, SetTmpValue k1}; held md5, contents, time-outs and clock symbolic"),
            ("s10_3_long_poll_core", listener_scenario_core, 4 if tier == "quick" else 5,
             ["Handler<ConfigCmd>::handle (LISTENER arm)", "ConfigListener::{add,notify,timeout}", "ConfigActor::{set_config,del_config}"],
             "every sequence of %d messages over {listen L1(k1), listen L2(k1,k2), publish k1, publish k2, tick} (one step deeper than s10_1, without remove / tmp value: a listener "
             "answered through one key or by its time-out leaves its id in the other key's list); held md5, contents, time-outs and clock symbolic"),
            ("s10_2_subscribers", subscriber_scenario, 3 if tier == "quick" else 4,
             ["Handler<ConfigCmd>::handle (Subscribe / RemoveSubscribe / RemoveSubscribeClient arms)", "Subscriber::{add_subscribe,remove_subscribe,remove_client_subscribe,remove_config_key,notify}",
              "ConfigActor::{set_config,del_config}"],
             "every sequence of %d messages over {c1 sub k1, c1 sub k1+k2, c2 sub k1, c1 unsub k1, c1 disconnect, publish k1, remove k1, publish k2}; contents symbolic")):
        stats = {"paths": 0, "queries": 0, "seed": seed, "n_validate": 10 if tier == "quick" else 40}
        ob = {"engine": "smt", "harness": name, "encodes": enc, "encodes_files": FILES, "bound": bound % n, "queries": 0, "solver_s": 0.0, "distinct": 0}
        try:
            ts = time.time()
            viol = fn(prog, n, stats)
            ob["solver_s"] = round(time.time() - ts, 1)
            ob["queries"] = stats["queries"]
            ob["sample"] = {"paths_explored": stats["paths"], "opaque_symbols": stats.get("opaque", [])[:20]}
            cov = dict(stats.get("covers", {}))
            if "registered listener answered by a change" in cov:
                cov["registered listener answered by a change"] = COVER.get("registered listener answered by a change", 0)
            ob["sample"]["covers"] = cov
            skip = ("tmp value set", "listener waits across a tmp value") if name == "s10_3_long_poll_core" else ()
            missing = [c for c, n_ in cov.items() if n_ == 0 and c not in skip]
            if viol is None:
                if missing:
                    ob.update({"verdict": "inconclusive", "message": "reachability witness never reached: %s (vacuous scenario)" % missing})
                elif stats["paths"] < 20:
                    ob.update({"verdict": "inconclusive", "message": "only %d paths explored (vacuous?)" % stats["paths"]})
                else:
                    ob.update({"verdict": "discharged", "distinct": stats["paths"]})
            else:
                ob.update({"verdict": "violation", "message": viol["message"], "tags": viol["tags"], "counterexample": viol["model"], "_ops": viol.get("ops")})
            ob["_validate"] = stats.get("validate", [])
        except rsparse.Unsupported as e:
            ob.update({"verdict": "inconclusive", "message": "encoder met source it cannot encode: %s" % e})
        obligations.append(ob)
    from lib import native
    import os
    native_ok = not os.environ.get("VERIF_NO_NATIVE")
    hist = [h for ob in obligations for h in ob.pop("_validate", [])]
    if hist and native_ok:
        val = native_histories("C10", "config", "validate", hist)
        info["translator_validation"] = val
        if val["outcome"] != "passed":
            obligations.append({"engine": "smt", "harness": "s10_translator_validation", "verdict": "inconclusive", "queries": 0, "solver_s": 0,
                                "message": "the real ConfigActor and the encoding disagree on a sampled history: %s" % val["message"]})
    for ob in obligations:
        ops = ob.pop("_ops", None)
        if ob.get("verdict") == "violation" and ops and native_ok:
            rr = native_histories("C10", "config", "violation", [{"ops": ops}], {"obligation": ob["harness"], "model": ob.get("counterexample")}, ob["message"])
            ob["replay_path"] = rr["path"]
            ob["replay"] = {"path": rr["path"], "outcome": rr["outcome"], "message": rr["message"]}
            if rr["outcome"] != "reproduced":
                ob.update({"verdict": "inconclusive", "message": "engine-S counterexample (%s) did not reproduce on the real ConfigActor (%s %s)" % (ob["message"], rr["outcome"], rr["message"])})
            else:
                ob["message"] = "%s [real ConfigActor: %s]" % (ob["message"], rr["message"][:300])
            continue
        if ob.get("verdict") == "violation":
            path = native.write_replay("C10", "c10", "model", [], {"engine": "smt", "mode": "model-only", "obligation": ob["harness"], "message": ob["message"],
                                                                   "model": ob.get("counterexample")})
            ob["replay_path"] = path
            ob["replay"] = {"path": path, "outcome": "model-only", "message": "message history for ConfigActor; replayable in a unit test"}
    info["wall_s"] = round(time.time() - t0, 1)
    return {"obligations": obligations, "info": info}


if __name__ == "__main__":
    import sys
    r = run(sys.argv[1] if len(sys.argv) > 1 else "quick", 0)
    for ob in r["obligations"]:
        print(ob["harness"], ob.get("verdict"), str(ob.get("message", ""))[:400], str(ob.get("counterexample"))[:600], ob.get("queries"), ob.get("solver_s"), str(ob.get("sample"))[:300])
    print(r["info"])
