"""C04 — crash points of the raft index file (hard state, catalogue, last-applied header share one in-place rewritten file).

RaftIndexInnerManager::{init, write_index, write_last_applied_log, flush} (src/raft/filestore/raftindex.rs), the DTO conversions
and the generated message code evaluated from source over the file model with a journal of mutations (rs2smt/iomodel.py).
History: creation of the file, a hard-state save (term, vote symbolic), a last-applied write, a second hard-state save whose
record is shorter or longer than the first (a log range is added or dropped). A crash behind every prefix of the journal (crash
model of the property: process death, the OS survives, every write call atomic and in program order), then reopen.

Oracle: the file reopens; the hard state it reports is the one of the last save acknowledged before the crash point or of the
save in flight - never a third value; the same for the last-applied index.
"""
import time

import z3

from . import rseval, rsparse, iomodel
from .c05 import make, empty_dto
from .common import load_program
from .rseval import Struct, Enum, NONE, Some, Ok, Uninterp

FILES = ["src/raft/filestore/raftindex.rs", "src/raft/filestore/log.rs", "src/raft/filestore/model.rs", "src/common/protobuf_utils.rs"]


def pick(it, var, options):
    for k, o in enumerate(options[:-1]):
        if it.branch(var == k):
            return o
    return options[-1]


def run(tier, seed):
    t0 = time.time()
    ob = {"engine": "smt", "harness": "s04_3_index_file_crash_points", "encodes_files": FILES, "queries": 0, "solver_s": 0.0, "distinct": 0,
          "encodes": ["RaftIndexInnerManager::{init,write_index,write_last_applied_log,flush}", "RaftIndexDto::to_record_do", "From<RaftIndex> for RaftIndexDto",
                      "RaftIndex/LogRange message code", "FileMessageReader::{read_next,read_len}"],
          "bound": "creation, save(term1, vote1, with / without a log range), last-applied write, save(term2, vote2, the other shape): a crash behind every prefix of the file mutations; "
                   "terms < 2^14, votes < 2^7, last-applied < 2^59"}
    try:
        prog = load_program(FILES)
        it, fs = make(prog)
        init_fn = prog.methods[("RaftIndexInnerManager", "init")]
        t1, v1, t2, v2, ap = z3.BitVec("term1", 64), z3.BitVec("vote1", 64), z3.BitVec("term2", 64), z3.BitVec("vote2", 64), z3.BitVec("applied", 64)
        first_long, crashv = z3.Bool("first_record_is_the_longer_one"), z3.BitVec("crash_after", 8)
        rng = [z3.ULT(t1, 1 << 14), z3.ULT(t2, 1 << 14), z3.ULT(v1, 1 << 7), z3.ULT(v2, 1 << 7), z3.ULT(ap, 1 << 59), z3.UGE(ap, 1)]
        covers = {"crash between two saves": 0, "crash image reopened": 0}

        def possible(cond):
            cond = z3.simplify(cond)
            if z3.is_false(cond):
                return False
            if it._feasible(cond):
                it.pc.append(cond)
                return True
            return False

        def dto(term, vote, with_log):
            d = empty_dto(term, vote)
            if with_log:
                d["logs"].append(Struct("LogRange", {"id": 1, "pre_term": 0, "start_index": 300, "record_count": 0, "split_off_index": 300, "is_close": False, "mark_remove": False}))
            return d

        def thunk():
            fs.files.clear()
            fs.journal = []
            m = it._invoke(init_fn, ["idx"], self_ty="RaftIndexInnerManager")
            if not (isinstance(m, Enum) and m.variant == "Ok"):
                return ("violation", "a fresh index file cannot be initialised", "init")
            m = m.payload[0]
            fl = it.branch(first_long)
            states = [(len(fs.journal), (0, 0, 0))]          # (journal length when acknowledged, (term, vote, applied))
            it.call_method("RaftIndexInnerManager", "write_index", m, [dto(t1, v1, fl)])
            states.append((len(fs.journal), (t1, v1, 0)))
            it.call_method("RaftIndexInnerManager", "write_last_applied_log", m, [ap])
            it.call_method("RaftIndexInnerManager", "flush", m, [])
            states.append((len(fs.journal), (t1, v1, ap)))
            it.call_method("RaftIndexInnerManager", "write_index", m, [dto(t2, v2, not fl)])
            states.append((len(fs.journal), (t2, v2, ap)))
            journal = fs.journal
            fs.journal = None
            p = pick(it, crashv, list(range(len(journal) + 1)))
            fs.files.clear()
            fs.files.update(iomodel.replay_journal({}, journal, p))
            if "idx" not in fs.files:
                return ("ok", None, None)
            r = it._invoke(init_fn, ["idx"], self_ty="RaftIndexInnerManager")
            if not (isinstance(r, Enum) and r.variant == "Ok"):
                return ("violation", "after a crash behind file mutation %d of %d the index file does not reopen" % (p, len(journal)), "reopen-after-crash-fails")
            covers["crash image reopened"] += 1
            mm = r.payload[0]
            done = [st for st in states if st[0] <= p]
            nxt = [st for st in states if st[0] > p]
            cands = [done[-1][1]] + ([nxt[0][1]] if nxt else [])
            if 0 < len(done) < len(states) and len(done) >= 2:
                covers["crash between two saves"] += 1
            ri = mm["raft_index"]
            got = (rseval.to_bv(ri["current_term"]), rseval.to_bv(ri["voted_for"]), rseval.to_bv(mm["last_applied_log"]))
            match_any = z3.Or(*[z3.And(got[0] == rseval.to_bv(c[0]), got[1] == rseval.to_bv(c[1]), got[2] == rseval.to_bv(c[2])) for c in cands])
            if possible(z3.Not(match_any)):
                return ("violation", "after a crash behind file mutation %d of %d the index file reports a (term, vote, last-applied) that is neither the last acknowledged save nor the one in flight"
                        % (p, len(journal)), "state-after-crash")
            return ("ok", None, None)
        it.solver.push()
        it.solver.add(*rng)
        paths = it.explore(thunk, max_paths=50000)
        it.solver.pop()
        s = z3.Solver()
        s.add(*rng)
        viol = None
        for pc, r, exc in paths:
            if exc is not None:
                viol = {"message": "panic while reopening the index file after a crash: %s" % exc, "tags": ["panic-after-crash"], "model": {}}
                break
            if r[0] == "violation":
                s.push()
                s.add(*pc)
                if s.check() == z3.sat:
                    m_ = s.model()
                    viol = {"message": r[1], "tags": [r[2]], "model": {str(v): m_.eval(v, model_completion=True).as_long() for v in (t1, v1, t2, v2, ap)}}
                s.pop()
                if viol:
                    break
        ob["queries"] = it.queries
        ob["solver_s"] = round(time.time() - t0, 1)
        ob["sample"] = {"paths_explored": len(paths), "covers": covers, "opaque_symbols": sorted(it.opaque_seen)[:12]}
        missing = [c for c, n in covers.items() if n == 0]
        if viol:
            ob.update({"verdict": "violation", "message": viol["message"], "tags": viol["tags"], "counterexample": viol["model"]})
        elif missing:
            ob.update({"verdict": "inconclusive", "message": "reachability witness never reached: %s" % missing})
        else:
            ob.update({"verdict": "discharged", "distinct": len(paths)})
    except rsparse.Unsupported as e:
        ob.update({"verdict": "inconclusive", "message": "encoder met source it cannot encode: %s" % e})
    return ob


if __name__ == "__main__":
    ob = run("quick", 0)
    print(ob["harness"], ob.get("verdict"), str(ob.get("message", ""))[:700], str(ob.get("counterexample"))[:400], ob.get("queries"), ob.get("solver_s"), str(ob.get("sample"))[:400])
