"""C08 — the byte stream of a snapshot transfer on the receiving node: the file the chunks are written to.

FileStore::create_snapshot (src/raft/filestore/core.rs) and, behind `snapshot_manager.send(NewSnapshotForLoad)`, the real
Handler<RaftSnapshotRequest> / get_next_id / get_snapshot_path (raftsnapshot.rs) are evaluated from source over the file model
(OpenOptions flags as the source sets them; O_APPEND and truncate have their POSIX meaning). The raft core's side is the
protocol of async-raft-ext 's core/install_snapshot.rs, transcribed: the first chunk of a stream calls create_snapshot and
writes at the position the file handle has; a later chunk seeks to its offset when that differs from the expected one and writes;
a node that restarts in the middle of a stream has lost the stream state and begins again with create_snapshot (the snapshot id
is the same: nothing was catalogued).

Schedules (symbolic choice): the leader's stream of 3 chunks delivered in order; with one chunk resent (lost reply); after an
earlier transfer of 1..=3 chunks of another, LONGER stream was interrupted by a restart of the receiver. Chunk bytes symbolic.
Oracle: when the stream is complete the file holds exactly the leader's bytes - same length, same content (what
finalize_snapshot_installation catalogues and what the node loads at its next start).
"""
import time

import z3

from . import rseval, rsparse, iomodel
from .c11 import pick
from .common import load_program
from .rseval import Struct, Enum, NONE, Some, Ok, Err, Uninterp

FILES = ["src/raft/filestore/core.rs", "src/raft/filestore/raftsnapshot.rs"]
ENUM_FILES = ["src/raft/filestore/raftindex.rs", "src/raft/filestore/model.rs"]


class SnapAddr:
    def __init__(self, mgr):
        self.ty = "SnapAddr"
        self.mgr = mgr


class Sink:
    def __init__(self, ty):
        self.ty = ty


def run(tier, seed):
    t0 = time.time()
    ob = {"engine": "smt", "harness": "s08_3_snapshot_stream_file", "encodes_files": FILES, "queries": 0, "solver_s": 0.0, "distinct": 0,
          "encodes": ["FileStore::create_snapshot", "Handler<RaftSnapshotRequest>::handle (NewSnapshotForLoad)", "RaftSnapshotManager::{get_next_id,get_snapshot_path}",
                      "async-raft-ext core/install_snapshot.rs chunk protocol (transcribed)"],
          "bound": "leader stream of 3 chunks of 2 symbolic bytes; delivered in order / with one chunk resent / behind an interrupted transfer of 1..=3 chunks (3 bytes each: 3, 6 or 9 bytes) of a longer stream (receiver restarted)"}
    try:
        prog = load_program(FILES + ENUM_FILES)
        it = rseval.Interp(prog)
        it.lenient = True
        fs = iomodel.Fs()
        iomodel.install_fs(it, fs)
        it.fn_models["Path::new"] = lambda interp, args: Struct("Path", {"s": str(args[0])})
        it.models[("Path", "join")] = lambda interp, recv, args: Struct("Path", {"s": recv["s"] + "/" + str(args[0])})
        it.models[("Path", "to_string_lossy")] = lambda interp, recv, args: recv["s"]
        it.fn_models["Box::new"] = lambda interp, args: args[0]
        handle = prog.trait_method("RaftSnapshotManager", "handle", "RaftSnapshotRequest")
        create = prog.trait_method("FileStore", "create_snapshot", "RaftStorage") or prog.methods.get(("FileStore", "create_snapshot"))
        if handle is None or create is None:
            raise rsparse.Unsupported("FileStore::create_snapshot / Handler<RaftSnapshotRequest> not found")
        it.models[("SnapAddr", "send")] = lambda interp, recv, args: Ok(interp._invoke(handle, [recv.mgr, args[0], "ctx"], self_ty="RaftSnapshotManager"))
        sched = z3.BitVec("schedule", 8)
        resend = z3.BitVec("resent_chunk", 8)
        cut = z3.BitVec("chunks_before_the_restart", 8)
        new = [[z3.BitVec("new_%d_%d" % (i, j), 64) for j in range(2)] for i in range(3)]
        old = [[z3.BitVec("old_%d_%d" % (i, j), 64) for j in range(3)] for i in range(4)]
        rng = [z3.ULT(b, 256) for c in new + old for b in c]
        covers = {"in order": 0, "a chunk resent": 0, "behind an interrupted longer transfer": 0}

        def begin(store, data):
            r = it._invoke(create, [store], self_ty="FileStore")
            if not (isinstance(r, Enum) and r.variant == "Ok"):
                return None
            sid, f = r.payload[0]
            it.method(f, "write_all", [list(data)])
            return {"id": sid, "file": f, "offset": len(data)}

        def cont(st, offset, data):
            if offset != st["offset"]:
                it.method(st["file"], "seek", [Enum("SeekFrom", "Start", [offset])])
                st["offset"] = offset
            it.method(st["file"], "write_all", [list(data)])
            st["offset"] += len(data)

        def thunk():
            fs.files.clear()
            mgr = Struct("RaftSnapshotManager", {"base_path": "data", "snapshots": [Struct("SnapshotRange", {"id": 3, "end_index": 9})], "last_header": NONE, "building": NONE,
                                                 "index_manager": NONE, "is_init": True})
            fs.files["data/snapshot_3"] = [1, 2, 3]
            store = Struct("FileStore", {"node_id": 1, "index_manager": Sink("IndexAddr"), "snapshot_manager": SnapAddr(mgr), "log_manager": Sink("LogAddr"),
                                         "apply_manager": Sink("ApplyAddr"), "close_write": False})
            kind = pick(it, sched, ["in order", "a chunk resent", "behind an interrupted longer transfer"])
            if kind == "behind an interrupted longer transfer":
                n = pick(it, cut, [1, 2, 3])
                st0 = begin(store, old[0])
                if st0 is None:
                    return ("create-failed", kind, None, None)
                for i in range(1, n):
                    cont(st0, 3 * i, old[i])
                # the receiver restarts: the stream state is gone, the file stays
            st = begin(store, new[0])
            if st is None:
                return ("create-failed", kind, None, None)
            if kind == "a chunk resent":
                j = pick(it, resend, [0, 1])
                if j == 0:
                    # the reply to the first chunk is lost: the leader sends offset 0 again (the core is Streaming: continue with a seek)
                    cont(st, 0, new[0])
                    cont(st, 2, new[1])
                else:
                    cont(st, 2, new[1])
                    cont(st, 2, new[1])
                cont(st, 4, new[2])
            else:
                cont(st, 2, new[1])
                cont(st, 4, new[2])
            name = [k for k in fs.files if k != "data/snapshot_3"]
            return ("ok", kind, st["id"], [(k, list(fs.files[k])) for k in sorted(name)])
        it.solver.push()
        it.solver.add(*rng)
        paths = it.explore(thunk, max_paths=2000)
        it.solver.pop()
        s = z3.Solver()
        s.add(*rng)
        nq = 0
        viol = None
        want = [b for c in new for b in c]
        for pc, rr, exc in paths:
            if exc is not None:
                viol = {"message": "panic while a snapshot stream is received: %s" % exc, "tags": ["panic"], "model": {}}
                break
            status, kind, sid, files = rr
            if status != "ok":
                viol = {"message": "create_snapshot fails (%s)" % kind, "tags": ["create-failed"], "model": {"schedule": kind}}
                break
            covers[kind] += 1
            if len(files) != 1:
                viol = {"message": "schedule '%s': the chunks of one snapshot id end up in %d files" % (kind, len(files)), "tags": ["stream-file"], "model": {"schedule": kind}}
                break
            got = files[0][1]
            if len(got) != len(want):
                viol = {"message": "schedule '%s': the received snapshot file has %d bytes, the leader's stream has %d - %s" % (
                    kind, len(got), len(want), ("the tail of an earlier, interrupted transfer is still in the file" if kind.startswith("behind") else "bytes were written behind the end instead of at their offset") if len(got) > len(want) else "bytes are missing"),
                    "tags": ["stream-length"], "model": {"schedule": kind, "file_bytes": len(got), "stream_bytes": len(want)}}
                break
            diff = z3.Or(*[rseval.to_bv(a) != rseval.to_bv(b) for a, b in zip(got, want)])
            s.push()
            s.add(*pc)
            s.add(diff)
            nq += 1
            if s.check() == z3.sat:
                viol = {"message": "schedule '%s': the received snapshot file differs from the leader's stream" % kind, "tags": ["stream-content"], "model": {"schedule": kind}}
            s.pop()
            if viol:
                break
        ob["queries"] = nq + it.queries
        ob["solver_s"] = round(time.time() - t0, 1)
        ob["sample"] = {"paths_explored": len(paths), "covers": covers, "opaque_symbols": sorted(it.opaque_seen)[:20]}
        missing = [c for c, k in covers.items() if k == 0]
        if viol:
            ob.update({"verdict": "violation", "message": viol["message"], "tags": viol["tags"], "counterexample": viol["model"]})
        elif missing:
            ob.update({"verdict": "inconclusive", "message": "reachability witness never reached: %s" % missing})
        else:
            ob.update({"verdict": "discharged", "distinct": nq})
    except rsparse.Unsupported as e:
        ob.update({"verdict": "inconclusive", "message": "encoder met source it cannot encode: %s" % e})
    return ob


if __name__ == "__main__":
    ob = run("quick", 0)
    print(ob["harness"], ob.get("verdict"), str(ob.get("message", ""))[:900], str(ob.get("counterexample"))[:600], ob.get("queries"), ob.get("solver_s"), str(ob.get("sample"))[:600])
