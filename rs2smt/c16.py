"""C16 — with OpenAPI auth on, no data endpoint (HTTP or gRPC) is served without a valid token.

Decided by symbolic evaluation of the real source:
  * route table = evaluation of web_config::app_config(conf) (routes.py), config flags symbolic;
  * ApiCheckAuthMiddleware::call (src/openapi/middle/auth_middle.rs) evaluated in lenient mode with the
    request path, the three token carriers and the session lookup as symbolic environment;
  * InvokerHandler::{new/add_*_handler, handle, ignore_auth, is_cluster_request, match_handler}
    (src/grpc/handler/mod.rs) evaluated likewise.
"""
import time

import z3

from . import rseval, rsparse, routes
from .rseval import Struct, Enum, NONE, Some, Ok, Err, Uninterp

# the property's own exemption list
LOGIN = ["/nacos/v1/auth/login", "/nacos/v1/auth/users/login", "/nacos/v3/auth/user/login", "/rnacos/v1/auth/user/login"]
EXEMPT = LOGIN + ["/nacos/metrics", "/nacos/v1/raft/close-write"]
FILES = ["src/openapi/middle/auth_middle.rs", "src/web_config.rs", "src/openapi/mod.rs", "src/grpc/handler/mod.rs"]

valid_token = z3.Function("valid_token", z3.StringSort(), z3.BoolSort())
LOOKUP_ERR = z3.Bool("session_lookup_fails")


def eval_http_middleware(prog):
    """returns (forward condition, check-path formula as function of (enable, path), symbols, opaque symbols)"""
    it = rseval.Interp(prog)
    it.lenient = True
    enable = z3.Bool("enable_auth")
    hdr_tok, qry_tok, body_tok = z3.String("header_token"), z3.String("query_token"), z3.String("body_token")
    has_hdr, has_qry = z3.Bool("has_header_token"), z3.Bool("has_query_token")
    used = {"token": None}

    request = request_model(it)
    it.fn_models["header_token"] = lambda interp, args: Some(hdr_tok) if interp.branch(has_hdr) else NONE

    def from_str(interp, args):
        return Ok(Struct("AccessInfo", {"access_token": qry_tok})) if interp.branch(has_qry) else Err(Uninterp("de", []))
    it.fn_models["serde_urlencoded::from_str"] = from_str
    it.fn_models["peek_body_token"] = lambda interp, args: body_tok

    def get_user_session(interp, args):
        key = args[1]
        tok = key["key"] if isinstance(key, Struct) and "key" in key else None
        if tok is None:
            raise rsparse.Unsupported("get_user_session: cache key not recognised: %r" % (key,))
        if isinstance(key.get("cache_type"), Enum) and key["cache_type"].variant != "ApiTokenSession":
            interp.emit("wrong-cache-type", key["cache_type"].variant)
        used["token"] = tok
        # the lookup itself can fail (token not in the local cache and the leader cannot be asked): no session is known then
        if interp.branch(LOOKUP_ERR):
            return Err(Uninterp("session-lookup-error", []))
        if interp.branch(valid_token(rseval.to_str(tok))):
            return Ok(Some(Struct("Session", {})))
        return Ok(NONE)
    it.fn_models["get_user_session"] = get_user_session
    it.fn_models["Box::pin"] = lambda interp, args: args[0]
    it.fn_models["SystemTime::now"] = lambda interp, args: Uninterp("now", [])

    service = Struct("InnerService", {})

    def call(interp, recv, args):
        interp.emit("forward", None)
        return Uninterp("forwarded", [])
    it.models[("InnerService", "call")] = call
    mw = Struct("ApiCheckAuthMiddleware", {
        "service": service,
        "app_share_data": Struct("AppShareData", {"sys_config": Struct("AppSysConfig", {"openapi_enable_auth": enable}),
                                                  "timezone_offset": Uninterp("tz", []), "metrics_manager": Uninterp("mm", [])}),
    })
    fn = prog.trait_method("ApiCheckAuthMiddleware", "call", "Service")
    if fn is None:
        raise rsparse.Unsupported("Service::call of ApiCheckAuthMiddleware not found")

    def thunk():
        return it._invoke(fn, [mw, request], self_ty="ApiCheckAuthMiddleware")
    paths = it.explore(thunk)
    fwd = []
    npaths = 0
    for pc, events in it.all_events:
        npaths += 1
        for name, epc, payload in events:
            if name == "forward":
                fwd.append(z3.And(*epc) if epc else z3.BoolVal(True))
            if name == "wrong-cache-type":
                raise rsparse.Unsupported("session looked up under cache type %s" % payload)
    for pc, r, exc in paths:
        if exc is not None:
            raise rsparse.Unsupported("panic in middleware evaluation: %s" % exc)
    forward = z3.Or(*fwd) if fwd else z3.BoolVal(False)
    syms = dict(enable=enable, raw_path=RAW, routed_path=ROUTED, hdr_tok=hdr_tok, qry_tok=qry_tok, body_tok=body_tok, has_hdr=has_hdr, has_qry=has_qry)
    return forward, syms, sorted(it.opaque_seen), npaths, it.queries


RAW = z3.String("raw_path")        # request.path(): the raw request path
ROUTED = z3.String("routed_path")  # request.match_info().as_str(): the requoted path the router matches


HTTP_METHODS = ["GET", "POST", "PUT", "DELETE", "PATCH", "HEAD", "OPTIONS", "CONNECT", "TRACE"]
METHOD = z3.Int("request_method")  # index into HTTP_METHODS (any other value: an extension method)


def method_is(name):
    return METHOD == HTTP_METHODS.index(name) if name in HTTP_METHODS else z3.BoolVal(False)


def request_model(it):
    request = Struct("ServiceRequest", {})
    it.models[("ServiceRequest", "method")] = lambda interp, recv, args: rseval.SymEnum("Method", {m: method_is(m) for m in HTTP_METHODS})
    it.models[("ServiceRequest", "path")] = lambda interp, recv, args: RAW
    it.models[("ServiceRequest", "match_info")] = lambda interp, recv, args: Struct("MatchInfo", {})
    it.models[("MatchInfo", "as_str")] = lambda interp, recv, args: ROUTED
    it.models[("MatchInfo", "unprocessed")] = lambda interp, recv, args: ROUTED
    return request


def check_path_formula(prog, path=None):
    """is_check_path as the middleware computes it with auth enabled, evaluated from its let-initialisers; returns the
    formula over RAW / ROUTED (whichever the middleware reads) - or over `path` when given (validation)"""
    fn = prog.trait_method("ApiCheckAuthMiddleware", "call", "Service")
    init = find_let(fn[3], "is_check_path")
    pinit = find_let(fn[3], "path")
    if init is None or pinit is None:
        raise rsparse.Unsupported("let path / let is_check_path not found in ApiCheckAuthMiddleware::call")
    it = rseval.Interp(prog)
    it.cur_file.append(prog.item_file.get(id(fn)))
    env = rseval.Env()
    env.define("enable_auth", True)
    env.define("request", request_model(it))
    env.define("req", env.lookup("request"))
    pv = it.eval(pinit, env) if path is None else path
    env.define("path", pv)
    # the other `let`s in front of is_check_path that it may read (e.g. a test on the request method): evaluated from source where they can be
    for nm, ini in lets_before(fn[3], "is_check_path"):
        if nm in ("path", "enable_auth", "request", "req"):
            continue
        try:
            env.define(nm, it.eval(ini, env))
        except (rsparse.Unsupported, KeyError, TypeError, AttributeError):
            pass
    v = it.eval(init, env)
    return rseval.to_bool(v), pv


def lets_before(node, stop):
    """[(name, init)] of the simple `let name = init` statements met (depth first) before `let <stop>`"""
    out = []

    def walk(n):
        if isinstance(n, tuple):
            if n and n[0] == "let" and len(n) == 5 and isinstance(n[1], tuple) and n[1][0] == "p_bind":
                if n[1][1] == stop:
                    return True
                out.append((n[1][1], n[3]))
                return False
            for x in n:
                if walk(x):
                    return True
        elif isinstance(n, list):
            for x in n:
                if walk(x):
                    return True
        return False
    walk(node)
    return out


def find_let(node, name):
    """first `let <name> = init` in an AST (depth first)"""
    if isinstance(node, tuple):
        if node and node[0] == "let" and len(node) == 5 and node[1] == ("p_bind", name, None):
            return node[3]
        for x in node:
            r = find_let(x, name)
            if r is not None:
                return r
    elif isinstance(node, list):
        for x in node:
            r = find_let(x, name)
            if r is not None:
                return r
    return None


def solve(s, timer):
    t0 = time.time()
    r = s.check()
    timer[0] += time.time() - t0
    timer[1] += 1
    return r


def run(tier, seed):
    t0 = time.time()
    info = {"files": FILES, "solver": "z3 " + z3.get_version_string(), "cmd": "python3-vt -m lib.main C16 (rs2smt/c16.py)"}
    obligations = []
    try:
        prog, bad = routes.load_all()
    except rsparse.Unsupported as e:
        return {"obligations": [{"engine": "smt", "harness": "s16_parse", "verdict": "inconclusive", "message": str(e)}], "info": info}
    timer = [0.0, 0]

    # ---- S16.1 every registered route under /nacos/ or /rnacos/v1/ (minus the exemptions) is a checked path
    ob = {"engine": "smt", "harness": "s16_1_routes_checked", "encodes": ["web_config::app_config and callees (route registration)",
          "ApiCheckAuthMiddleware::call: is_check_path", "IGNORE_PATH", "API_PATH", "R_NACOS_API_PATH"], "encodes_files": FILES,
          "bound": "every registered (route pattern, method) pair (both values of enable_no_auth_console, openapi_enable_auth = true) x every path string in its language; the request method is a symbolic value over the nine standard methods + extension methods",
          "queries": 0, "solver_s": 0.0, "distinct": 0}
    try:
        res, flags, q = routes.extract(prog, "app_config", ["enable_no_auth_console", "openapi_enable_auth"])
        chk, psym = check_path_formula(prog)
        uses_raw = psym is RAW
        if psym is not RAW and psym is not ROUTED:
            raise rsparse.Unsupported("the middleware's `path` is neither request.path() nor request.match_info().as_str(): %r" % (psym,))
        path = psym
        # RAW is what request.path() returns (what request.path() returns); the router matches the requoted path, so a route is
        # reached by every percent-encoded spelling of its pattern (actix DEFAULT_QUOTER keeps only % / + encoded)
        n_routes = 0
        seen = set()
        verdict = "discharged"
        s = z3.Solver()
        s.set("timeout", 60000)
        for pc, rts in res:
            # only configurations with auth switched on
            s.push()
            s.add(*pc)
            s.add(flags["openapi_enable_auth"])
            feasible = solve(s, timer) == z3.sat
            s.pop()
            if not feasible:
                continue
            for pat, method, handler in rts:
                if (pat, method) in seen:
                    continue
                seen.add((pat, method))
                if not (pat.startswith("/nacos/") or pat.startswith("/rnacos/v1/")) or pat in EXEMPT:
                    continue
                n_routes += 1
                s.push()
                s.add(z3.InRe(path, routes.pattern_to_re(pat, raw=uses_raw)), z3.Not(chk))
                if method != "*":
                    if method not in HTTP_METHODS:
                        raise rsparse.Unsupported("route %s registers the method %r" % (pat, method))
                    s.add(method_is(method))
                r = solve(s, timer)
                if r == z3.sat:
                    w = s.model().eval(path, model_completion=True).as_string()
                    mi = s.model().eval(METHOD, model_completion=True).as_long()
                    wm = HTTP_METHODS[mi] if 0 <= mi < len(HTTP_METHODS) else "an extension method"
                    ob.update({"verdict": "violation", "message": "route %s (%s %s) reaches its handler on path %r (request method %s) without the auth check" % (pat, method, handler, w, wm),
                               "counterexample": {"route": pat, "path": w, "method": wm}, "tags": ["unchecked-route"],
                               "e2e_requests": [{"method": wm, "path": w, "expect_forbidden": False}] if (mi in range(len(HTTP_METHODS)) and all(32 < ord(c_) < 127 for c_ in w)) else None,
                               "cases": [{"kind": "route_match_requoted", "route": pat, "path": w, "expect": True}, {"kind": "api_check_path", "path": w, "expect": False}] if uses_raw else []})
                    verdict = "violation"
                    s.pop()
                    break
                if r != z3.unsat:
                    ob.update({"verdict": "inconclusive", "message": "solver %s on route %s" % (r, pat)})
                    verdict = "inconclusive"
                    s.pop()
                    break
                s.pop()
            if verdict != "discharged":
                break
        # exemptions really are exempt-only: IGNORE_PATH subset of the property's list
        if verdict == "discharged":
            it = rseval.Interp(prog)
            it.cur_file.append("src/openapi/middle/auth_middle.rs")
            ign = it.const("IGNORE_PATH")
            extra = [x for x in ign if x not in EXEMPT]
            if extra:
                ob.update({"verdict": "violation", "message": "auth ignore list contains %r, which the property does not exempt" % extra,
                           "counterexample": {"ignore_entries": extra}, "tags": ["over-broad-ignore"],
                           "cases": [{"kind": "api_ignore_contains", "path": x, "expect": True} for x in extra]})
                verdict = "violation"
        if verdict == "discharged":
            # witness: a data route is in the checked language at all
            s.push()
            s.add(path == z3.StringVal("/nacos/v1/cs/configs"), chk)
            if solve(s, timer) != z3.sat:
                verdict = "inconclusive"
                ob.update({"verdict": "inconclusive", "message": "witness: /nacos/v1/cs/configs is not a checked path (vacuous encoding?)"})
            s.pop()
        if verdict == "discharged":
            ob["verdict"] = "discharged"
            ob["distinct"] = n_routes
        ob["sample"] = {"routes_examined": n_routes, "example": sorted("%s %s" % (m_, p_) for p_, m_ in seen)[:5], "is_check_path": str(z3.simplify(chk))[:400]}
    except rsparse.Unsupported as e:
        ob.update({"verdict": "inconclusive", "message": "encoder met source it cannot encode: %s" % e})
    ob["queries"] = timer[1]
    ob["solver_s"] = round(timer[0], 2)
    obligations.append(ob)

    # ---- S16.6 with auth on, the console's data API is not registered on the API port (it has no login middleware there and lies
    # outside the prefixes the auth middleware checks). The property's statement names the /nacos/ and /rnacos/v1/ endpoints; its title
    # says "no data endpoint": this obligation covers exactly the one other family of data routes the API port can carry.
    timer = [0.0, 0]
    ob = {"engine": "smt", "harness": "s16_6_no_console_api_on_the_api_port", "encodes": ["web_config::app_config and callees (route registration)"], "encodes_files": FILES,
          "bound": "every configuration of (enable_no_auth_console, openapi_enable_auth) with auth on; every registered route pattern", "queries": 0, "solver_s": 0.0, "distinct": 0}
    try:
        res, flags, q = routes.extract(prog, "app_config", ["enable_no_auth_console", "openapi_enable_auth"])
        s = z3.Solver()
        n_cfg = 0
        leaked = None
        for pc, rts in res:
            s.push()
            s.add(*pc)
            s.add(flags["openapi_enable_auth"])
            if solve(s, timer) == z3.sat:
                n_cfg += 1
                m = s.model()
                bad = sorted({pat for pat, method, handler in rts if pat.startswith("/rnacos/api/")})
                if bad and leaked is None:
                    leaked = (bad, {k: str(m.eval(v, model_completion=True)) for k, v in flags.items()})
            s.pop()
        if leaked:
            ob.update({"verdict": "violation", "tags": ["console-api-on-api-port"],
                       "message": "with OpenAPI auth on (%s) the API port registers %d console API routes without a login check, e.g. %s" % (leaked[1], len(leaked[0]), leaked[0][:3]),
                       "counterexample": {"config": leaked[1], "routes": leaked[0][:12]}})
        elif n_cfg == 0:
            ob.update({"verdict": "inconclusive", "message": "no configuration with auth on found (vacuous)"})
        else:
            ob.update({"verdict": "discharged", "distinct": n_cfg})
    except rsparse.Unsupported as e:
        ob.update({"verdict": "inconclusive", "message": "encoder met source it cannot encode: %s" % e})
    ob["queries"] = timer[1]
    ob["solver_s"] = round(timer[0], 2)
    obligations.append(ob)

    # ---- S16.2 middleware decision: forwarded => auth off, or unchecked path, or a non-empty valid token was presented
    timer = [0.0, 0]
    ob = {"engine": "smt", "harness": "s16_2_middleware_decision", "encodes": ["ApiCheckAuthMiddleware::call (whole body, lenient evaluation)"],
          "encodes_files": FILES, "bound": "every path string, every presence/value of header, query and body token, every session-lookup answer (session, no session, lookup error)",
          "queries": 0, "solver_s": 0.0, "distinct": 0}
    try:
        forward, sy, opaque, npaths, q = eval_http_middleware(prog)
        chk, _psym = check_path_formula(prog)
        s = z3.Solver()
        s.set("timeout", 60000)
        presented = z3.Or(z3.And(sy["has_hdr"], sy["hdr_tok"] != z3.StringVal(""), valid_token(sy["hdr_tok"])),
                          z3.And(sy["has_qry"], sy["qry_tok"] != z3.StringVal(""), valid_token(sy["qry_tok"])),
                          z3.And(sy["body_tok"] != z3.StringVal(""), valid_token(sy["body_tok"])))
        # a failing session lookup means that no session is known: the request must not be forwarded either
        s.add(forward, sy["enable"], chk, z3.Or(z3.Not(presented), LOOKUP_ERR))
        r = solve(s, timer)
        if r == z3.sat:
            m = s.model()
            ce = {k: str(m.eval(v, model_completion=True)) for k, v in sy.items()}
            ob.update({"verdict": "violation", "message": "request forwarded to the handler with auth on, on a checked path, without a valid non-empty token",
                       "counterexample": ce, "tags": ["forwarded-without-token"]})
        elif r == z3.unsat:
            # witnesses: forwarding is possible with a valid token; refusing is possible
            s2 = z3.Solver()
            s2.add(forward, sy["enable"], chk)
            w1 = solve(s2, timer) == z3.sat
            s3 = z3.Solver()
            s3.add(z3.Not(forward), sy["enable"], chk)
            w2 = solve(s3, timer) == z3.sat
            if w1 and w2:
                ob.update({"verdict": "discharged", "distinct": 3})
            else:
                ob.update({"verdict": "inconclusive", "message": "vacuity witness failed (forward possible=%s, refuse possible=%s)" % (w1, w2)})
        else:
            ob.update({"verdict": "inconclusive", "message": "solver answered %s" % r})
        ob["sample"] = {"paths_explored": npaths, "opaque_symbols": opaque[:40]}
        ob["queries"] = timer[1] + q
    except rsparse.Unsupported as e:
        ob.update({"verdict": "inconclusive", "message": "encoder met source it cannot encode: %s" % e})
    ob["solver_s"] = round(timer[0], 2)
    obligations.append(ob)

    # ---- S16.3 gRPC
    obligations.append(grpc_obligation(prog))
    obligations.append(token_gate_obligation(prog))
    obligations.append(token_lifetime_obligation(prog))
    obligations.append(validate(prog, seed, 16 if tier == "quick" else 64))
    for ob in obligations:
        if ob.get("verdict") == "violation":
            attach_replay(ob)
    # the replicated cache table that holds the sessions (its own native twin: harness/hist_cache.rs)
    from . import c16cache
    obligations.append(c16cache.run(tier, seed))
    info["wall_s"] = round(time.time() - t0, 1)
    return {"obligations": obligations, "info": info}


def attach_replay(ob):
    from . import webreplay
    webreplay.attach(ob, "C16")


def validate(prog, seed, k):
    """sampled paths: encoded is_check_path / route languages vs. the real regexes, ignore list and actix ResourceDef"""
    import random
    from . import webreplay
    ob = {"engine": "smt", "harness": "s16_translator_validation", "encodes": ["encoding vs. real API_PATH, R_NACOS_API_PATH, IGNORE_PATH, actix ResourceDef"],
          "bound": "%d sampled cases (VERIF_SEED)" % k, "queries": 0, "solver_s": 0.0, "distinct": 0}
    try:
        rnd = random.Random(seed)
        path = z3.String("path")
        chk, _p = check_path_formula(prog, path)
        res, flags, q = routes.extract(prog, "app_config", ["enable_no_auth_console", "openapi_enable_auth"])
        pats = sorted({p for pc, rts in res for (p, m, h) in rts})
        cases = []
        for _ in range(k):
            p = rnd.choice(pats)
            if "{" in p:
                s = z3.Solver()
                s.add(z3.InRe(path, routes.pattern_to_re(p)), z3.Length(path) < 60)
                if s.check() != z3.sat:
                    continue
                w = s.model().eval(path, model_completion=True).as_string()
                if not all(31 < ord(c) < 127 for c in w):
                    continue
                cases.append({"kind": "route_match", "route": p, "path": w, "expect": True})
            else:
                w = p
                r = rnd.random()
                if r < 0.2:
                    w = p.upper()
                elif r < 0.35:
                    w = p + "/"
                elif r < 0.45:
                    w = "/x" + p
            exp = z3.is_true(z3.simplify(z3.substitute(chk, (path, z3.StringVal(w)), (METHOD, z3.IntVal(0)))))  # the native predicate knows no method: GET
            cases.append({"kind": "api_check_path", "path": w, "expect": exp})
        rr = webreplay.run_cases("C16", "validate", cases, "translator validation")
        if rr["outcome"] == "passed":
            ob.update({"verdict": "discharged", "distinct": len(cases), "sample": {"cases": len(cases), "example": cases[:2]}})
        else:
            ob.update({"verdict": "inconclusive", "message": "encoder disagrees with the real code: %s" % rr.get("output", "")[-600:]})
    except rsparse.Unsupported as e:
        ob.update({"verdict": "inconclusive", "message": str(e)})
    return ob


def grpc_obligation(prog):
    timer = [0.0, 0]
    ob = {"engine": "smt", "harness": "s16_3_grpc_dispatch", "encodes": ["InvokerHandler::handle", "InvokerHandler::ignore_auth",
          "InvokerHandler::is_cluster_request", "InvokerHandler::match_handler", "InvokerHandler::new + add_*_handler (registrations)"],
          "encodes_files": ["src/grpc/handler/mod.rs"], "bound": "every request type string, every session / cluster-token state, both config flags",
          "queries": 0, "solver_s": 0.0, "distinct": 0}
    try:
        it = rseval.Interp(prog)
        it.lenient = True
        url = z3.String("type_url")
        enable = z3.Bool("enable_auth")
        cluster_token = z3.String("cluster_token")
        has_session = z3.Bool("has_token_session")
        ctok_valid = z3.Bool("cluster_token_is_valid")
        app = Struct("AppShareData", {"sys_config": Struct("AppSysConfig", {"openapi_enable_auth": enable, "cluster_token": cluster_token})})
        # registrations: run the real constructor in a strict sub-evaluation with opaque handler objects
        it.fn_models["Box::new"] = lambda interp, args: args[0]
        reg = rseval.Interp(prog)
        reg.lenient = True
        reg.fn_models["Box::new"] = lambda interp, args: Struct("Handler", {"of": repr(args[0])[:60]})
        reg.fn_models["Default::default"] = lambda interp, args: []
        ih = reg._invoke(prog.methods[("InvokerHandler", "new")], [app], self_ty="InvokerHandler") if ("InvokerHandler", "new") in prog.methods else None
        if ih is None or not isinstance(ih, Struct):
            raise rsparse.Unsupported("InvokerHandler::new not evaluable")
        for name in sorted(n for (ty, n) in prog.methods if ty == "InvokerHandler" and n.startswith("add_") and n != "add_handler"):
            reg.call_method("InvokerHandler", name, ih, [app])
        handlers = ih["handlers"]
        types = [t for (t, _h) in handlers]
        if not types:
            raise rsparse.Unsupported("no gRPC handlers registered")
        ih["app"] = app
        it.fn_models["PayloadUtils::get_payload_type"] = lambda interp, args: Some(url)
        meta = Struct("RequestMeta", {"cluster_token_is_valid": ctok_valid, "connection_id": "c", "token_session": None})

        def handler_handle(interp, recv, args):
            interp.emit("dispatch", recv["of"])
            return Uninterp("handled", [])
        it.models[("Handler", "handle")] = handler_handle

        def thunk():
            meta["token_session"] = Some(Struct("Session", {})) if it.branch(has_session) else NONE
            return it.call_method("InvokerHandler", "handle", ih, [Struct("Payload", {}), meta])
        paths = it.explore(thunk)
        disp = []
        for pc, events in it.all_events:
            for name, epc, payload in events:
                if name == "dispatch":
                    disp.append(z3.And(*epc) if epc else z3.BoolVal(True))
        dispatched = z3.Or(*disp) if disp else z3.BoolVal(False)
        consts = {}
        for cname in prog.consts:
            if cname.endswith("_REQUEST") or cname.endswith("REQUEST"):
                try:
                    v = reg.const(cname)
                except rsparse.Unsupported:
                    continue
                if isinstance(v, str):
                    consts[cname] = v
        cluster_names = sorted(c for c in consts if c.startswith("RAFT_") or c == "NAMING_ROUTE_REQUEST")
        cluster_vals = [consts[c] for c in cluster_names]
        health_vals = [consts[c] for c in ("SERVER_CHECK_REQUEST", "HEALTH_CHECK_REQUEST") if c in consts]
        data_types = [t for t in types if t not in cluster_vals and t not in health_vals]
        s = z3.Solver()
        s.set("timeout", 60000)
        # data requests need a session when auth is on
        s.push()
        s.add(dispatched, enable, z3.Not(has_session), z3.Or(*[url == z3.StringVal(t) for t in data_types]))
        r = solve(s, timer)
        if r == z3.sat:
            w = s.model().eval(url, model_completion=True).as_string()
            ob.update({"verdict": "violation", "message": "gRPC request type %s is dispatched with auth on and no token session" % w,
                       "counterexample": {"type_url": w}, "tags": ["grpc-data-without-session"]})
            s.pop()
            return _fin(ob, timer)
        s.pop()
        if r != z3.unsat:
            ob.update({"verdict": "inconclusive", "message": "solver %s" % r})
            return _fin(ob, timer)
        # cluster requests need the cluster token when one is configured
        s.push()
        s.add(dispatched, cluster_token != z3.StringVal(""), z3.Not(ctok_valid), z3.Or(*[url == z3.StringVal(t) for t in cluster_vals]))
        r = solve(s, timer)
        if r == z3.sat:
            w = s.model().eval(url, model_completion=True).as_string()
            ob.update({"verdict": "violation", "message": "cluster request %s dispatched without a valid cluster token although one is configured" % w,
                       "counterexample": {"type_url": w}, "tags": ["cluster-request-without-token"]})
            s.pop()
            return _fin(ob, timer)
        s.pop()
        # witnesses
        s.push()
        s.add(dispatched, enable, has_session, url == z3.StringVal(data_types[0]))
        w1 = solve(s, timer) == z3.sat
        s.pop()
        if not w1:
            ob.update({"verdict": "inconclusive", "message": "witness: a data request with a session is never dispatched (vacuous encoding)"})
            return _fin(ob, timer)
        ob.update({"verdict": "discharged", "distinct": len(data_types) + len(cluster_vals),
                   "sample": {"registered_types": len(types), "data_types": data_types[:6], "cluster_types": cluster_names}})
        ob["queries"] = it.queries
    except rsparse.Unsupported as e:
        ob.update({"verdict": "inconclusive", "message": "encoder met source it cannot encode: %s" % e})
    return _fin(ob, timer)


def token_gate_obligation(prog):
    """S16.4: RequestServerImpl::fill_token_session (src/grpc/server.rs) marks the cluster token valid only if the ClusterToken
    header is present and equal to the configured (non-empty) token. Both strings are byte lists of symbolic content and every
    length 0..=2 (so that byte-wise comparison code is executable); headers present/absent symbolically."""
    timer = [0.0, 0]
    ob = {"engine": "smt", "harness": "s16_4_grpc_token_gate", "encodes": ["RequestServerImpl::fill_token_session"], "encodes_files": ["src/grpc/server.rs"],
          "bound": "header token and configured cluster token: every byte string of length 0..=2; access / authorization / cluster headers present or absent; auth flag symbolic",
          "queries": 0, "solver_s": 0.0, "distinct": 0}
    try:
        fn = prog.methods.get(("RequestServerImpl", "fill_token_session"))
        if fn is None:
            raise rsparse.Unsupported("RequestServerImpl::fill_token_session not found")
        it = rseval.Interp(prog)
        it.lenient = True
        it.cur_file.append(prog.item_file.get(id(fn)))
        enable = z3.Bool("enable_auth")
        has_access, has_cluster = z3.Bool("has_access_header"), z3.Bool("has_cluster_header")
        hb = [z3.BitVec("hdr_byte%d" % i, 64) for i in range(2)]
        cb = [z3.BitVec("cfg_byte%d" % i, 64) for i in range(2)]
        hlen, clen = z3.BitVec("hdr_len", 64), z3.BitVec("cfg_len", 64)
        sess = z3.Bool("session_lookup_succeeds")
        it.fn_models["get_user_session"] = lambda interp, args: Ok(Some(Struct("Session", {}))) if interp.branch(sess) else Ok(NONE)
        k_access, k_cluster = it.const("ACCESS_TOKEN_HEADER"), it.const("CLUSTER_TOKEN")
        found = []

        def pick_len(var):
            for n in (0, 1):
                if it.branch(var == n):
                    return n
            return 2

        def thunk():
            hl, cl = pick_len(hlen), pick_len(clen)
            htok, ctok = hb[:hl], cb[:cl]
            headers = {}
            if it.branch(has_access):
                headers[k_access] = [z3.BitVecVal(65, 64)]
            present = it.branch(has_cluster)
            if present:
                headers[k_cluster] = htok
            payload = Struct("Payload", {"metadata": Some(Struct("Metadata", {"headers": headers}))})
            meta = Struct("RequestMeta", {"cluster_token_is_valid": False, "token_session": NONE, "connection_id": "c"})
            me = Struct("RequestServerImpl", {"app": Struct("AppShareData", {"sys_config": Struct("AppSysConfig", {"openapi_enable_auth": enable, "cluster_token": ctok})}),
                                              "invoker": Uninterp("invoker", [])})
            it._invoke(fn, [me, payload, meta], self_ty="RequestServerImpl")
            ok_expected = present and hl == cl and cl > 0
            eq_bytes = z3.And(*[htok[i] == ctok[i] for i in range(min(hl, cl))]) if min(hl, cl) > 0 else z3.BoolVal(True)
            return meta["cluster_token_is_valid"], (z3.And(eq_bytes) if ok_expected else z3.BoolVal(False)), (present, hl, cl)
        it.solver.push()
        for b in hb + cb:
            it.solver.add(z3.ULT(b, 256), b != 0)
        paths = it.explore(thunk)
        it.solver.pop()
        s = z3.Solver()
        for b in hb + cb:
            s.add(z3.ULT(b, 256), b != 0)
        nq = 0
        for pc, r, exc in paths:
            if exc is not None:
                raise rsparse.Unsupported("panic: %s" % exc)
            valid, expected, shape = r
            s.push()
            s.add(*pc)
            s.add(rseval.to_bool(valid), z3.Not(expected))
            r2 = solve(s, timer)
            nq += 1
            if r2 == z3.sat:
                m = s.model()
                present, hl, cl = shape
                hv = [m.eval(x, model_completion=True).as_long() for x in hb[:hl]]
                cv = [m.eval(x, model_completion=True).as_long() for x in cb[:cl]]
                ob.update({"verdict": "violation", "tags": ["cluster-token-accepted-although-different"],
                           "message": "cluster token marked valid although the ClusterToken header (%s) differs from the configured token (bytes %s)"
                           % ("bytes %s" % hv if present else "absent", cv), "counterexample": {"header_present": present, "header_bytes": hv, "configured_bytes": cv}})
                s.pop()
                return _fin(ob, timer)
            s.pop()
        # witness: the exact token is accepted somewhere
        wit = False
        for pc, r, exc in paths:
            valid, expected, shape = r
            s.push()
            s.add(*pc)
            s.add(rseval.to_bool(valid))
            if solve(s, timer) == z3.sat:
                wit = True
            s.pop()
            if wit:
                break
        if not wit:
            ob.update({"verdict": "inconclusive", "message": "witness: no path accepts the exact token (vacuous)"})
        else:
            ob.update({"verdict": "discharged", "distinct": nq, "sample": {"paths_explored": len(paths)}})
        ob["queries"] = it.queries
    except rsparse.Unsupported as e:
        ob.update({"verdict": "inconclusive", "message": "encoder met source it cannot encode: %s" % e})
    return _fin(ob, timer)


def token_lifetime_obligation(prog0):
    """S16.5: the API token issued by the HTTP login handler (do_login, src/openapi/auth.rs) is stored with exactly the configured API
    token lifetime, which is also the lifetime announced to the client: an expired token is no token. The two configured lifetimes
    (API, console) are distinct symbolic integers; the raft request route and the user manager are recording sinks."""
    timer = [0.0, 0]
    ob = {"engine": "smt", "harness": "s16_5_token_lifetime", "encodes": ["openapi::auth::do_login"], "encodes_files": ["src/openapi/auth.rs"],
          "bound": "every pair of configured lifetimes (API token, console session: 32-bit, symbolic); login of a valid user", "queries": 0, "solver_s": 0.0, "distinct": 0}
    try:
        from .common import load_program
        prog = load_program(["src/openapi/auth.rs"])
        fn = prog.fns.get("do_login")
        if fn is None:
            raise rsparse.Unsupported("openapi::auth::do_login not found")
        it = rseval.Interp(prog)
        it.lenient = True
        api_ttl, console_ttl = z3.BitVec("openapi_login_timeout", 64), z3.BitVec("console_login_timeout", 64)
        reqs = []

        class Route:
            ty = "RaftRoute"

        class Users:
            ty = "UserManager"

        def route_request(interp, recv, args):
            reqs.append(args[0])
            r = args[0]
            # the login limiter answers "admitted"
            return Ok(Enum("ClientResponse", "CacheResp", {"resp": Enum("CacheManagerRaftResult", "Limiter", [True])}))
        it.models[("RaftRoute", "request")] = route_request
        it.models[("UserManager", "send")] = lambda interp, recv, args: Ok(Ok(Enum("UserManagerResult", "CheckUserResult", [True, Struct("UserDto", {
            "username": "u", "roles": Some(["r"]), "extend_info": Some({}), "nickname": NONE})])))
        ttl_seen = []

        def new_with_ttl(interp, args):
            ttl_seen.append((args[0], args[2]))
            return Struct("CacheSetParam", {"key": args[0], "value": args[1], "ttl": args[2]})
        it.fn_models["CacheSetParam::new_with_ttl"] = new_with_ttl
        it.fn_models["CacheKey::new"] = lambda interp, args: Struct("CacheKey", {"cache_type": args[0], "key": args[1]})
        json_seen = []

        class Resp:
            ty = "HttpResponseBuilder"
        it.fn_models["HttpResponse::Ok"] = lambda interp, args: Resp()
        it.models[("HttpResponseBuilder", "json")] = lambda interp, recv, args: json_seen.append(args[0]) or Struct("HttpResponse", {"body": args[0]})

        def thunk():
            del reqs[:], ttl_seen[:], json_seen[:]
            app = Struct("AppShareData", {"sys_config": Struct("AppSysConfig", {"openapi_login_timeout": api_ttl, "console_login_timeout": console_ttl, "openapi_login_one_minute_limit": 5,
                                                                                 "openapi_enable_auth": True}),
                                          "raft_request_route": Route(), "user_manager": Users()})
            param = Struct("LoginParams", {"username": Some("u"), "password": Some("p")})
            r = it._invoke(fn, [param, app])
            return r, list(ttl_seen), list(json_seen)
        paths = it.explore(thunk)
        s = z3.Solver()
        s.add(api_ttl != console_ttl, z3.ULT(api_ttl, 1 << 31), z3.ULT(console_ttl, 1 << 31))
        nq = 0
        reached = 0
        for pc, r, exc in paths:
            if exc is not None:
                raise rsparse.Unsupported("panic: %s" % exc)
            res, ttls, bodies = r
            sess = [(k, t) for k, t in ttls if isinstance(k, Struct) and "ApiTokenSession" in str(k["cache_type"])]
            if not bodies:
                continue
            reached += 1
            if len(sess) != 1:
                ob.update({"verdict": "violation", "tags": ["token-not-stored"], "message": "a successful login stores %d API token sessions" % len(sess), "counterexample": {}})
                return _fin(ob, timer)
            announced = bodies[0]["token_ttl"] if isinstance(bodies[0], Struct) and "token_ttl" in bodies[0] else None
            for what, val in (("stored", sess[0][1]), ("announced", announced)):
                if val is None:
                    continue
                s.push()
                s.add(*pc)
                s.add(rseval.to_bv(val) != api_ttl)
                r2 = solve(s, timer)
                nq += 1
                if r2 == z3.sat:
                    m = s.model()
                    ob.update({"verdict": "violation", "tags": ["token-lifetime-" + what],
                               "message": "the API token's %s lifetime (%s s) differs from the configured API token lifetime (%s s): an expired token keeps being accepted / a valid one is dropped"
                               % (what, m.eval(rseval.to_bv(val), model_completion=True), m.eval(api_ttl, model_completion=True)),
                               "counterexample": {"openapi_login_timeout": m.eval(api_ttl, model_completion=True).as_long(), "console_login_timeout": m.eval(console_ttl, model_completion=True).as_long()}})
                    s.pop()
                    return _fin(ob, timer)
                s.pop()
        if reached == 0:
            ob.update({"verdict": "inconclusive", "message": "reachability witness never reached: a successful login"})
        else:
            ob.update({"verdict": "discharged", "distinct": nq, "sample": {"paths_explored": len(paths), "successful_login_paths": reached, "opaque_symbols": sorted(it.opaque_seen)[:12]}})
        ob["queries"] = it.queries
    except rsparse.Unsupported as e:
        ob.update({"verdict": "inconclusive", "message": "encoder met source it cannot encode: %s" % e})
    return _fin(ob, timer)


def _fin(ob, timer):
    ob["queries"] = ob.get("queries", 0) + timer[1]
    ob["solver_s"] = round(timer[0], 2)
    return ob


if __name__ == "__main__":
    import sys
    r = run(sys.argv[1] if len(sys.argv) > 1 else "quick", 0)
    for ob in r["obligations"]:
        print(ob["harness"], ob.get("verdict"), str(ob.get("message", ""))[:400], ob.get("counterexample"), ob.get("queries"), ob.get("solver_s"),
              str(ob.get("sample"))[:600])
    print(r["info"])
