"""C05 at the level async-raft sees: FileStore::{save_hard_state, get_initial_state} (src/raft/filestore/core.rs) on top of the
real RaftIndexManager actor (Handler<RaftIndexRequest>, write_* methods, the index file code, generated message code) over the
file model. `index_manager.send(msg)` dispatches into the real handler; the log manager answers "no entries".

Scenario: every history of N steps over
  hs(t, v)  RaftStorage::save_hard_state with term t (symbolic, non-decreasing as raft produces them) and vote v (none or a node id)
  mem       a membership save reaching the index manager (SaveMember [1, 2] with addresses)
after every step and after a restart RaftStorage::get_initial_state must report exactly the last acknowledged hard state
(term and vote - also when only the vote changed inside a term) and the last acknowledged membership.
"""
import time

import z3

from . import rseval, rsparse
from .c05 import make
from .common import load_program, concretize
from .rseval import Struct, Enum, NONE, Some, Ok, Uninterp

FILES = ["src/raft/filestore/core.rs", "src/raft/filestore/raftindex.rs", "src/raft/filestore/log.rs", "src/raft/filestore/model.rs", "src/common/protobuf_utils.rs"]


class IndexAddr:
    def __init__(self, actor):
        self.ty = "IndexAddr"
        self.actor = actor


class Sink:
    def __init__(self, ty):
        self.ty = ty


def run(tier, seed):
    t0 = time.time()
    n = 3 if tier == "quick" else 4
    ob = {"engine": "smt", "harness": "s05_4_filestore_hard_state", "encodes_files": FILES, "queries": 0, "solver_s": 0.0, "distinct": 0,
          "encodes": ["FileStore::{save_hard_state,get_initial_state}", "Handler<RaftIndexRequest>::handle", "RaftIndexManager::write_*", "RaftIndexInnerManager::{init,write_index,flush}",
                      "RaftIndex message code (generated)"],
          "bound": "every history of %d steps over {save_hard_state(term < 2^14 non-decreasing, vote none or < 2^7), membership save (uniform [1, 2] or the joint membership [1, 2, 3] -> [2, 3, 4] of a mid-change snapshot header)}; get_initial_state after every step and after a restart" % n}
    try:
        prog = load_program(FILES)
        it, fs = make(prog)

        def into_actor(interp, recv, args):
            return Struct("ActorFut", {"v": recv, "act": args[0]})
        it.models[(None, "into_actor")] = into_actor

        def fut_map(interp, recv, args):
            interp.call_value(args[0], [recv["v"], recv["act"], "ctx"])
            return recv
        it.models[("ActorFut", "map")] = fut_map
        it.models[("ActorFut", "wait")] = lambda interp, recv, args: ()
        it.models[("ActorFut", "spawn")] = lambda interp, recv, args: ()
        init_fn = prog.methods[("RaftIndexInnerManager", "init")]
        handle = prog.trait_method("RaftIndexManager", "handle", "RaftIndexRequest")
        save_hs = prog.trait_method("FileStore", "save_hard_state", "RaftStorage") or prog.methods.get(("FileStore", "save_hard_state"))
        get_init = prog.trait_method("FileStore", "get_initial_state", "RaftStorage") or prog.methods.get(("FileStore", "get_initial_state"))
        if handle is None or save_hs is None or get_init is None:
            raise rsparse.Unsupported("FileStore::save_hard_state / get_initial_state or Handler<RaftIndexRequest> not found")
        it.models[("IndexAddr", "send")] = lambda interp, recv, args: Ok(interp._invoke(handle, [recv.actor, args[0], "ctx"], self_ty="RaftIndexManager"))
        it.models[("FileStore", "get_last_log_index")] = lambda interp, recv, args: Ok(Struct("LogIndexInfo", {"index": 0, "term": 0}))
        # Option<u64>::unwrap_or_default(): 0 (the only use in these functions is the vote)
        it.models[(None, "unwrap_or_default")] = lambda interp, recv, args: (recv.payload[0] if recv.variant in ("Some", "Ok") else 0) if isinstance(recv, Enum) else recv
        it.fn_models["vec_to_set"] = lambda interp, args: sorted(args[0])
        it.fn_models["InitialState::new_initial"] = lambda interp, args: Struct("InitialState", {"new_initial": True})
        step = [z3.Bool("step%d_is_hard_state" % i) for i in range(n)]
        terms = [z3.BitVec("term%d" % i, 64) for i in range(n)]
        votes = [z3.BitVec("vote%d" % i, 64) for i in range(n)]
        has_vote = [z3.Bool("step%d_has_vote" % i) for i in range(n)]
        rng = [z3.ULT(t, 1 << 14) for t in terms] + [z3.And(z3.UGT(v, 0), z3.ULT(v, 1 << 7)) for v in votes] + [z3.ULE(terms[i], terms[i + 1]) for i in range(n - 1)]
        covers = {"a vote granted inside an already saved term": 0, "restart": 0, "membership save between two hard-state saves": 0, "a joint membership is saved": 0}
        joint_v = [z3.Bool("joint_membership%d" % i) for i in range(n)]
        ops_box = [[]]

        def possible(cond):
            if isinstance(cond, bool):
                return cond
            cond = z3.simplify(cond)
            if z3.is_false(cond):
                return False
            if it._feasible(cond):
                it.pc.append(cond)
                return True
            return False

        def compare(store, ref, log, where):
            r = it._invoke(get_init, [store], self_ty="FileStore")
            if not (isinstance(r, Enum) and r.variant == "Ok"):
                return ("violation", "%s: get_initial_state fails" % where, log, "initial-state-error")
            st = r.payload[0]
            if not isinstance(st, Struct) or "hard_state" not in st:
                return ("violation", "%s: get_initial_state reports a pristine node although saves were acknowledged" % where, log, "initial-state-pristine")
            hs = st["hard_state"]
            if possible(rseval.to_bv(hs["current_term"]) != rseval.to_bv(ref["term"])):
                return ("violation", "%s: the term reported by get_initial_state differs from the last acknowledged save" % where, log, "term-lost")
            v = hs["voted_for"]
            if ref["vote"] is None:
                if not (isinstance(v, Enum) and v.variant == "None"):
                    return ("violation", "%s: get_initial_state reports a vote although the last acknowledged hard state has none" % where, log, "vote-invented")
            else:
                if not (isinstance(v, Enum) and v.variant == "Some"):
                    return ("violation", "%s: get_initial_state reports no vote, the last acknowledged save has one (the node can vote twice in this term)" % where, log, "vote-lost")
                if possible(rseval.to_bv(v.payload[0]) != rseval.to_bv(ref["vote"])):
                    return ("violation", "%s: the vote reported by get_initial_state differs from the last acknowledged save" % where, log, "vote-lost")
            mem = st["membership"]
            if list(mem["members"]) != ref["member"]:
                return ("violation", "%s: membership %s reported, %s was acknowledged" % (where, list(mem["members"]), ref["member"]), log, "member-lost")
            mac = mem["members_after_consensus"]
            got_joint = sorted(mac.payload[0]) if isinstance(mac, Enum) and mac.variant == "Some" else None
            if got_joint != ref.get("joint"):
                return ("violation", "%s: get_initial_state reports the joint half (members after consensus) %s, the last acknowledged membership save has %s" % (where, got_joint, ref.get("joint")), log, "member-lost")
            return None

        def thunk():
            r = inner()
            return r + (list(ops_box[0]),)

        def inner():
            fs.files.clear()
            rec = ops_box[0] = []
            m = it._invoke(init_fn, ["idx"], self_ty="RaftIndexInnerManager")
            if not (isinstance(m, Enum) and m.variant == "Ok"):
                return ("violation", "a fresh index file cannot be initialised", [], "init")
            actor = Struct("RaftIndexManager", {"path": "idx", "lock_file": None, "inner": Some(m.payload[0]), "naming_inner_node_manage": NONE})
            store = Struct("FileStore", {"node_id": 1, "index_manager": IndexAddr(actor), "snapshot_manager": Sink("SnapAddr"), "log_manager": Sink("LogAddr"),
                                         "apply_manager": Sink("ApplyAddr"), "close_write": False})
            ref = {"term": 0, "vote": None, "member": []}
            log = []
            last_hs = None
            for i in range(n):
                if it.branch(step[i]):
                    hv = it.branch(has_vote[i])
                    hs = Struct("HardState", {"current_term": terms[i], "voted_for": Some(votes[i]) if hv else NONE})
                    r = it._invoke(save_hs, [store, hs], self_ty="FileStore")
                    rec.append({"op": "save-hard-state", "term": terms[i], "vote": votes[i] if hv else None})
                    log.append(("save_hard_state", "term%d" % i, "vote%d" % i if hv else "no vote"))
                    if not (isinstance(r, Enum) and r.variant == "Ok"):
                        return ("violation", "save_hard_state is answered with an error", log, "save-error")
                    if last_hs is not None and hv and ref["vote"] is None and possible(terms[i] == ref["term"]):
                        covers["a vote granted inside an already saved term"] += 1
                    ref.update({"term": terms[i], "vote": votes[i] if hv else None})
                    last_hs = i
                else:
                    # a uniform membership [1, 2], or the joint membership of a snapshot header taken in the middle of a change ([1, 2, 3] -> [2, 3, 4]).
                    # A save without a joint half keeps the stored one (what the handler does: the joint half is only ever replaced), so joint saves come last
                    joint = it.branch(joint_v[i])
                    if ref.get("joint") is not None and not joint:
                        raise rseval.PathAbort()
                    mlist, jl = ([1, 2, 3], [2, 3, 4]) if joint else ([1, 2], None)
                    msg = Enum("RaftIndexRequest", "SaveMember", {"member": list(mlist), "member_after_consensus": Some(list(jl)) if jl else NONE, "node_addr": Some({1: "a:1", 2: "b:2"})})
                    r = it._invoke(handle, [actor, msg, "ctx"], self_ty="RaftIndexManager")
                    rec.append({"op": "save-member", "member": list(mlist), "member_after_consensus": jl, "node_addr": {"1": "a:1", "2": "b:2"}})
                    log.append(("save-member", mlist, jl))
                    if not (isinstance(r, Enum) and r.variant == "Ok"):
                        return ("violation", "a membership save is answered with an error", log, "save-error")
                    ref["member"] = list(mlist)
                    if joint:
                        ref["joint"] = list(jl)
                        covers["a joint membership is saved"] += 1
                    if last_hs is not None and i + 1 < n:
                        covers["membership save between two hard-state saves"] += 1
                bad = compare(store, ref, log, "same process, after step %d" % (i + 1))
                if bad:
                    return bad
            innerm = actor["inner"]
            if isinstance(innerm, Enum) and innerm.variant == "Some":
                it.call_method("RaftIndexInnerManager", "flush", innerm.payload[0], [])
            m2 = it._invoke(init_fn, ["idx"], self_ty="RaftIndexInnerManager")
            log.append(("restart",))
            if not (isinstance(m2, Enum) and m2.variant == "Ok"):
                return ("violation", "the index file does not reopen after a restart", log, "reopen-fails")
            actor2 = Struct("RaftIndexManager", {"path": "idx", "lock_file": None, "inner": Some(m2.payload[0]), "naming_inner_node_manage": NONE})
            store2 = Struct("FileStore", {"node_id": 1, "index_manager": IndexAddr(actor2), "snapshot_manager": Sink("SnapAddr"), "log_manager": Sink("LogAddr"),
                                          "apply_manager": Sink("ApplyAddr"), "close_write": False})
            covers["restart"] += 1
            bad = compare(store2, ref, log, "after restart")
            if bad:
                return bad
            return ("ok", None, log, None)
        it.solver.push()
        it.solver.add(*rng)
        paths = it.explore(thunk, max_paths=200000)
        it.solver.pop()
        s = z3.Solver()
        s.add(*rng)
        viol = None
        for pc, r, exc in paths:
            if exc is not None:
                viol = {"message": "panic in the store: %s" % exc, "tags": ["panic"], "model": {}}
                break
            if r[0] == "violation":
                s.push()
                s.add(*pc)
                if s.check() == z3.sat:
                    m_ = s.model()
                    viol = {"message": r[1], "tags": [r[3]], "model": {"history": [list(map(str, e)) for e in r[2]],
                            "values": {str(v): m_.eval(v, model_completion=True).as_long() for v in terms + votes}}, "ops": concretize(r[4], m_)}
                s.pop()
                if viol:
                    break
        ob["queries"] = it.queries
        ob["solver_s"] = round(time.time() - t0, 1)
        ob["sample"] = {"paths_explored": len(paths), "covers": covers, "opaque_symbols": sorted(it.opaque_seen)[:20]}
        missing = [c for c, k in covers.items() if k == 0]
        if viol:
            ob.update({"verdict": "violation", "message": viol["message"], "tags": viol["tags"], "counterexample": viol["model"], "_ops": viol.get("ops")})
        elif missing:
            ob.update({"verdict": "inconclusive", "message": "reachability witness never reached: %s" % missing})
        else:
            ob.update({"verdict": "discharged", "distinct": len(paths)})
    except rsparse.Unsupported as e:
        ob.update({"verdict": "inconclusive", "message": "encoder met source it cannot encode: %s" % e})
    return ob


if __name__ == "__main__":
    import sys
    ob = run(sys.argv[1] if len(sys.argv) > 1 else "quick", 0)
    ops = ob.pop("_ops", None)
    print(ob["harness"], ob.get("verdict"), str(ob.get("message", ""))[:900], str(ob.get("counterexample"))[:900], ob.get("queries"), ob.get("solver_s"), str(ob.get("sample"))[:800])
    if ops:
        print(ops)
