"""C18 / C09 — the composed configuration key. A config write or remove travels as ONE string: ConfigKey::build_key() glues
dataId, group and tenant with the separator U+0002 (ClientRequest::ConfigSet / ConfigRemove, snapshot records), and the state
machine splits it again (ConfigKey::from(&str)). The namespace a console handler checked is the tenant of the key it built - the
namespace the state machine acts on is the tenant of the key it parsed.

From source (src/config/core.rs): ConfigKey::{build_key, is_valid}, impl From<&str> for ConfigKey; (src/config/utils.rs)
param_utils::{is_valid, is_valid_char}. dataId, group and tenant are arbitrary strings, represented as the sequence of their separator-free pieces (0, 1 or 2
separators inside each component, symbolic; the pieces themselves are uninterpreted string constants): format! is concatenation
of piece sequences, str::split cuts at the separators. (A first version over z3's sequence theory - IndexOf / SubString - did
not finish in ten minutes.) chars() over a symbolic string is not needed: the validity predicate is evaluated from source on the
one-character string U+0002 and on "a" (concrete runs) and enters the symbolic part as the contract it then has - a valid name
does not contain the separator.

k18_5a  for every key whose dataId and group passed ConfigKey::is_valid (what the v2 add handler demands) and whose tenant does
        not contain the separator (param_utils::check_tenant / the namespace registry's ids): from(build_key(k)) == k.
k18_5b  witness that the gate is needed: without it there are keys whose parsed tenant differs from the built one (reported in
        the evidence, not a violation by itself).
Call sites (rs2smt/c18sites.py, rule "composed-key"): a console handler that hands a key built from request strings to
config_route.set_config / del_config must have passed ConfigKey::is_valid on it.
"""
import time

import z3

from . import rseval, rsparse
from .common import load_program
from .rseval import Struct, Enum, NONE, Some, Ok, Err, Uninterp

FILES = ["src/config/core.rs", "src/config/utils.rs"]
SEP = "\x02"


class SegStr:
    """a string as the sequence of its separator-free pieces: [atom, SEP, atom, ...]; atoms are z3 string constants that do not contain the separator"""
    def __init__(self, parts):
        self.ty = "SegStr"
        self.parts = list(parts)

    def nsep(self):
        return sum(1 for p_ in self.parts if p_ is SEPM)

    def __repr__(self):
        return "".join("<U+0002>" if p_ is SEPM else "{%s}" % p_ for p_ in self.parts)


class _SepMarker:
    def __repr__(self):
        return "SEP"


SEPM = _SepMarker()


class SegSplit:
    def __init__(self, pieces):
        self.ty = "SegSplit"
        self.pieces = pieces


def seg_of(x):
    if isinstance(x, SegStr):
        return x
    if isinstance(x, str):
        out = []
        for i, piece in enumerate(x.split(SEP)):
            if i:
                out.append(SEPM)
            out.append(z3.StringVal(piece))
        return SegStr(out)
    raise rsparse.Unsupported("string value %r in the key code" % (x,))


def same(a, b, pc=()):
    """equality of two segmented strings under the path condition: the shapes must agree and no pair of corresponding pieces may differ (decided by z3 on the pieces)"""
    a, b = seg_of(a), seg_of(b)
    if len(a.parts) != len(b.parts):
        return False
    pairs = []
    for x, y in zip(a.parts, b.parts):
        if (x is SEPM) != (y is SEPM):
            return False
        if x is SEPM or z3.eq(x, y):
            continue
        pairs.append(x != y)
    if not pairs:
        return True
    s = z3.Solver()
    s.set("timeout", 20000)
    s.add(*pc)
    s.add(z3.Or(*pairs))
    r = s.check()
    if r == z3.unknown:
        raise rsparse.Unsupported("z3 gives up on a piece comparison")
    return r == z3.unsat


def install_strings(it):
    def fmt(interp, args):
        f = args[0]
        if not isinstance(f, str):
            raise rsparse.Unsupported("format! with a non-literal format string")
        pieces = f.split("{}")
        if len(pieces) - 1 != len(args) - 1:
            raise rsparse.Unsupported("format! placeholders other than {}")
        out = []

        def is_empty_lit(x):
            return x is not SEPM and z3.is_string_value(x) and x.as_string() == ""

        def push(seg):
            for p_ in seg.parts:
                if out and out[-1] is not SEPM and p_ is not SEPM:
                    # two separator-free pieces side by side are one piece
                    if is_empty_lit(p_):
                        continue
                    out[-1] = p_ if is_empty_lit(out[-1]) else z3.Concat(out[-1], p_)
                else:
                    out.append(p_)
        for i, lit in enumerate(pieces):
            if lit:
                push(seg_of(lit))
            if i < len(args) - 1:
                push(seg_of(args[i + 1]))
        return SegStr(out)
    it.macro_models["format"] = fmt

    def split(interp, recv, args):
        if args[0] != SEP:
            raise rsparse.Unsupported("split on %r" % (args[0],))
        seg = seg_of(recv)
        pieces, cur = [], []
        for p_ in seg.parts:
            if p_ is SEPM:
                pieces.append(SegStr(cur or [z3.StringVal("")]))
                cur = []
            else:
                cur.append(p_)
        pieces.append(SegStr(cur or [z3.StringVal("")]))
        return SegSplit(pieces)
    it.models[("SegStr", "split")] = split
    it.models[("SegSplit", "next")] = lambda interp, recv, args: Some(recv.pieces.pop(0)) if recv.pieces else NONE

    def is_empty(interp, recv, args):
        if recv.nsep() or len(recv.parts) != 1:
            return False
        return recv.parts[0] == z3.StringVal("")
    it.models[("SegStr", "is_empty")] = is_empty
    for nm in ("as_str", "clone", "to_owned", "to_string", "as_ref"):
        it.models[("SegStr", nm)] = lambda interp, recv, args: recv


def run(tier, seed):
    t0 = time.time()
    ob = {"engine": "smt", "harness": "s18_5_composed_key", "encodes_files": FILES, "queries": 0, "solver_s": 0.0, "distinct": 0,
          "encodes": ["ConfigKey::{build_key,is_valid}", "impl From<&str> for ConfigKey", "param_utils::{is_valid,is_valid_char}"],
          "bound": "dataId, group, tenant arbitrary strings with 0..=2 separator characters inside each (pieces uninterpreted); the validity predicate evaluated from source on the separator character, its contract (no separator inside a valid name) used on the symbolic strings"}
    try:
        prog = load_program(FILES)
        it = rseval.Interp(prog)
        it.lenient = True
        install_strings(it)
        shape = {f: z3.BitVec("separators_in_%s" % f, 8) for f in ("data_id", "group", "tenant")}

        def sym_component(f):
            n = 0
            for cand in (0, 1):
                if it.branch(shape[f] == cand):
                    n = cand
                    break
            else:
                n = 2
            parts = []
            for i in range(n + 1):
                if i:
                    parts.append(SEPM)
                parts.append(z3.String("%s_piece%d" % (f, i)))
            return SegStr(parts)
        # the validity predicate on the separator, from source (concrete runs)
        is_valid = prog.fns.get("is_valid")
        if is_valid is None:
            raise rsparse.Unsupported("param_utils::is_valid not found")
        it.models[(None, "is_alphanumeric")] = lambda interp, recv, args: isinstance(recv, str) and recv.isalnum()
        conc = rseval.Interp(prog)
        conc.lenient = False
        conc.models[(None, "is_alphanumeric")] = lambda interp, recv, args: isinstance(recv, str) and recv.isalnum()
        conc.models[(None, "chars")] = lambda interp, recv, args: list(recv)
        res = {}
        for probe in (SEP, "a" + SEP + "b", "a", "G_1-x.y:z"):
            r = conc.explore(lambda probe=probe: conc._invoke(is_valid, [probe]))
            res[probe] = r[0][1] if len(r) == 1 and r[0][2] is None else None
        sep_rejected = res[SEP] is False and res["a" + SEP + "b"] is False and res["a"] is True and res["G_1-x.y:z"] is True
        ob["sample"] = {"is_valid_on_probes": {repr(k): v for k, v in res.items()}}
        if not sep_rejected:
            ob.update({"verdict": "violation", "tags": ["separator-is-a-valid-name-character"],
                       "message": "param_utils::is_valid accepts a name that contains the key separator U+0002 (or rejects a plain name): the validity gate of the config handlers does not keep a composed key inside its namespace",
                       "counterexample": {"is_valid": {repr(k): v for k, v in res.items()}}})
            return [ob]
        valid = []

        def pu_is_valid(interp, args):
            seg = seg_of(args[0])
            # the contract established above: a valid name is not empty and does not contain the separator
            if seg.nsep():
                return False
            b = z3.Bool("valid_%d" % len(valid))
            valid.append((b, seg))
            return b
        it.fn_models["param_utils::is_valid"] = pu_is_valid
        it.fn_models["is_valid"] = pu_is_valid
        from_fn = prog.trait_method("ConfigKey", "from", "From<&str>") or prog.trait_method("ConfigKey", "from", "From")
        if from_fn is None:
            raise rsparse.Unsupported("impl From<&str> for ConfigKey not found")
        it.fn_models["ConfigKey::new"] = lambda interp, args: Struct("ConfigKey", {"data_id": args[0], "group": args[1], "tenant": args[2]})
        it.models[("Option", "unwrap_or")] = None
        del it.models[("Option", "unwrap_or")]

        def thunk(gated):
            del valid[:]
            k = Struct("ConfigKey", {f: sym_component(f) for f in ("data_id", "group", "tenant")})
            if gated:
                if k["tenant"].nsep():
                    raise rseval.PathAbort()   # assumption of k18_5a: the tenant is a namespace id / passed check_tenant
                r = it.call_method("ConfigKey", "is_valid", k, [])
                if not (isinstance(r, Enum) and r.variant == "Ok"):
                    return ("rejected", k, None)
            s_ = it.call_method("ConfigKey", "build_key", k, [])
            k2 = it._invoke(from_fn, [s_], self_ty="ConfigKey")
            return ("parsed", k, k2)
        nq = 0
        viol = None
        witness = None
        gated_ok = 0
        for gated in (True, False):
            paths = it.explore(lambda gated=gated: thunk(gated), max_paths=2000)
            for pc, r, exc in paths:
                if exc is not None:
                    viol = {"message": "panic in the key code: %s" % exc, "tags": ["panic"], "model": {}}
                    break
                kind, k, k2 = r
                if kind != "parsed":
                    continue
                nq += 1
                diffs = [f for f in ("data_id", "group", "tenant") if same(k[f], k2[f], pc) is not True]
                ce = {"built": {f: repr(k[f]) for f in ("data_id", "group", "tenant")}, "parsed": {f: repr(seg_of(k2[f])) for f in ("data_id", "group", "tenant")}}
                if gated:
                    if diffs:
                        viol = {"message": "a key that passed ConfigKey::is_valid does not survive build_key -> from (%s differ): built %s, parsed %s" % (diffs, ce["built"], ce["parsed"]),
                                "tags": ["valid-key-round-trip"], "model": ce}
                        break
                    gated_ok += 1
                elif witness is None and "tenant" in diffs:
                    witness = ce
            if viol:
                break
        ob["queries"] = nq + it.queries
        ob["solver_s"] = round(time.time() - t0, 1)
        ob["sample"]["ungated_key_that_changes_its_tenant"] = witness
        ob["sample"]["opaque_symbols"] = sorted(it.opaque_seen)[:12]
        if viol:
            ob.update({"verdict": "violation", "message": viol["message"], "tags": viol["tags"], "counterexample": viol["model"]})
        elif witness is None or not gated_ok:
            ob.update({"verdict": "inconclusive", "message": "reachability witness never reached: a validated key that round-trips / an unvalidated key whose parsed tenant differs from the built one"})
        else:
            ob.update({"verdict": "discharged", "distinct": nq})
    except rsparse.Unsupported as e:
        ob.update({"verdict": "inconclusive", "message": "encoder met source it cannot encode: %s" % e})
    return [ob]


if __name__ == "__main__":
    for ob in run("quick", 0):
        print(ob["harness"], ob.get("verdict"), str(ob.get("message", ""))[:700], str(ob.get("counterexample"))[:500], ob.get("queries"), ob.get("solver_s"), str(ob.get("sample"))[:900])
