"""C04 across files — the snapshot catalogue and the compaction write order.

s04_4_snapshot_catalogue_crash_points
  Handler<RaftSnapshotRequest>::handle of the RaftSnapshotManager (raftsnapshot.rs), arms CompleteSnapshot and
  InstallSnapshot, evaluated from source. What the handler does to the disk is a journal: `std::fs::remove_file(path)` is
  applied at once, `index_manager.do_send(SaveSnapshots(list))` is the rewrite of the catalogue in the index file. Pre-state:
  a catalogue of 0..=3 (thorough 0..=4) snapshots with increasing ids whose files all exist, the file of the new snapshot
  complete on disk (do_build_snapshot flushes it before it sends CompleteSnapshot: decided by s04_5), end indexes symbolic.
  Oracle, for a process death behind every prefix of the journal and at the end:
    (a) if the on-disk catalogue is not empty, the file of its LAST entry exists (start-up loads exactly that one;
        the logs in front of it may already be split off)
    (b) at the end the on-disk catalogue ends with the new snapshot (same id, same end index) and equals the manager's
        in-memory list; the next snapshot id is not the id of an existing file

s04_5_compaction_write_order
  FileStore::do_log_compaction -> Handler<StateApplyAsyncRequest> (BuildSnapshot) -> StateApplyManager::do_build_snapshot
  from source with the collaborators as recording sinks. Oracle over the emission sequence:
    the writer receives Flush behind the state machine's records and before the snapshot manager is told CompleteSnapshot
    (the catalogue never names a file that is not completely written), and the log manager is told to replace the covered
    entries by the pointer entry only behind CompleteSnapshot (a kill in between leaves either the old log or a catalogued
    snapshot); the range handed to the catalogue carries the id the snapshot manager issued and the last applied index.
"""
import time

import z3

from . import rseval, rsparse
from .common import load_program
from .c01orch import Sink, install_actor_future
from .c08 import variant_of
from .rseval import Struct, Enum, NONE, Some, Ok, Err, Uninterp

FILES = ["src/raft/filestore/raftsnapshot.rs"]
ENUM_FILES = ["src/raft/filestore/raftindex.rs", "src/raft/filestore/model.rs"]
FILES5 = ["src/raft/filestore/core.rs", "src/raft/filestore/raftapply.rs"]
ENUM_FILES5 = ["src/raft/filestore/raftindex.rs", "src/raft/filestore/raftsnapshot.rs", "src/raft/filestore/raftlog/mod.rs"]


def _fname(path):
    return str(path).replace("\\", "/").split("/")[-1]


def catalogue_obligation(tier, seed):
    t0 = time.time()
    sizes = (0, 1, 2, 3) if tier == "quick" else (0, 1, 2, 3, 4)
    ob = {"engine": "smt", "harness": "s04_4_snapshot_catalogue_crash_points", "encodes_files": FILES,
          "encodes": ["Handler<RaftSnapshotRequest>::handle (CompleteSnapshot, InstallSnapshot)", "RaftSnapshotManager::{complete_snapshot,save_snapshot_to_index,install_snapshot,get_next_id,get_snapshot_path}"],
          "bound": "catalogue of %s snapshots (ids 3.., all files on disk) + the new snapshot's file; end indexes symbolic (64-bit); a process death behind every prefix of "
                   "{remove_file, catalogue rewrite}" % (sizes,),
          "queries": 0, "solver_s": 0.0, "distinct": 0}
    try:
        prog = load_program(FILES + ENUM_FILES)
        it = rseval.Interp(prog)
        it.lenient = True
        install_actor_future(it)
        journal = []
        it.fn_models["std::fs::remove_file"] = lambda interp, args: journal.append(("remove", _fname(args[0]))) or Ok(())
        it.fn_models["fs::remove_file"] = it.fn_models["std::fs::remove_file"]
        it.fn_models["remove_file"] = it.fn_models["std::fs::remove_file"]
        it.fn_models["SnapshotReader::init"] = lambda interp, args: Err("no header in the model")
        # std::path: Path::new(base).join(name).to_string_lossy().into_owned() = base/name
        it.fn_models["Path::new"] = lambda interp, args: Struct("Path", {"s": str(args[0])})
        it.models[("Path", "join")] = lambda interp, recv, args: Struct("Path", {"s": recv["s"] + "/" + str(args[0])})
        it.models[("Path", "to_string_lossy")] = lambda interp, recv, args: recv["s"]

        def idx_do_send(interp, recv, args):
            v, payload = variant_of(args[0])
            if v == "SaveSnapshots":
                lst = payload[0] if isinstance(payload, (list, tuple)) and len(payload) == 1 and isinstance(payload[0], list) else payload
                journal.append(("catalogue", [(x["id"], x["end_index"]) for x in lst]))
            else:
                journal.append(("index-other", v))
            return ()
        it.models[("IndexAddr", "do_send")] = idx_do_send
        handle = prog.trait_method("RaftSnapshotManager", "handle", "RaftSnapshotRequest")
        if handle is None:
            raise rsparse.Unsupported("Handler<RaftSnapshotRequest> for RaftSnapshotManager not found")
        new_end = z3.BitVec("new_end_index", 64)
        viol = None
        nq = 0
        npaths = 0
        reached = set()
        removals = set()
        for n in sizes:
            ids = [3 + i for i in range(n)]
            ends = [z3.BitVec("end_%d" % i, 64) for i in range(n)]
            new_id = (ids[-1] + 1) if ids else 1
            for kind in ("CompleteSnapshot", "InstallSnapshot"):
                box = {}

                def thunk():
                    del journal[:]
                    mgr = Struct("RaftSnapshotManager", {"base_path": "data", "snapshots": [Struct("SnapshotRange", {"id": i, "end_index": e}) for i, e in zip(ids, ends)],
                                                         "last_header": NONE, "building": Some(Struct("SnapshotRange", {"id": new_id, "end_index": 0})),
                                                         "index_manager": Some(Sink("IndexAddr", journal)), "is_init": True})
                    box["mgr"] = mgr
                    if kind == "CompleteSnapshot":
                        msg = Enum("RaftSnapshotRequest", "CompleteSnapshot", [Struct("SnapshotRange", {"id": new_id, "end_index": new_end})])
                    else:
                        msg = Enum("RaftSnapshotRequest", "InstallSnapshot", {"end_index": new_end, "snapshot_id": new_id})
                    r = it._invoke(handle, [mgr, msg, "ctx"], self_ty="RaftSnapshotManager")
                    nxt = it._invoke(prog.methods[("RaftSnapshotManager", "get_next_id")], [mgr], self_ty="RaftSnapshotManager")
                    return (r, list(journal), [(x["id"], x["end_index"]) for x in mgr["snapshots"]], nxt)
                paths = it.explore(thunk, max_paths=500)
                s = z3.Solver()
                for pc, rr, exc in paths:
                    npaths += 1
                    if exc is not None:
                        viol = {"message": "panic while a snapshot is completed: %s" % exc, "tags": ["panic"], "model": {"catalogue_ids": ids, "request": kind}}
                        break
                    r, jr, mem, nxt = rr
                    files = set("snapshot_%d" % i for i in ids) | {"snapshot_%d" % new_id}
                    files0 = set(files)
                    disk_cat = [(i, e) for i, e in zip(ids, ends)]
                    states = [(0, set(files), list(disk_cat))]
                    for k, ev in enumerate(jr):
                        if ev[0] == "remove":
                            files.discard(ev[1])
                        elif ev[0] == "catalogue":
                            disk_cat = list(ev[1])
                        states.append((k + 1, set(files), list(disk_cat)))
                    for k, fs, cat in states:
                        nq += 1
                        if cat and isinstance(cat[-1][0], int) and ("snapshot_%d" % cat[-1][0]) not in fs:
                            viol = {"message": "after a process death behind file mutation %d of %d of %s (catalogue of %d) the on-disk catalogue ends with snapshot %d whose file is gone "
                                               "(files left: %s): the node cannot load any snapshot and the log in front of it is already split off"
                                               % (k, len(jr), kind, n, cat[-1][0], sorted(fs)), "tags": ["catalogued-snapshot-missing"],
                                    "model": {"catalogue_ids": ids, "request": kind, "journal": [str(e) for e in jr], "crash_behind": k}}
                            break
                    if viol:
                        break
                    reached.add((n, kind))
                    if n >= 2 and any(ev[0] == "remove" and ev[1] in files0 for ev in jr):
                        removals.add((n, kind))
                    # end state
                    _k, fs, cat = states[-1]
                    if not cat or cat[-1][0] != new_id:
                        viol = {"message": "%s of snapshot %d (catalogue of %d): the catalogue written to the index file does not end with the new snapshot (%s)" % (kind, new_id, n, [c[0] for c in cat]),
                                "tags": ["catalogue-not-updated"], "model": {"catalogue_ids": ids, "request": kind, "journal": [str(e) for e in jr]}}
                        break
                    s.push()
                    s.add(*pc)
                    s.add(rseval.to_bv(cat[-1][1]) != new_end)
                    nq += 1
                    if s.check() == z3.sat:
                        viol = {"message": "%s: the catalogue records an end index that differs from the snapshot's" % kind, "tags": ["catalogue-wrong-index"],
                                "model": {"catalogue_ids": ids, "request": kind}}
                    s.pop()
                    if viol:
                        break
                    if [c[0] for c in cat] != [c[0] for c in mem]:
                        viol = {"message": "%s: the manager's in-memory catalogue %s differs from the one it saved %s" % (kind, [c[0] for c in mem], [c[0] for c in cat]),
                                "tags": ["catalogue-memory-differs"], "model": {"catalogue_ids": ids, "request": kind}}
                        break
                    if isinstance(nxt, Enum) and nxt.variant == "Ok" and isinstance(nxt.payload[0], int) and ("snapshot_%d" % nxt.payload[0]) in fs:
                        viol = {"message": "%s: the next snapshot id %d is the id of a file that still exists" % (kind, nxt.payload[0]), "tags": ["snapshot-id-reused"],
                                "model": {"catalogue_ids": ids, "request": kind}}
                        break
                if viol:
                    break
            if viol:
                break
        ob["queries"] = nq + it.queries
        ob["solver_s"] = round(time.time() - t0, 1)
        ob["sample"] = {"paths_explored": npaths, "configurations_reaching_the_end": len(reached), "configurations_removing_an_outdated_file": len(removals), "opaque_symbols": sorted(it.opaque_seen)[:20]}
        if viol:
            ob.update({"verdict": "violation", "message": viol["message"], "tags": viol["tags"], "counterexample": viol["model"]})
        elif not removals:
            ob.update({"verdict": "inconclusive", "message": "reachability witness never reached: an outdated snapshot file of the model's disk is removed (path model and source disagree?)"})
        elif len(reached) != 2 * len(sizes):
            ob.update({"verdict": "inconclusive", "message": "reachability witness never reached: completion for every catalogue size (%d of %d)" % (len(reached), 2 * len(sizes))})
        else:
            ob.update({"verdict": "discharged", "distinct": nq})
    except rsparse.Unsupported as e:
        ob.update({"verdict": "inconclusive", "message": "encoder met source it cannot encode: %s" % e})
    return ob


def order_obligation(tier, seed):
    t0 = time.time()
    ob = {"engine": "smt", "harness": "s04_5_compaction_write_order", "encodes_files": FILES5,
          "encodes": ["FileStore::do_log_compaction", "Handler<StateApplyAsyncRequest>::handle (BuildSnapshot)", "StateApplyManager::do_build_snapshot"],
          "bound": "every last-applied index / term (64-bit), snapshot id issued by the manager symbolic (0 = reuse of the existing snapshot excluded by the manager: ids start at 1)",
          "queries": 0, "solver_s": 0.0, "distinct": 0}
    try:
        prog = load_program(FILES5 + ENUM_FILES5)
        it = rseval.Interp(prog)
        it.lenient = True
        install_actor_future(it)
        events = []
        last_applied, term, sid = z3.BitVec("last_applied", 64), z3.BitVec("last_term", 64), z3.BitVec("snapshot_id", 64)
        box = {}
        handle = prog.trait_method("StateApplyManager", "handle", "StateApplyAsyncRequest")
        if handle is None:
            raise rsparse.Unsupported("Handler<StateApplyAsyncRequest> for StateApplyManager not found")

        def log_send(interp, recv, args):
            v, payload = variant_of(args[0])
            recv.events.append(("LogAddr", v, payload))
            if v == "Query":
                return Ok(Ok(Enum("RaftLogResponse", "QueryResult", [[Struct("LogRecordDto", {"index": last_applied, "term": term, "tree": "", "value": []})]])))
            return Ok(Ok(Enum("RaftLogResponse", "None", None)))

        def index_send(interp, recv, args):
            v, payload = variant_of(args[0])
            recv.events.append(("IndexAddr", v, payload))
            if v == "LoadMember":
                return Ok(Ok(Enum("RaftIndexResponse", "MemberShip", {"member": [1, 2], "member_after_consensus": [], "node_addrs": {}})))
            return Ok(Ok(Enum("RaftIndexResponse", "None", None)))

        def snap_send(interp, recv, args):
            v, payload = variant_of(args[0])
            recv.events.append(("SnapAddr", v, payload))
            if v == "NewSnapshot":
                return Ok(Ok(Enum("RaftSnapshotResponse", "NewSnapshot", [Sink("WriterAddr", recv.events), sid, "data/snapshot_new"])))
            return Ok(Ok(Enum("RaftSnapshotResponse", "None", None)))

        def writer_send(interp, recv, args):
            v, payload = variant_of(args[0])
            recv.events.append(("WriterAddr", v, payload))
            return Ok(Ok(Enum("SnapshotWriterResponse", "None", None)))
        it.models[("LogAddr", "send")] = log_send
        it.models[("IndexAddr", "send")] = index_send
        it.models[("IndexAddr", "do_send")] = lambda interp, recv, args: recv.events.append(("IndexAddr", variant_of(args[0])[0], None)) or ()
        it.models[("SnapAddr", "send")] = snap_send
        it.models[("WriterAddr", "send")] = writer_send
        it.models[("WriterAddr", "clone")] = lambda interp, recv, args: recv
        it.models[("DataWrap", "build_snapshot")] = lambda interp, recv, args: recv.events.append(("DataWrap", "build_snapshot", None)) or Ok(())
        it.models[("DataWrap", "clone")] = lambda interp, recv, args: recv

        def apply_send(interp, recv, args):
            r = interp._invoke(handle, [box["apply_actor"], args[0], "ctx"], self_ty="StateApplyManager")
            if isinstance(r, Struct) and r.ty == "ActorFut":
                r = r["v"]
            return Ok(r)
        it.models[("ApplyAddr", "send")] = apply_send
        it.models[("ActorFut", "map")] = lambda interp, recv, args: Struct("ActorFut", {"v": interp.call_value(args[0], [recv["v"], recv["act"], "ctx"]), "act": recv["act"]})
        it.fn_models["Box::pin"] = lambda interp, args: args[0]
        it.fn_models["StoreUtils::entry_to_record"] = lambda interp, args: Ok(Struct("LogRecordDto", {"pointer": True}))
        it.fn_models["Entry::new_snapshot_pointer"] = lambda interp, args: Struct("Entry", {"index": args[0], "term": args[1], "id": args[2]})
        it.fn_models["vec_to_set"] = lambda interp, args: list(args[0])

        class OpenOpts:
            pass
        it.fn_models["OpenOptions::new"] = lambda interp, args: Struct("OpenOptions", {})
        it.models[("OpenOptions", "read")] = lambda interp, recv, args: recv
        it.models[("OpenOptions", "open")] = lambda interp, recv, args: events.append(("FS", "open-snapshot-for-raft", None)) or Ok(Struct("File", {}))
        fin = prog.trait_method("FileStore", "do_log_compaction", "RaftStorage") or prog.methods.get(("FileStore", "do_log_compaction"))
        if fin is None:
            raise rsparse.Unsupported("FileStore::do_log_compaction not found")

        def thunk():
            del events[:]
            box["apply_actor"] = Struct("StateApplyManager", {"index_manager": Some(Sink("IndexAddr", events)), "snapshot_manager": Some(Sink("SnapAddr", events)),
                                                              "log_manager": Some(Sink("LogAddr", events)), "data_wrap": Some(Sink("DataWrap", events)),
                                                              "snapshot_next_index": 1, "last_applied_log": last_applied})
            store = Struct("FileStore", {"node_id": 1, "index_manager": Sink("IndexAddr", events), "snapshot_manager": Sink("SnapAddr", events), "log_manager": Sink("LogAddr", events),
                                         "apply_manager": Sink("ApplyAddr", events), "close_write": False})
            r = it._invoke(fin, [store], self_ty="FileStore")
            return (r, list(events))
        rng = [z3.UGE(sid, 1), z3.ULT(last_applied, (1 << 64) - 1)]
        it.solver.push()
        it.solver.add(*rng)
        paths = it.explore(thunk, max_paths=2000)
        it.solver.pop()
        s = z3.Solver()
        s.add(*rng)
        nq = 0
        viol = None
        covered = 0

        def ask(pc, cond, msg, tag, evs):
            nonlocal nq
            s.push()
            s.add(*pc)
            if cond is not True:
                s.add(cond)
            nq += 1
            out = None
            if s.check() == z3.sat:
                m = s.model()
                out = {"message": msg, "tags": [tag], "model": {"last_applied": m.eval(last_applied, model_completion=True).as_long(), "snapshot_id": m.eval(sid, model_completion=True).as_long(),
                                                                   "emissions": ["%s <- %s" % (e[0], e[1]) for e in evs]}}
            s.pop()
            return out
        for pc, rr, exc in paths:
            if exc is not None:
                viol = {"message": "panic during log compaction: %s" % exc, "tags": ["panic"], "model": {}}
                break
            r, evs = rr
            if not (isinstance(r, Enum) and r.variant == "Ok"):
                continue
            covered += 1
            pos = {}
            for i, e in enumerate(evs):
                pos.setdefault((e[0], e[1]), []).append(i)
            build = pos.get(("DataWrap", "build_snapshot"), [])
            flush = pos.get(("WriterAddr", "Flush"), [])
            comp = pos.get(("SnapAddr", "CompleteSnapshot"), [])
            ptr = pos.get(("LogAddr", "BuildSnapshotPointerLog"), [])
            if len(comp) != 1:
                viol = ask(pc, True, "a log compaction succeeds but the snapshot catalogue is told about the new snapshot %d times" % len(comp), "compaction-not-catalogued", evs)
            elif not build or not flush or not (max(build) < min(flush) < comp[0]):
                viol = ask(pc, True, "the snapshot catalogue is told about the new snapshot before its file is completely written and flushed (records, then Flush, then CompleteSnapshot)",
                           "catalogued-before-flush", evs)
            elif len(ptr) != 1:
                viol = ask(pc, True, "a log compaction with a new snapshot does not replace the covered log entries by the pointer entry (%d times)" % len(ptr), "pointer-entry-missing", evs)
            elif ptr[0] < comp[0]:
                viol = ask(pc, True, "the covered log entries are replaced by the pointer entry before the catalogue names the snapshot: a kill in between loses applied entries",
                           "log-replaced-before-catalogue", evs)
            else:
                payload = evs[comp[0]][2]
                rngv = payload[0] if isinstance(payload, (list, tuple)) else payload
                if isinstance(rngv, Struct):
                    viol = ask(pc, rseval.to_bv(rngv["id"]) != sid, "the catalogue is given another snapshot id than the one the snapshot manager issued for the file", "catalogue-wrong-id", evs) \
                        or ask(pc, rseval.to_bv(rngv["end_index"]) != last_applied, "the catalogue records an end index that differs from the last applied index the snapshot covers", "catalogue-wrong-index", evs)
            if viol:
                break
        ob["queries"] = nq + it.queries
        ob["solver_s"] = round(time.time() - t0, 1)
        ob["sample"] = {"paths_explored": len(paths), "paths_reaching_the_end_of_the_compaction": covered, "opaque_symbols": sorted(it.opaque_seen)[:20]}
        if viol:
            ob.update({"verdict": "violation", "message": viol["message"], "tags": viol["tags"], "counterexample": viol["model"]})
        elif covered < 1:
            ob.update({"verdict": "inconclusive", "message": "reachability witness never reached: a compaction that succeeds"})
        else:
            ob.update({"verdict": "discharged", "distinct": nq})
    except rsparse.Unsupported as e:
        ob.update({"verdict": "inconclusive", "message": "encoder met source it cannot encode: %s" % e})
    return ob


def run(tier, seed):
    return [catalogue_obligation(tier, seed), order_obligation(tier, seed)]


if __name__ == "__main__":
    import sys
    for ob in run(sys.argv[1] if len(sys.argv) > 1 else "quick", 0):
        print(ob["harness"], ob.get("verdict"), str(ob.get("message", ""))[:700], str(ob.get("counterexample"))[:600], ob.get("queries"), ob.get("solver_s"), str(ob.get("sample"))[:400])
