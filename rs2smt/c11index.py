"""C11 at the level of the NamingActor, across services: the namespace / group index and the clean-up of empty services.

NamingActor::{update_instance, remove_instance, create_empty_service, clear_empty_service, clear_one_empty_service,
remove_empty_service} (src/naming/core.rs), NamespaceIndex / ServiceIndex::{insert_service, remove_service}
(service_index.rs), Service::{update_instance, remove_instance} (service.rs) and the TimeoutSet of the dependency, evaluated
from source; the clock (now_millis / Local::now) is a model variable.

Scenario: three services (two in namespace n1, one in n2), one address each; every history of N steps over
  reg(s)     HTTP registration of the address of service s, healthy / ephemeral flags symbolic
  dereg(s)   deregistration of that address
  tick       the clock moves to a later grid point and the 2-second timer's clean-up runs (clear_empty_service)
  drop(s)    the console asks to remove service s (NamingCmd::RemoveService -> remove_empty_service)
Oracle after every step, against a reference registry (service -> registered?):
  (a) a service that has an instance is still in the service map, with that instance, whatever its health
      ("empty services are only dropped when they really have no instances"); drop(s) on such a service is refused
  (b) the services of the map and the services listed by the namespace / group index are the same set (each listed once), the
      index's counters equal the number of listed services, a namespace is listed iff it has a service
"""
import time

import z3

from . import rseval, rsparse
from .c11actor import load, new_actor, make_interp
from .c11 import pick
from .common import concretize
from .rseval import Struct, Enum, NONE, Some, Uninterp

FILES = ["src/naming/core.rs", "src/naming/service.rs", "src/naming/model.rs", "src/naming/service_index.rs"]
BASE = 1_700_000_000_000
GRID = [BASE + x for x in (0, 20_000, 45_000, 100_000, 200_000)]
SERVICES = [("n1", "g", "a"), ("n1", "g", "b"), ("n2", "g", "a")]


def key_of(s):
    return Struct("ServiceKey", {"namespace_id": s[0], "group_name": s[1], "service_name": s[2]})


def skey():
    return Struct("InstanceShortKey", {"ip": "1.1.1.1", "port": 1})


def index_listing(actor):
    """[(namespace, group, service)] as the index lists them + counter problems"""
    idx = actor["namespace_index"]
    out = []
    problems = []
    total = 0
    for ns, sidx in idx["namespace_group"].items():
        cnt = 0
        for g, names in sidx["group_service"].items():
            if not names:
                problems.append("group %s of namespace %s is listed with no service" % (g, ns))
            for n in names:
                out.append((ns, g, n))
                cnt += 1
        if cnt == 0:
            problems.append("namespace %s is listed with no service" % ns)
        if sidx["service_size"] != cnt:
            problems.append("namespace %s counts %s services, %d are listed" % (ns, sidx["service_size"], cnt))
        total += cnt
    if idx["service_size"] != total:
        problems.append("the index counts %s services, %d are listed" % (idx["service_size"], total))
    return out, problems


def run(tier, seed):
    t0 = time.time()
    n = 3 if tier == "quick" else 4
    ob = {"engine": "smt", "harness": "s11_3_service_index_and_cleanup", "encodes_files": FILES, "queries": 0, "solver_s": 0.0, "distinct": 0,
          "encodes": ["NamingActor::{update_instance,remove_instance,create_empty_service,clear_empty_service,clear_one_empty_service,remove_empty_service}",
                      "NamespaceIndex::{insert_service,remove_service,do_insert_service,do_remove_service}", "ServiceIndex::{insert_service,remove_service}",
                      "Service::{update_instance,remove_instance}", "TimeoutSet::{add,timeout}"],
          "bound": "three services (namespaces n1, n1, n2), one address each; every history of %d steps over {register (healthy / ephemeral symbolic), deregister, timer clean-up at a later "
                   "point of the clock grid start + %s s (service time-out 30 s), console removal of a service}; each of the other steps optionally behind a timer round at the next grid point" % (n, [(g - BASE) // 1000 for g in GRID])}
    try:
        prog = load()
        clock = {"now": BASE}
        it = make_interp(prog)
        it.fn_models["now_millis"] = lambda interp, args: clock["now"]
        it.fn_models["now_millis_i64"] = lambda interp, args: clock["now"]
        it.models[("DateTime", "timestamp_millis")] = lambda interp, recv, args: clock["now"]
        opv = [z3.BitVec("op%d" % i, 8) for i in range(n)]
        svcv = [z3.BitVec("svc%d" % i, 8) for i in range(n)]
        timev = [z3.BitVec("time%d" % i, 8) for i in range(n)]
        advv = [z3.Bool("timer_round_in_front_of_step%d" % i) for i in range(n)]
        healthy = [z3.Bool("s%d_healthy" % i) for i in range(n)]
        eph = [z3.Bool("s%d_ephemeral" % i) for i in range(n)]
        covers = {"an empty service is dropped by the timer": 0, "a service whose only instance is unhealthy survives a due clean-up": 0,
                  "a namespace leaves the index with its last service": 0, "console removal of a service with an instance is refused": 0,
                  "console removal of an empty service": 0, "time passes between two operations of one history step": 0}
        ops_box = [[]]

        def instance(s, h, e):
            return Struct("Instance", {
                "id": "", "ip": "1.1.1.1", "port": 1, "weight": 1.0, "enabled": True, "healthy": h, "ephemeral": e, "cluster_name": "DEFAULT",
                "service_name": s[2], "group_name": s[1], "group_service": "%s@@%s" % (s[1], s[2]), "metadata": {}, "last_modified_millis": 0, "register_time": 0,
                "namespace_id": s[0], "app_name": "", "from_grpc": False, "from_cluster": 0, "client_id": ""})

        def check(actor, ref, log):
            smap = actor["service_map"]
            for s, present in ref.items():
                if not present:
                    continue
                svc = smap.get(key_of(s))
                if svc is None:
                    return ("violation", "service %s/%s/%s has a registered instance but is dropped from the service map" % s, log, "service-with-instances-dropped")
                if skey() not in svc["instances"]:
                    return ("violation", "the registered instance of service %s/%s/%s is gone" % s, log, "instance-lost")
            listed, problems = index_listing(actor)
            if problems:
                return ("violation", "namespace / group index: %s" % problems[0], log, "index-counter")
            in_map = sorted((k["namespace_id"], k["group_name"], k["service_name"]) for k in smap.keys())
            if sorted(listed) != in_map:
                missing = [s for s in in_map if s not in listed]
                extra = [s for s in listed if s not in in_map]
                return ("violation", "the namespace / group index lists %s, the service map holds %s (not listed: %s, listed without data: %s)" % (sorted(listed), in_map, missing, extra), log,
                        "index-differs-from-map")
            if len(set(listed)) != len(listed):
                return ("violation", "a service is listed twice in the namespace / group index", log, "index-duplicate")
            return None

        def do_tick(actor, t, rec, log, ref, unhealthy_only):
            clock["now"] = t
            before = set((k["namespace_id"], k["group_name"], k["service_name"]) for k in actor["service_map"].keys())
            ns_before = set(actor["namespace_index"]["namespace_group"].keys())
            it.call_method("NamingActor", "clear_empty_service", actor, [])
            rec.append({"op": "tick", "at_s": (t - BASE) // 1000})
            log.append(("tick", "+%ds" % ((t - BASE) // 1000)))
            after = set((k["namespace_id"], k["group_name"], k["service_name"]) for k in actor["service_map"].keys())
            if before - after:
                covers["an empty service is dropped by the timer"] += 1
            if set(actor["namespace_index"]["namespace_group"].keys()) != ns_before:
                covers["a namespace leaves the index with its last service"] += 1
            for s in SERVICES:
                if ref[s] and unhealthy_only[s] and s in after and t >= BASE + 100_000:
                    covers["a service whose only instance is unhealthy survives a due clean-up"] += 1

        def thunk():
            r = inner()
            return (r, list(ops_box[0]))

        def inner():
            actor = new_actor(it)
            clock["now"] = BASE
            rec = ops_box[0] = []
            ref = {s: False for s in SERVICES}
            unhealthy_only = {s: False for s in SERVICES}
            log = []
            for i in range(n):
                op = pick(it, opv[i], ["reg", "dereg", "tick", "drop"])
                if op == "tick":
                    t = pick(it, timev[i], GRID[1:])
                    if t <= clock["now"]:
                        raise rseval.PathAbort()
                    do_tick(actor, t, rec, log, ref, unhealthy_only)
                else:
                    if it.branch(advv[i]):
                        later = [g for g in GRID if g > clock["now"]]
                        if not later:
                            raise rseval.PathAbort()
                        do_tick(actor, later[0], rec, log, ref, unhealthy_only)
                        bad = check(actor, ref, log)
                        if bad:
                            return bad
                        covers["time passes between two operations of one history step"] += 1
                    s = pick(it, svcv[i], SERVICES)
                    if op == "reg":
                        h = it.branch(healthy[i])
                        e = it.branch(eph[i])
                        it.call_method("NamingActor", "update_instance", actor, [key_of(s), instance(s, h, e), NONE, False, NONE])
                        ref[s] = True
                        unhealthy_only[s] = not h
                        rec.append({"op": "reg", "service": list(s), "healthy": h, "ephemeral": e})
                        log.append(("reg", "/".join(s), "healthy" if h else "unhealthy", "ephemeral" if e else "persistent"))
                    elif op == "dereg":
                        it.call_method("NamingActor", "remove_instance", actor, [key_of(s), skey(), NONE])
                        ref[s] = False
                        rec.append({"op": "dereg", "service": list(s)})
                        log.append(("dereg", "/".join(s)))
                    else:
                        r = it.call_method("NamingActor", "remove_empty_service", actor, [key_of(s)])
                        rec.append({"op": "drop", "service": list(s)})
                        log.append(("drop", "/".join(s)))
                        ok = isinstance(r, Enum) and r.variant == "Ok"
                        if ref[s]:
                            if ok:
                                return ("violation", "the console's removal of service %s/%s/%s is accepted although it has a registered instance" % s, log, "service-with-instances-dropped")
                            covers["console removal of a service with an instance is refused"] += 1
                        elif ok and key_of(s) not in actor["service_map"]:
                            covers["console removal of an empty service"] += 1
                bad = check(actor, ref, log)
                if bad:
                    return bad
            return ("ok", None, log, None)
        paths = it.explore(thunk, max_paths=400000)
        s = z3.Solver()
        viol = None
        for pc, rr, exc in paths:
            if exc is not None:
                viol = {"message": "panic in the naming actor: %s" % exc, "tags": ["panic"], "model": {}}
                break
            r, ops = rr
            if r[0] == "violation":
                s.push()
                s.add(*pc)
                if s.check() == z3.sat:
                    viol = {"message": r[1], "tags": [r[3]], "model": {"history": [list(map(str, e)) for e in r[2]]}, "ops": concretize(ops, s.model())}
                s.pop()
                if viol:
                    break
        import random
        rnd = random.Random(seed)
        okp = [(pc, rr[1]) for pc, rr, exc in paths if exc is None and rr[0][0] == "ok"]
        hist = []
        for pc, ops in rnd.sample(okp, min(12 if tier == "quick" else 40, len(okp))):
            s.push()
            s.add(*pc)
            if s.check() == z3.sat:
                hist.append({"ops": concretize(ops, s.model())})
            s.pop()
        ob["_validate"] = hist
        ob["queries"] = it.queries
        ob["solver_s"] = round(time.time() - t0, 1)
        ob["sample"] = {"paths_explored": len(paths), "opaque_symbols": sorted(it.opaque_seen)[:20], "covers": covers}
        missing = [c for c, k in covers.items() if k == 0]
        if viol:
            ob.update({"verdict": "violation", "message": viol["message"], "tags": viol["tags"], "counterexample": viol["model"], "_ops": viol.get("ops")})
        elif missing:
            ob.update({"verdict": "inconclusive", "message": "reachability witness never reached: %s" % missing})
        else:
            ob.update({"verdict": "discharged", "distinct": len(paths)})
    except rsparse.Unsupported as e:
        ob.update({"verdict": "inconclusive", "message": "encoder met source it cannot encode: %s" % e})
    return ob


if __name__ == "__main__":
    import sys
    ob = run(sys.argv[1] if len(sys.argv) > 1 else "quick", 0)
    ops = ob.pop("_ops", None)
    ob.pop("_validate", None)
    print(ob["harness"], ob.get("verdict"), str(ob.get("message", ""))[:700], str(ob.get("counterexample"))[:900], ob.get("queries"), ob.get("solver_s"), str(ob.get("sample"))[:800])
    if ops:
        print(ops)
