"""C12 — the instance query under the protection threshold (what gRPC service queries / subscriptions and pushes use).

NamingActor::{get_service_info, get_instances_and_metadata} (src/naming/core.rs), Service::{get_instance_list,
get_all_instances, get_metadata} (service.rs) and InstanceFilterUtils::default_service_filter (filter.rs) evaluated from source.
State: one service with three addresses whose enabled / healthy flags are symbolic (an address may also be absent); the
service's protection threshold is one of {0, 0.5, 0.8}; the query asks healthy-only or all.

Oracle (the property's wording): let E be the enabled registered instances and H the healthy ones among them. If E is not empty
and |H| / |E| <= threshold, the protection threshold is reached: the query returns every instance of E and says so. Otherwise it
returns H when healthy-only is requested, E when not. No disabled, absent or foreign address is ever returned.
"""
import os
import time

import z3

from . import rseval, rsparse
from .c11 import load as load_service
from .c11actor import new_actor, SKEY, make_interp
from .common import REPO
from .rseval import Struct, Enum, NONE, Some, Uninterp

FILES = ["src/naming/core.rs", "src/naming/service.rs", "src/naming/filter.rs", "src/naming/model.rs"]
THRESHOLDS = [0.0, 0.5, 0.8]
# get_service_info: gRPC service query / subscription / push; get_instance_list: HTTP /v1/ns/instance/list (QueryList, QueryListString);
# get_instance_page: console instance page
ENTRIES = ["get_service_info", "get_instance_list", "get_instance_page"]


def load():
    prog = load_service()
    for f in ("src/naming/core.rs", "src/naming/service_index.rs", "src/naming/filter.rs"):
        prog.add_items(rsparse.parse_file(os.path.join(REPO, f)), f)
    return prog


def pick(it, var, options):
    for k, o in enumerate(options[:-1]):
        if it.branch(var == k):
            return o
    return options[-1]


def run(tier, seed):
    t0 = time.time()
    ob = {"engine": "smt", "harness": "s12_3_query_protection_threshold", "encodes_files": FILES, "queries": 0, "solver_s": 0.0, "distinct": 0,
          "encodes": ["NamingActor::{get_service_info,get_instances_and_metadata,get_instance_list,get_instance_page}", "Service::{get_instance_list,get_all_instances,get_metadata}", "InstanceFilterUtils::{default_service_filter,default_instance_filter}"],
          "bound": "one service, 3 addresses each absent / registered with symbolic enabled and healthy flags; protection threshold in %s; healthy-only or not; three entry points (service info, instance list, instance page)" % THRESHOLDS}
    try:
        prog = load()
        it = make_interp(prog)
        it.fn_models["NamingUtils::split_filters"] = lambda interp, args: []
        # get_instance_page sorts by get_short_key() (ip, port): modelled on the concrete addresses of the scenario
        it.models[(None, "sort_by")] = lambda interp, recv, args: recv.sort(key=lambda x: (x["ip"], x["port"])) or ()
        present = [z3.Bool("addr%d_registered" % i) for i in range(3)]
        enabled = [z3.Bool("addr%d_enabled" % i) for i in range(3)]
        healthy = [z3.Bool("addr%d_healthy" % i) for i in range(3)]
        thv, only_h = z3.BitVec("threshold_choice", 8), z3.Bool("healthy_only")
        entry = z3.BitVec("entry_point", 8)
        entry_seen = {}
        covers = {"protection threshold reached": 0, "healthy-only without protection": 0}

        def thunk():
            actor = new_actor(it)
            it.call_method("NamingActor", "create_empty_service", actor, [SKEY])
            svc = actor["service_map"][SKEY]
            th = pick(it, thv, THRESHOLDS)
            svc["protect_threshold"] = th
            state = {}
            for i in range(3):
                if not it.branch(present[i]):
                    continue
                e, h = it.branch(enabled[i]), it.branch(healthy[i])
                key = Struct("InstanceShortKey", {"ip": "1.1.1.1", "port": i + 1})
                svc["instances"][key] = Struct("Instance", {
                    "id": "1.1.1.1#%d" % (i + 1), "ip": "1.1.1.1", "port": i + 1, "weight": 1.0, "enabled": e, "healthy": h, "ephemeral": True, "cluster_name": "DEFAULT",
                    "service_name": "svc", "group_name": "g", "group_service": "g@@svc", "metadata": {}, "last_modified_millis": 0, "register_time": 0,
                    "namespace_id": "public", "app_name": "", "from_grpc": False, "from_cluster": 0, "client_id": ""})
                state[i + 1] = (e, h)
            svc["instance_size"] = len(state)
            oh = it.branch(only_h)
            ep = pick(it, entry, ENTRIES)
            reach = None
            if ep == "get_service_info":
                info_ = it.call_method("NamingActor", "get_service_info", actor, [SKEY, "", oh])
                hosts = info_["hosts"]
                got = sorted(x["port"] for x in hosts.payload[0]) if isinstance(hosts, Enum) and hosts.variant == "Some" else None
                reach = info_["reach_protection_threshold"]
            elif ep == "get_instance_list":
                got = sorted(x["port"] for x in it.call_method("NamingActor", "get_instance_list", actor, [SKEY, "", oh]))
            else:
                total, page = it.call_method("NamingActor", "get_instance_page", actor, [SKEY, "", oh, 10, 1])
                got = [x["port"] for x in page]
                if got != sorted(got):
                    return ("violation", "%s: the instance page is not in address order: %s" % (ep, got), "query-filter")
                if total != len(got):
                    return ("violation", "%s: the instance page reports total %s and lists %d instances" % (ep, total, len(got)), "query-filter")
            E = sorted(p for p, (e, h) in state.items() if e)
            H = sorted(p for p, (e, h) in state.items() if e and h)
            protected = bool(E) and (len(H) / len(E)) <= th
            want = E if protected else (H if oh else E)
            what = "%s, threshold %s, healthy-only=%s, registered (enabled, healthy): %s" % (ep, th, oh, state)
            entry_seen[ep] = entry_seen.get(ep, 0) + 1
            if got is None:
                return ("violation", "the query returns no host list (%s)" % what, "query-no-hosts")
            if got != want:
                extra = [p for p in got if p not in state or not state[p][0]]
                tag = "query-returns-disabled-or-foreign" if extra else ("protection-threshold-ignored" if protected else "query-filter")
                return ("violation", "the query returns addresses %s, expected %s (%s)" % (got, want, what), tag)
            if reach is not None and bool(reach) != protected and isinstance(reach, bool):
                return ("violation", "the query %s that the protection threshold is reached (%s)" % ("does not report" if protected else "reports", what), "protection-flag")
            if protected:
                covers["protection threshold reached"] += 1
            elif oh and len(H) < len(E):
                covers["healthy-only without protection"] += 1
            return ("ok", None, None)
        paths = it.explore(thunk, max_paths=20000)
        viol = None
        for pc, r, exc in paths:
            if exc is not None:
                viol = {"message": "panic in the instance query: %s" % exc, "tags": ["panic"]}
                break
            if r[0] == "violation":
                viol = {"message": r[1], "tags": [r[2]]}
                break
        ob["queries"] = it.queries
        ob["solver_s"] = round(time.time() - t0, 1)
        ob["sample"] = {"paths_explored": len(paths), "covers": covers, "opaque_symbols": sorted(it.opaque_seen)[:12]}
        missing = [c for c, n in covers.items() if n == 0] + ["entry point %s" % e for e in ENTRIES if not entry_seen.get(e) and not viol]
        if viol:
            ob.update({"verdict": "violation", "message": viol["message"], "tags": viol["tags"], "counterexample": {"state": viol["message"]}})
        elif missing:
            ob.update({"verdict": "inconclusive", "message": "reachability witness never reached: %s" % missing})
        else:
            ob.update({"verdict": "discharged", "distinct": len(paths)})
    except rsparse.Unsupported as e:
        ob.update({"verdict": "inconclusive", "message": "encoder met source it cannot encode: %s" % e})
    return ob


if __name__ == "__main__":
    ob = run("quick", 0)
    print(ob["harness"], ob.get("verdict"), str(ob.get("message", ""))[:700], ob.get("queries"), ob.get("solver_s"), str(ob.get("sample"))[:400])
