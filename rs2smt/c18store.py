"""C18 — how a namespace restriction travels from the administrator's request into the privilege group of a new session.

UserManager::{add_user, update_user} (src/user/mod.rs), UserDo::build_namespace_privilege and `impl From<UserDo> for UserDto`
(src/user/model.rs), PrivilegeGroup::{all, new, get_flags} and NamespacePrivilegeGroup::check_permission
(src/common/model/privilege.rs) evaluated from source. The raft table route is a one-table store (Set stores the record,
GetByArcKey returns it; UserDo::to_bytes / from_bytes are a copy - the prost codec is outside), the cache manager is absent.

Scenario: an administrator creates a user with privilege parameters P and then updates it with parameters Q; every field of P
and Q is absent or present (lists: absent, empty, [a], [a, b] / [b]; flags: absent or an arbitrary Boolean). A new login then
builds its session group from the stored record (UserDto::from -> namespace_privilege -> NamespacePrivilegeGroup::new).
Oracle: for every namespace string the session's check_permission equals that of the reference group
  add:    PrivilegeGroup::all() with both lists replaced by P's (absent = no list), flags replaced where present
  update: every field present in Q replaces the stored one - in particular a list that is present but EMPTY empties it
so that a restriction can be both imposed and revoked, and the stored record never grants more than the last request says.
"""
import copy
import os
import re
import time

import z3

from . import rseval, rsparse
from .common import load_program, REPO
from .rseval import Struct, Enum, NONE, Some, Ok, Err, Uninterp

FILES = ["src/user/mod.rs", "src/user/model.rs", "src/common/model/privilege.rs", "src/namespace/mod.rs", "src/common/constant.rs"]
WL_OPTS = [None, [], ["a"], ["a", "b"]]
BL_OPTS = [None, [], ["b"]]


DEEP = [False]


class Route:
    def __init__(self):
        self.ty = "TableRoute"
        self.table = {}


def inject_bitflags(prog):
    """bitflags! { struct PrivilegeGroupFlags: u8 { const NAME = 0b...; } } -> constants PrivilegeGroupFlags::NAME"""
    src = open(os.path.join(REPO, "src/common/model/privilege.rs")).read()
    m = re.search(r"bitflags!\s*\{(.*?)\n\}\n", src, re.S)
    if not m:
        raise rsparse.Unsupported("bitflags! block of PrivilegeGroupFlags not found")
    found = 0
    for name, val in re.findall(r"const\s+(\w+)\s*=\s*(0b[01_]+|\d+)\s*;", m.group(1)):
        v = int(val.replace("_", ""), 2) if val.startswith("0b") else int(val)
        prog.consts["PrivilegeGroupFlags::" + name] = ("lit", v, "int")
        found += 1
    if found < 3:
        raise rsparse.Unsupported("PrivilegeGroupFlags constants not found")


def pick(it, var, options):
    for k, o in enumerate(options[:-1]):
        if it.branch(var == k):
            return o
    return options[-1]


def run(tier, seed):
    t0 = time.time()
    ob = {"engine": "smt", "harness": "s18_3_stored_privilege_reaches_the_session", "encodes_files": FILES, "queries": 0, "solver_s": 0.0, "distinct": 0,
          "encodes": ["UserManager::{add_user,update_user}", "UserDo::build_namespace_privilege", "From<UserDo> for UserDto", "PrivilegeGroup::{all,new,get_flags}",
                      "NamespacePrivilegeGroup::{new,check_permission}", "PrivilegeGroup::{check_permission,at_whitelist,at_blacklist}"],
          "bound": "create with parameters P, update with parameters Q: whitelist in %s, blacklist in %s (None = absent), the two is-all flags absent or arbitrary; "
                   "every namespace string" % (WL_OPTS, BL_OPTS)}
    try:
        prog = load_program(FILES)
        inject_bitflags(prog)
        it = rseval.Interp(prog)
        it.lenient = True
        it.fn_models["now_millis"] = lambda interp, args: 1_700_000_000_000
        it.fn_models["build_password_hash"] = lambda interp, args: Err("no password in the model")
        it.fn_models["HashSet::new"] = lambda interp, args: []
        it.fn_models["HashMap::new"] = lambda interp, args: {}
        it.fn_models["UserDo::from_bytes"] = lambda interp, args: Ok(copy.deepcopy(args[0]))
        it.models[("UserDo", "to_bytes")] = lambda interp, recv, args: copy.deepcopy(recv)
        it.models[(None, "bits")] = lambda interp, recv, args: recv
        # Option<collection>::unwrap_or_default(): the evaluator has no type for the default of None; every use in these functions is a collection (or a value nothing observes)
        it.models[(None, "unwrap_or_default")] = lambda interp, recv, args: (recv.payload[0] if recv.variant in ("Some", "Ok") else []) if isinstance(recv, Enum) else recv
        it.fn_models["UserRoleHelper::get_role"] = lambda interp, args: args[0]

        def get_leader_data(interp, recv, args):
            req = args[0]
            key = req.payload["key"] if isinstance(req, Enum) and isinstance(req.payload, dict) else req["key"] if isinstance(req, Struct) else None
            if key in recv.table:
                return Ok(Enum("TableManagerResult", "Value", [copy.deepcopy(recv.table[key])]))
            return Ok(Enum("TableManagerResult", "None", None))

        def request(interp, recv, args):
            req = args[0]
            # TableManagerReq is defined in src/raft/db/table.rs (not loaded): a struct-like variant of an unknown enum is a Struct named by the variant
            fields = req if (isinstance(req, Struct) and req.ty == "Set") else req.payload if (isinstance(req, Enum) and req.variant == "Set") else None
            if fields is not None:
                k = fields["key"]
                recv.table[bytes(k).decode() if isinstance(k, list) else k] = fields["value"]
            return Ok(Enum("TableManagerResult", "None", None))
        it.models[("TableRoute", "get_leader_data")] = get_leader_data
        it.models[("TableRoute", "request")] = request
        add_user = prog.methods[("UserManager", "add_user")]
        update_user = prog.methods[("UserManager", "update_user")]
        from_do = prog.trait_method("UserDto", "from", "UserDo") or prog.trait_method("UserDto", "from", "From")
        if from_do is None:
            raise rsparse.Unsupported("impl From<UserDo> for UserDto not found")
        v = {}
        for step in ("p", "q"):
            v[step] = {"wl": z3.BitVec(step + "_whitelist", 8), "bl": z3.BitVec(step + "_blacklist", 8),
                       "has_wa": z3.Bool(step + "_has_whitelist_is_all"), "wa": z3.Bool(step + "_whitelist_is_all"),
                       "has_ba": z3.Bool(step + "_has_blacklist_is_all"), "ba": z3.Bool(step + "_blacklist_is_all")}
        with_update = z3.Bool("with_update")
        ns = z3.String("namespace")

        def param(step):
            x = v[step]
            wl = pick(it, x["wl"], WL_OPTS)
            bl = pick(it, x["bl"], BL_OPTS)
            wa = Some(x["wa"]) if it.branch(x["has_wa"]) else NONE
            ba = Some(x["ba"]) if it.branch(x["has_ba"]) else NONE
            p = Struct("PrivilegeGroupOptionParam", {"whitelist_is_all": wa, "whitelist": Some(list(wl)) if wl is not None else NONE,
                                                     "blacklist_is_all": ba, "blacklist": Some(list(bl)) if bl is not None else NONE})
            return p, (wl, bl, wa, ba)

        def user_dto():
            return Struct("UserDto", {"username": "u1", "nickname": NONE, "password": NONE, "password_hash": NONE, "gmt_create": NONE, "gmt_modified": NONE,
                                      "enable": NONE, "roles": NONE, "extend_info": NONE, "namespace_privilege": NONE, "source": NONE})

        def thunk():
            route = Route()
            p, pref = param("p")
            r = it._invoke(add_user, [Some(route), NONE, user_dto(), Some(p)], self_ty="UserManager")
            if not (isinstance(r, Enum) and r.variant == "Ok"):
                return ("add-failed", None, None)
            ref = {"wa": True, "ba": False, "wl": pref[0], "bl": pref[1]}
            if pref[2] is not NONE:
                ref["wa"] = pref[2].payload[0]
            if pref[3] is not NONE:
                ref["ba"] = pref[3].payload[0]
            steps = [("add", pref)]
            if it.branch(with_update):
                q, qref = param("q")
                r = it._invoke(update_user, [Some(route), NONE, user_dto(), Some(q)], self_ty="UserManager")
                if not (isinstance(r, Enum) and r.variant == "Ok"):
                    return ("update-failed", None, None)
                if qref[0] is not None:
                    ref["wl"] = qref[0]
                if qref[1] is not None:
                    ref["bl"] = qref[1]
                if qref[2] is not NONE:
                    ref["wa"] = qref[2].payload[0]
                if qref[3] is not NONE:
                    ref["ba"] = qref[3].payload[0]
                steps.append(("update", qref))
            stored = route.table.get("u1")
            if stored is None:
                return ("not-stored", None, steps)
            dto = it._invoke(from_do, [copy.deepcopy(stored)], self_ty="UserDto")
            grp = dto["namespace_privilege"]
            if grp is NONE:
                sess = it.default_of_type("NamespacePrivilegeGroup")
            else:
                sess = it.call_fn("NamespacePrivilegeGroup::new", [grp.payload[0]]) if False else Struct("NamespacePrivilegeGroup", {"0": grp.payload[0]})
            inner = sess["0"]

            def lst(o):
                return sorted(o.payload[0]) if (isinstance(o, Enum) and o.variant == "Some") else []
            if DEEP[0]:
                got = it.call_method("NamespacePrivilegeGroup", "check_permission", sess, [ns])
                refgrp = Struct("NamespacePrivilegeGroup", {"0": Struct("PrivilegeGroup", {
                    "enabled": True, "whitelist_is_all": ref["wa"], "whitelist": Some(list(ref["wl"])) if ref["wl"] is not None else NONE,
                    "blacklist_is_all": ref["ba"], "blacklist": Some(list(ref["bl"])) if ref["bl"] is not None else NONE})})
                want = it.call_method("NamespacePrivilegeGroup", "check_permission", refgrp, [ns])
                differs = rseval.to_bool(got) != rseval.to_bool(want)
            else:
                # the same comparison through the closed form of check_permission (equal to the source by s18_1) on every namespace that can tell two such groups apart:
                # the list elements, the default namespace, one namespace outside every list
                got = None

                def perm(wa, wl, ba, bl, c):
                    c2 = "" if c in ("", "public") else c
                    return z3.And(z3.Or(rseval.to_bool(wa), z3.BoolVal(c2 in wl)), z3.Not(z3.Or(rseval.to_bool(ba), z3.BoolVal(c2 in bl))))
                differs = z3.Or(*[perm(inner["whitelist_is_all"], lst(inner["whitelist"]), inner["blacklist_is_all"], lst(inner["blacklist"]), c)
                                  != perm(ref["wa"], ref["wl"] or [], ref["ba"], ref["bl"] or [], c) for c in ("", "a", "b", "zz")])
            return ("ok", (got, differs, {"whitelist": lst(inner["whitelist"]), "blacklist": lst(inner["blacklist"]), "wa": inner["whitelist_is_all"], "ba": inner["blacklist_is_all"]}), steps)
        DEEP[0] = tier != "quick"
        paths = it.explore(thunk, max_paths=200000)
        s = z3.Solver()
        nq = 0
        viol = None
        covers = {"an update empties a non-empty whitelist": 0, "an update replaces a list": 0, "create only": 0}
        bad_status = {}
        for pc, rr, exc in paths:
            if exc is not None:
                viol = {"message": "panic in the user manager: %s" % exc, "tags": ["panic"], "model": {}}
                break
            status, gw, steps = rr
            if status != "ok":
                bad_status[status] = bad_status.get(status, 0) + 1
                continue
            if len(steps) == 1:
                covers["create only"] += 1
            else:
                if steps[0][1][0] and steps[1][1][0] == []:
                    covers["an update empties a non-empty whitelist"] += 1
                if steps[1][1][0] or steps[1][1][1]:
                    covers["an update replaces a list"] += 1
            got, differs, sessgrp = gw
            s.push()
            s.add(*pc)
            s.add(differs)
            nq += 1
            if s.check() == z3.sat:
                m = s.model()

                def show(st):
                    wl, bl, wa, ba = st
                    f = lambda o: None if o is NONE else bool(m.eval(rseval.to_bool(o.payload[0]), model_completion=True))
                    return {"whitelist": wl, "blacklist": bl, "whitelistIsAll": f(wa), "blacklistIsAll": f(ba)}
                sg = {"whitelist": sessgrp["whitelist"], "blacklist": sessgrp["blacklist"],
                      "whitelistIsAll": bool(m.eval(rseval.to_bool(sessgrp["wa"]), model_completion=True)), "blacklistIsAll": bool(m.eval(rseval.to_bool(sessgrp["ba"]), model_completion=True))}
                extra = ""
                model = {"steps": [(a, show(b)) for a, b in steps], "session_group": sg}
                if got is not None:
                    nsv = m.eval(ns, model_completion=True).as_string()
                    g = bool(m.eval(rseval.to_bool(got), model_completion=True))
                    extra = "; it %s namespace %r although the last request %s it" % ("may use" if g else "is refused", nsv, "refuses" if g else "grants")
                    model.update({"namespace": nsv, "session_allows": g})
                viol = {"message": "user created with %s%s: a new session gets the group %s, not what the last request says%s"
                                   % (show(steps[0][1]), (", then updated with %s" % show(steps[1][1])) if len(steps) > 1 else "", sg, extra),
                        "tags": ["stored-privilege-differs"], "model": model}
            s.pop()
            if viol:
                break
        ob["queries"] = nq + it.queries
        ob["solver_s"] = round(time.time() - t0, 1)
        ob["sample"] = {"paths_explored": len(paths), "covers": covers, "paths_not_reaching_the_session": bad_status, "opaque_symbols": sorted(it.opaque_seen)[:20]}
        missing = [c for c, k in covers.items() if k == 0]
        if viol:
            ob.update({"verdict": "violation", "message": viol["message"], "tags": viol["tags"], "counterexample": viol["model"]})
        elif missing or bad_status:
            ob.update({"verdict": "inconclusive", "message": "reachability witness never reached: %s %s" % (missing, bad_status)})
        else:
            ob.update({"verdict": "discharged", "distinct": nq})
    except rsparse.Unsupported as e:
        ob.update({"verdict": "inconclusive", "message": "encoder met source it cannot encode: %s" % e})
    return ob


if __name__ == "__main__":
    import sys
    ob = run(sys.argv[1] if len(sys.argv) > 1 else "quick", 0)
    print(ob["harness"], ob.get("verdict"), str(ob.get("message", ""))[:900], str(ob.get("counterexample"))[:900], ob.get("queries"), ob.get("solver_s"), str(ob.get("sample"))[:800])
