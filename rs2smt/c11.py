"""C11 / C12 / C13 at the level of one naming `Service` (src/naming/service.rs, src/naming/model.rs) and the real
`inner_mem_cache::TimeoutSet` (the dependency's source, read from the cargo registry as pinned by Cargo.lock).

Symbolic evaluation of the real source of Service::{update_instance, remove_instance, time_check,
update_instance_healthy_invalid, update_perpetual_instance_healthy_valid, do_refresh_process_range,
get_all_instances}, Instance::{get_short_key, is_enable_timeout, is_from_cluster}, TimeoutSet::{add, timeout}.

Scenario: every history of N operations on one service with two addresses. Instance flags (healthy, enabled, ephemeral,
from_grpc, origin node, update tag bits, from_sync) are symbolic Booleans; client ids and time stamps are chosen
symbolically from small concrete sets (map keys of the time-ordered sets must be concrete).

  C11: after every step instance_size == #instances, healthy_instance_size == #healthy instances,
       perpetual_host_set == keys of non-ephemeral instances, every key in a timeout set that still matters exists
  C12: get_all_instances(only_healthy, only_enable) = exactly the registered, not removed addresses that pass the two flags;
       an ephemeral instance is not removed by a different non-empty client id; a new registration carries the
       ip / port / ephemeral / enabled / weight it was registered with
  C13: with time-outs H < O and the clock on a grid around them: an instance under heartbeat supervision whose last beat is
       younger than H is never marked unhealthy by time_check, one older than H is; one younger than O is never removed,
       an unhealthy one older than O is; persistent, gRPC and cluster-origin instances are never touched by time_check
"""
import glob
import os
import time

import z3

from . import rseval, rsparse
from .common import REPO, concretize, native_histories
from .rseval import Struct, Enum, NONE, Some, Uninterp

FILES = ["src/naming/service.rs", "src/naming/model.rs"]
H_TIMEOUT, O_TIMEOUT = 15, 30
GRID = [5, 14, 16, 29, 31, 46, 62]
CLOSURE = [80, 100, 120]   # timer rounds of the silence closure behind the last grid point (62 + 15 < 80, 62 + 30 < 100)


def load():
    prog = rseval.Program()
    for f in FILES:
        prog.add_items(rsparse.parse_file(os.path.join(REPO, f)), f)
    ts = sorted(glob.glob(os.path.expanduser("~/.cargo/registry/src/*/inner-mem-cache-0.1.7/src/timeoutset.rs")))
    if not ts:
        raise rsparse.Unsupported("inner-mem-cache 0.1.7 source not found in the cargo registry")
    prog.add_items(rsparse.parse_file(ts[0]), "inner-mem-cache/timeoutset.rs")
    return prog


def new_service(it):
    def tset():
        return Struct("TimeoutSet", {"time_list": {}})
    return Struct("Service", {
        "service_name": "svc", "group_name": "g", "group_service": "g@@svc", "metadata": {}, "protect_threshold": 0.0, "last_modified_millis": 0,
        "namespace_id": "", "app_name": "", "check_sum": "", "last_empty_times": 0, "instance_size": 0, "healthy_instance_size": 0,
        "instances": {}, "instance_metadata_map": {}, "healthy_timeout_set": tset(), "unhealthy_timeout_set": tset(), "perpetual_host_set": [],
    })


def skey(port):
    return Struct("InstanceShortKey", {"ip": "1.1.1.1", "port": port})


class Sym:
    """fresh symbolic inputs per step"""

    def __init__(self, n):
        self.n = n
        self.b = {}

    def bool(self, i, name):
        return self.b.setdefault((i, name), z3.Bool("s%d_%s" % (i, name)))


def pick(it, var, options):
    """symbolic choice among concrete options (forks)"""
    for k, o in enumerate(options[:-1]):
        if it.branch(var == k):
            return o
    return options[-1]


def make_interp(prog):
    it = rseval.Interp(prog)
    it.lenient = True
    it.fn_models["now_millis"] = lambda interp, args: 0
    it.fn_models["LinkedList::new"] = lambda interp, args: []
    it.fn_models["BTreeMap::new"] = lambda interp, args: {}
    return it


def scenario(prog, nops, stats, mode, rich=False):
    """mode: 'book' (C11+C12 bookkeeping histories) or 'time' (C13 expiry histories)"""
    it = make_interp(prog)
    sy = Sym(nops)
    opv = [z3.BitVec("op%d" % i, 8) for i in range(nops)]
    portv = [z3.BitVec("port%d" % i, 8) for i in range(nops)]
    cidv = [z3.BitVec("cid%d" % i, 8) for i in range(nops)]
    timev = [z3.BitVec("time%d" % i, 8) for i in range(nops)]
    covers = stats.setdefault("covers", {})

    def cover(name):
        covers[name] = covers.get(name, 0) + 1

    def possible(cond):
        """is the (bad) condition satisfiable on the current path? no forking: on success the condition joins the path condition
        so that the model extracted later exhibits it"""
        if isinstance(cond, bool):
            return cond
        cond = z3.simplify(cond)
        if z3.is_false(cond):
            return False
        if it._feasible(cond):
            it.pc.append(cond)
            return True
        return False

    cids = [z3.String("client%d" % i) for i in range(nops)]
    for c in cids:
        it.solver.add(z3.Or(c == z3.StringVal(""), c == z3.StringVal("c1"), c == z3.StringVal("c2")))

    def mk_instance(i, port, t, local_owner=False):
        if mode == "time":
            # heartbeats are re-registrations by the same client with the same flags (flags of step 0)
            i = 0
        # from_cluster: 0 = this node, 2 = synced from node 2. Once the service is in this node's range (after a take-over) every non-gRPC
        # update reaches Service::update_instance with from_cluster = 0: NamingActor::update_instance clears it for in-range services
        fc = z3.If(sy.bool(i, "from_other_node"), z3.BitVecVal(2, 64), z3.BitVecVal(0, 64)) if (rich or mode == "time") else 0
        if local_owner and mode == "time":
            fc = z3.If(sy.bool(i, "from_grpc"), fc, z3.BitVecVal(0, 64))
        return _mk(i, port, t, fc)

    def _mk(i, port, t, fc):
        return Struct("Instance", {
            "id": "1.1.1.1#%d" % port, "ip": "1.1.1.1", "port": port, "weight": float(1 + i % 2),
            "enabled": sy.bool(i, "enabled"), "healthy": sy.bool(i, "healthy") if (mode == "book" or t == 0) else True, "ephemeral": sy.bool(i, "ephemeral"), "cluster_name": "DEFAULT",
            "service_name": "svc", "group_name": "g", "group_service": "g@@svc", "metadata": {}, "last_modified_millis": t, "register_time": t,
            "namespace_id": "", "app_name": "", "from_grpc": sy.bool(i, "from_grpc") if (rich or mode == "time") else False,
            "from_cluster": fc,
            "client_id": cids[i],
        })

    def check_invariants(svc, log):
        inst = svc["instances"]
        if svc["instance_size"] != len(inst):
            return "instance count reported for the service differs from the number of instances it holds"
        nh = z3.Sum([z3.If(rseval.to_bool(v["healthy"]), 1, 0) for v in inst.values()]) if inst else z3.IntVal(0)
        if possible(nh != svc["healthy_instance_size"]):
            return "healthy-instance count reported for the service differs from the number of healthy instances"
        pers = svc["perpetual_host_set"]
        for k, v in inst.items():
            e = rseval.to_bool(v["ephemeral"])
            inset = k in pers
            if possible(e if inset else z3.Not(e)):
                return "set of persistent instances differs from the non-ephemeral instances"
        for k in pers:
            if k not in inst:
                return "set of persistent instances names an instance that does not exist"
        if len(set(map(repr, pers))) != len(pers):
            return "an instance is listed twice in the set of persistent instances"
        return None

    ops_box = [[]]

    def snapshot(svc):
        return {"instance_size": svc["instance_size"], "healthy_instance_size": svc["healthy_instance_size"],
                "instances": {str(k["port"]): {"healthy": v["healthy"], "ephemeral": v["ephemeral"], "enabled": v["enabled"]} for k, v in svc["instances"].items()}}

    def thunk():
        r = thunk_inner()
        return (r, list(ops_box[0]))

    def thunk_inner():
        svc = new_service(it)
        log = []
        rec = ops_box[0] = []
        shadow = {}  # port -> last registered instance (reference registry)
        last_beat = {}
        overdue = {}
        taken_over = {}
        owner_ref = {}  # key -> (registered through a gRPC connection, owned by this node): what the registrations say, not what is stored
        clock = 0

        def do_tick(now_t):
            """one timer round at now_t with its oracle; returns a violation tuple or None"""
            before = {k: (v["healthy"], v) for k, v in svc["instances"].items()}
            h_time, o_time = now_t - H_TIMEOUT, now_t - O_TIMEOUT
            if o_time < 0:
                raise rseval.PathAbort()  # u64 casts of negative times are outside the scenario (the actor starts long after the epoch)
            rec.append({"op": "tick", "now": now_t})
            it.call_method("Service", "time_check", svc, [h_time, o_time])
            log.append(("tick", now_t))
            for k, (was_healthy, v) in before.items():
                age = now_t - v["last_modified_millis"]
                local = z3.BoolVal(True) if taken_over.get(k) else (rseval.to_bv(v["from_cluster"]) == 0)
                grpc = rseval.to_bool(v["from_grpc"])
                if k in owner_ref:
                    # an HTTP-side write to the address of a gRPC-connected instance leaves it gRPC-connected: the reference follows the registrations
                    grpc = owner_ref[k][0]
                    local = z3.BoolVal(True) if taken_over.get(k) else owner_ref[k][1]
                supervised = z3.simplify(z3.And(rseval.to_bool(v["ephemeral"]), z3.Not(grpc), local))
                if taken_over.get(k) and not z3.is_true(z3.simplify(rseval.to_bv(v["from_cluster"]) == 0)):
                    cover("tick over an instance taken over from another node")
                nowv = svc["instances"].get(k)
                sup = supervised if isinstance(supervised, bool) else (True if z3.is_true(supervised) else False if z3.is_false(supervised) else it.branch(supervised))
                if not sup:
                    if nowv is None:
                        return ("violation", "time_check removes an instance that is persistent, gRPC-connected or owned by another node", log, "unsupervised-expired")
                    if possible(rseval.to_bool(nowv["healthy"]) != rseval.to_bool(was_healthy)):
                        return ("violation", "time_check changes the health of an instance that is persistent, gRPC-connected or owned by another node", log, "unsupervised-expired")
                    continue
                wh = was_healthy if isinstance(was_healthy, bool) else it.branch(rseval.to_bool(was_healthy))
                if age < H_TIMEOUT:
                    if nowv is None:
                        return ("violation", "an instance whose last heartbeat is younger than the health time-out is removed", log, "expired-while-beating")
                    if wh:
                        if possible(z3.Not(rseval.to_bool(nowv["healthy"]))):
                            return ("violation", "an instance whose last heartbeat is younger than the health time-out is marked unhealthy", log, "expired-while-beating")
                    cover("beating instance survives a tick")
                if age > H_TIMEOUT and wh and nowv is not None:
                    if possible(rseval.to_bool(nowv["healthy"])):
                        return ("violation", "an instance silent for longer than the health time-out is still reported healthy after time_check", log, "silent-not-unhealthy")
                    cover("silent instance marked unhealthy")
                if age < O_TIMEOUT and nowv is None:
                    return ("violation", "an instance silent for less than the instance time-out is removed", log, "removed-too-early")
                if age > O_TIMEOUT and not wh and nowv is not None:
                    # removal is two-phase (the tick that finds it unhealthy queues it, the next one removes it): it must be gone
                    # at the second tick that sees it unhealthy and older than the instance time-out
                    if overdue.get(k):
                        return ("violation", "an unhealthy instance silent for longer than the instance time-out survives two consecutive time checks", log, "silent-not-removed")
                    overdue[k] = True
                if age > O_TIMEOUT and not wh and nowv is None:
                    cover("silent unhealthy instance removed")
            for k in list(shadow):
                if skey(k) not in svc["instances"]:
                    shadow.pop(k)
            for k in list(owner_ref):
                if k not in svc["instances"]:
                    owner_ref.pop(k)
            return None

        for i in range(nops):
            ops = ["register", "remove", "mark_invalid", "mark_valid", "refresh"] if mode == "book" else ["register", "tick", "takeover", "probe_failed", "http_touch"]
            op = pick(it, opv[i], ops) if not (mode == "time" and i == 0) else "register"
            port = (pick(it, portv[i], [1, 2]) if i > 0 else 1) if mode == "book" else 1
            key = skey(port)
            touch = False
            if op == "http_touch":
                # an HTTP-side write (beat, re-registration, console edit) for the address, handled by this node as the service's owner:
                # NamingActor::update_instance hands it over with from_cluster = 0 and an empty client id
                if key not in svc["instances"] or key not in owner_ref:
                    raise rseval.PathAbort()
                is_owner = z3.simplify(z3.Or(owner_ref[key][0], owner_ref[key][1], z3.BoolVal(bool(taken_over.get(key)))))
                if not (z3.is_true(is_owner) or it.branch(is_owner)):
                    raise rseval.PathAbort()
                op, touch = "register", True
                cover("HTTP-side write to a registered address")
            if op == "register":
                if mode == "time" and touch:
                    # at the current clock (timer rounds move the clock; this keeps the alphabet's branching small)
                    t = clock
                elif mode == "time":
                    # the first step registers at t = 0; later heartbeats arrive at grid times
                    t = pick(it, timev[i], GRID) if i > 0 else 0
                    if t < clock:
                        raise rseval.PathAbort()
                    clock = t
                else:
                    t = 10 * (i + 1)
                ins = mk_instance(i, port, t, local_owner=bool(taken_over))
                if touch:
                    ins = Struct("Instance", dict(ins, ephemeral=True, healthy=True, from_grpc=False, from_cluster=0, client_id=""))
                # the update tag is only consulted for an address that is already registered
                has_tag = (it.branch(sy.bool(i, "has_tag")) if key in svc["instances"] else False) if mode == "book" else False
                tag = NONE
                if has_tag:
                    if it.branch(sy.bool(i, "t_is_beat")):
                        # the tag of an HTTP heartbeat: nothing is to be updated
                        tag = Some(Struct("InstanceUpdateTag", {"weight": False, "metadata": False, "enabled": False, "ephemeral": False, "from_update": False}))
                    else:
                        tag = Some(Struct("InstanceUpdateTag", {"weight": sy.bool(i, "t_weight") if rich else True, "metadata": sy.bool(i, "t_meta") if rich else False,
                                                                "enabled": sy.bool(i, "t_enabled"), "ephemeral": sy.bool(i, "t_ephemeral"),
                                                                "from_update": sy.bool(i, "t_from_update") if rich else False}))
                old_stored = svc["instances"].get(key)
                from_sync = sy.bool(i, "from_sync") if (mode == "book" and rich) else False
                existed = key in svc["instances"]
                rec.append({"op": "register", "port": port, "t": t, "weight": ins["weight"], "enabled": ins["enabled"], "healthy": ins["healthy"], "ephemeral": ins["ephemeral"],
                            "from_grpc": ins["from_grpc"], "from_cluster": ins["from_cluster"], "client_id": ins["client_id"], "from_sync": from_sync,
                            "tag": dict(tag.payload[0]) if has_tag else None})
                r = it.call_method("Service", "update_instance", svc, [ins, tag, from_sync, NONE])
                log.append(("register", port, "t=%s" % t, "existed" if existed else "new"))
                now = svc["instances"].get(key)
                if now is None:
                    return ("violation", "a registered instance is not stored", log, "register-lost")
                if not existed:
                    cover("new registration")
                    # C12: a new registration carries what it was registered with
                    for f in ("ip", "port", "weight"):
                        if now[f] != ins[f]:
                            return ("violation", "a new registration does not carry the %s it was registered with" % f, log, "registration-field")
                    for f in ("ephemeral", "enabled"):
                        if possible(rseval.to_bool(now[f]) != rseval.to_bool(ins[f])):
                            return ("violation", "a new registration does not carry the %s flag it was registered with" % f, log, "registration-field")
                elif mode == "book":
                    # C12: an update changes exactly the fields its tag names (no tag: all of them; a heartbeat's all-false tag: none) - a disabled
                    # instance stays disabled, a weight set by the console stays, until an update that names the field
                    tg = tag.payload[0] if has_tag else None
                    for f in ("enabled", "ephemeral"):
                        want = rseval.to_bool(ins[f]) if tg is None else z3.If(rseval.to_bool(tg[f]), rseval.to_bool(ins[f]), rseval.to_bool(old_stored[f]))
                        if possible(rseval.to_bool(now[f]) != want):
                            return ("violation", "an update of a registered instance %s: the stored %s flag is not the %s one" % (
                                "without a tag" if tg is None else "with a tag", f, "requested" if tg is None else "one the tag selects (requested if named, else the stored)"), log, "update-field")
                    if tg is None or isinstance(tg["weight"], bool):
                        wantw = ins["weight"] if (tg is None or tg["weight"]) else old_stored["weight"]
                        if now["weight"] != wantw:
                            return ("violation", "an update of a registered instance: the stored weight is %s, the tag selects %s" % (now["weight"], wantw), log, "update-field")
                    if tg is not None and tg["enabled"] is False:
                        cover("heartbeat over a registered instance")
                if mode == "time":
                    ng, nl = rseval.to_bool(ins["from_grpc"]), rseval.to_bv(ins["from_cluster"]) == 0
                    if existed and key in owner_ref:
                        keep = z3.And(owner_ref[key][0], rseval.to_bool(ins["ephemeral"]), z3.Not(ng))
                        owner_ref[key] = (z3.simplify(z3.If(keep, owner_ref[key][0], ng)), z3.simplify(z3.If(keep, owner_ref[key][1], nl)))
                        if touch and not z3.is_false(z3.simplify(keep)):
                            cover("HTTP-side write to the address of a gRPC-connected instance")
                    else:
                        owner_ref[key] = (z3.simplify(ng), z3.simplify(nl))
                shadow[port] = now
                last_beat[port] = t
                overdue.pop(key, None)
            elif op == "remove":
                with_cid = it.branch(sy.bool(i, "remove_has_client_id"))
                cid = cids[i] if with_cid else None
                old = svc["instances"].get(key)
                rec.append({"op": "remove", "port": port, "client_id": cid})
                r = it.call_method("Service", "remove_instance", svc, [key, Some(cid) if cid is not None else NONE])
                log.append(("remove", port, "with client id" if with_cid else "without client id"))
                if old is not None:
                    foreign = z3.And(cid != z3.StringVal(""), rseval.to_str(old["client_id"]) != cid) if with_cid else z3.BoolVal(False)
                    eph = rseval.to_bool(old["ephemeral"])
                    still = key in svc["instances"]
                    if not still:
                        if possible(z3.And(foreign, eph)):
                            return ("violation", "an ephemeral instance is removed by a client that does not own it", log, "foreign-remove")
                        shadow.pop(port, None)
                    else:
                        if possible(z3.Not(z3.And(foreign, eph))):
                            return ("violation", "a deregistration by the owner (or without client id, or of a persistent instance) leaves the instance registered", log, "remove-ignored")
                        cover("foreign removal refused")
            elif op == "mark_invalid":
                rec.append({"op": "mark_invalid", "port": port})
                it.call_method("Service", "update_instance_healthy_invalid", svc, [key])
                log.append(("mark_invalid", port))
            elif op == "mark_valid":
                rec.append({"op": "mark_valid", "port": port})
                it.call_method("Service", "update_perpetual_instance_healthy_valid", svc, [key])
                log.append(("mark_valid", port))
            elif op == "refresh":
                rec.append({"op": "refresh"})
                it.call_method("Service", "do_refresh_process_range", svc, [])
                log.append(("refresh",))
            elif op == "probe_failed":
                # the TCP health probe of a persistent instance fails (NamingActor::update_perpetual_health -> Service::update_instance_healthy_invalid):
                # the instance becomes unhealthy - and its key enters the queue the heartbeat clock drains
                cur = svc["instances"].get(key)
                if cur is None or it.branch(rseval.to_bool(cur["ephemeral"])):
                    raise rseval.PathAbort()
                rec.append({"op": "mark_invalid", "port": port})
                it.call_method("Service", "update_instance_healthy_invalid", svc, [key])
                log.append(("probe_failed", port))
                cover("failed probe of a persistent instance")
            elif op == "takeover":
                # the service's key falls into this node's range after a cluster change (NamingActor::refresh_process_range): instances that
                # were owned by another node are this node's responsibility from now on
                rec.append({"op": "takeover"})
                it.call_method("Service", "do_refresh_process_range", svc, [])
                log.append(("takeover",))
                for k_ in svc["instances"]:
                    taken_over[k_] = True
                cover("takeover of a service")
            elif op == "tick":
                now_t = pick(it, timev[i], GRID)
                if now_t < clock:
                    raise rseval.PathAbort()
                clock = now_t
                bad = do_tick(now_t)
                if bad:
                    return bad
            if rec:
                rec[-1]["model_state"] = snapshot(svc)
            bad = check_invariants(svc, log)
            if bad:
                return ("violation", bad, log, "bookkeeping")
            # C12: the query returns exactly what is registered
            for only_h in (False,):
                for only_e in (False,):
                    got = it.call_method("Service", "get_all_instances", svc, [only_h, only_e])
                    got_ports = sorted(x["port"] for x in got)
                    for p_, v in shadow.items():
                        cur = svc["instances"][skey(p_)]
                        want = z3.simplify(z3.And(z3.Or(rseval.to_bool(cur["enabled"]), z3.BoolVal(not only_e)), z3.Or(rseval.to_bool(cur["healthy"]), z3.BoolVal(not only_h))))
                        present = p_ in got_ports
                        if possible(z3.Not(want) if present else want):
                            return ("violation", "instance query (healthy-only=%s, enabled-only=%s) %s a registered instance" % (only_h, only_e, "returns an excluded state of" if present else "misses"),
                                    log, "query-filter")
                    for p_ in got_ports:
                        if p_ not in shadow:
                            return ("violation", "instance query returns an address that is not registered", log, "query-foreign")
        if mode == "time":
            # silence closure: nobody beats any more, the timer keeps firing - at every later grid point and at CLOSURE. Every supervised instance must
            # go unhealthy and then away (the tick oracle says when); an instance whose timer entry was lost on the way shows here, whatever the length of the history
            for now_t in [g for g in GRID if g > clock] + CLOSURE:
                bad = do_tick(now_t)
                if bad:
                    return (bad[0], bad[1] + " [in the silence that follows the history: timer rounds at every later grid point]", bad[2], bad[3])
        return ("ok", None, log, None)
    paths = it.explore(thunk, max_paths=600000)
    stats["paths"] += len(paths)
    stats["queries"] += it.queries
    stats["opaque"] = sorted(it.opaque_seen)
    s = z3.Solver()
    for c in cids:
        s.add(z3.Or(c == z3.StringVal(""), c == z3.StringVal("c1"), c == z3.StringVal("c2")))
    ok_paths = []
    for pc, rr, exc in paths:
        if exc is not None:
            return {"message": "panic in service code: %s" % exc, "tags": ["panic"], "model": {}}
        r, ops = rr
        if r[0] == "violation":
            s.push()
            s.add(*pc)
            if s.check() == z3.sat:
                m = s.model()
                flags = {str(d): bool(m[d]) for d in m.decls() if z3.is_bool(m[d])}
                s.pop()
                return {"message": r[1], "tags": [r[3]], "model": {"history": [list(map(str, e)) for e in r[2]], "flags": flags}, "ops": concretize(ops, m)}
            s.pop()
        else:
            ok_paths.append((pc, ops))
    # translator validation material: sampled discharged paths with one model each
    import random
    rnd = random.Random(stats.get("seed", 0))
    hist = []
    for pc, ops in rnd.sample(ok_paths, min(stats.get("n_validate", 12), len(ok_paths))):
        s.push()
        s.add(*pc)
        if s.check() == z3.sat:
            hist.append({"ops": concretize(ops, s.model())})
        s.pop()
    stats["validate"] = hist
    return None


def filter_obligation(prog):
    """C12: the instance query filter on one stored instance with symbolic flags and symbolic query flags"""
    ob = {"engine": "smt", "harness": "s12_query_filter", "encodes": ["Service::get_all_instances (filter closure)"], "encodes_files": FILES,
          "bound": "one registered instance, enabled / healthy and the two query flags symbolic", "queries": 0, "solver_s": 0.0, "distinct": 0}
    try:
        it = make_interp(prog)
        en, he, oh, oe = z3.Bool("enabled"), z3.Bool("healthy"), z3.Bool("only_healthy"), z3.Bool("only_enable")

        def thunk():
            svc = new_service(it)
            svc["instances"][skey(1)] = Struct("Instance", {"enabled": en, "healthy": he, "port": 1, "ip": "1.1.1.1"})
            return len(it.call_method("Service", "get_all_instances", svc, [oh, oe]))
        paths = it.explore(thunk)
        s = z3.Solver()
        want = z3.And(z3.Or(en, z3.Not(oe)), z3.Or(he, z3.Not(oh)))
        bad = False
        for pc, r, exc in paths:
            if exc is not None:
                raise rsparse.Unsupported("panic: %s" % exc)
            s.push()
            s.add(*pc)
            s.add(want if r == 0 else z3.Not(want))
            ob["queries"] += 1
            if s.check() == z3.sat:
                m = s.model()
                ob.update({"verdict": "violation", "tags": ["query-filter"], "message": "instance query with healthy-only=%s enabled-only=%s %s an instance with enabled=%s healthy=%s"
                           % (m.eval(oh, model_completion=True), m.eval(oe, model_completion=True), "omits" if r == 0 else "returns", m.eval(en, model_completion=True), m.eval(he, model_completion=True)),
                           "counterexample": {"returned": r}})
                bad = True
            s.pop()
            if bad:
                break
        if not bad:
            ob.update({"verdict": "discharged", "distinct": len(paths)})
    except rsparse.Unsupported as e:
        ob.update({"verdict": "inconclusive", "message": "encoder met source it cannot encode: %s" % e})
    return ob


def run(tier, seed, which="C11"):
    t0 = time.time()
    info = {"files": FILES + ["inner-mem-cache-0.1.7/src/timeoutset.rs"], "solver": "z3 " + z3.get_version_string(), "cmd": "python3-vt -m lib.main %s (rs2smt/c11.py)" % which}
    obligations = []
    try:
        prog = load()
    except rsparse.Unsupported as e:
        return {"obligations": [{"engine": "smt", "harness": "s11_parse", "verdict": "inconclusive", "message": str(e)}], "info": info}
    enc = ["Service::{update_instance,remove_instance,time_check,update_instance_healthy_invalid,update_perpetual_instance_healthy_valid,do_refresh_process_range,get_all_instances}",
           "Instance::{get_short_key,is_enable_timeout,is_from_cluster}", "InstanceUpdateTag::is_none", "inner_mem_cache::TimeoutSet::{add,timeout,get_timeout_keys}"]
    plans = []
    if which in ("C11", "C12"):
        plans.append(("s11_bookkeeping" if which == "C11" else "s12_queries_and_ownership", "book", 3,
                      "every history of %d operations over {register/update, deregister, mark unhealthy, mark healthy, refresh range} on 2 addresses; healthy / ephemeral / enabled and the update-tag bits for enabled and ephemeral symbolic (thorough: also gRPC origin, other-node origin, from_sync and the remaining tag bits); client ids from {'', c1, c2}",
                      ["new registration", "foreign removal refused", "heartbeat over a registered instance"]))
    if which == "C13":
        plans.append(("s13_expiry", "time", 4 if tier == "quick" else 5,
                      "every history of %d steps over {register/heartbeat at t, time_check at t, take-over of the service after a cluster change, failed health probe of a persistent instance, HTTP-side write (beat / re-registration / console edit with from_cluster 0 and no client id) to the registered address on the owner node, at the time of the preceding step} with t on the grid " + str(GRID) + ", health time-out %d, instance time-out %d; instance flags symbolic" % (H_TIMEOUT, O_TIMEOUT),
                      ["beating instance survives a tick", "silent instance marked unhealthy", "silent unhealthy instance removed", "takeover of a service",
                       "tick over an instance taken over from another node", "failed probe of a persistent instance", "HTTP-side write to a registered address",
                       "HTTP-side write to the address of a gRPC-connected instance"]))
    extra_c13 = None
    if which == "C13":
        from . import c13actor
        extra_c13 = c13actor.run(tier, seed)
        if extra_c13.get("verdict") == "violation":
            from lib import native as _n
            pth = _n.write_replay("C13", "c13", "model", [], {"engine": "smt", "mode": "model-only", "obligation": extra_c13["harness"], "message": extra_c13["message"], "model": extra_c13.get("counterexample")})
            extra_c13["replay_path"] = pth
            extra_c13["replay"] = {"path": pth, "outcome": "model-only", "message": "history of heartbeats and timer ticks for the NamingActor (the native clock cannot be set)"}
    for name, mode, n, bound, need in plans:
        stats = {"paths": 0, "queries": 0, "seed": seed, "n_validate": 12 if tier == "quick" else 40}
        ob = {"engine": "smt", "harness": name, "encodes": enc, "encodes_files": FILES, "bound": bound % n if "%d" in bound else bound, "queries": 0, "solver_s": 0.0, "distinct": 0}
        try:
            ts = time.time()
            viol = scenario(prog, n, stats, mode, rich=(tier != "quick"))
            ob["solver_s"] = round(time.time() - ts, 1)
            ob["queries"] = stats["queries"]
            cov = {c: stats.get("covers", {}).get(c, 0) for c in need}
            ob["sample"] = {"paths_explored": stats["paths"], "opaque_symbols": stats.get("opaque", [])[:20], "covers": cov}
            missing = [c for c, k in cov.items() if k == 0]
            ob["_validate"] = stats.get("validate", [])
            if viol is not None:
                ob.update({"verdict": "violation", "message": viol["message"], "tags": viol["tags"], "counterexample": viol["model"], "_ops": viol.get("ops")})
            elif missing:
                ob.update({"verdict": "inconclusive", "message": "reachability witness never reached: %s" % missing})
            else:
                ob.update({"verdict": "discharged", "distinct": stats["paths"]})
        except rsparse.Unsupported as e:
            ob.update({"verdict": "inconclusive", "message": "encoder met source it cannot encode: %s" % e})
        obligations.append(ob)
    if which == "C12":
        obligations.append(filter_obligation(prog))
        from . import c12query
        qob = c12query.run(tier, seed)
        if qob.get("verdict") == "violation":
            from lib import native as _n
            pth = _n.write_replay("C12", "c12", "model", [], {"engine": "smt", "mode": "model-only", "obligation": qob["harness"], "message": qob["message"], "model": qob.get("counterexample")})
            qob["replay_path"] = pth
            qob["replay"] = {"path": pth, "outcome": "model-only", "message": "registered instances (enabled, healthy), protection threshold and query flag"}
        obligations.append(qob)
    actor_hist = []
    if which in ("C11", "C12"):
        from . import c11actor
        ob = c11actor.obligation(tier, seed, "s11_2_actor_reverse_map" if which == "C11" else "s12_2_actor_disconnect")
        actor_hist = ob.pop("_validate", [])
        obligations.append(ob)
    index_hist = []
    if which == "C11":
        from . import c11index
        iob = c11index.run(tier, seed)
        index_hist = iob.pop("_validate", [])
        obligations.append(iob)
    import os
    extra = {"h_timeout": H_TIMEOUT, "o_timeout": O_TIMEOUT}
    if not os.environ.get("VERIF_NO_NATIVE"):
        for ob in obligations:
            ops = ob.pop("_ops", None)
            if ob.get("verdict") == "violation" and ops:
                rr = native_histories(which, "c11index" if ob["harness"].startswith("s11_3") else "c11actor" if "actor" in ob["harness"] else "c11", "violation", [{"ops": ops}],
                                      dict(extra, obligation=ob["harness"], model=ob.get("counterexample")), ob["message"])
                ob["replay_path"] = rr["path"]
                ob["replay"] = {"path": rr["path"], "outcome": rr["outcome"], "message": rr["message"]}
                if rr["outcome"] != "reproduced":
                    ob.update({"verdict": "inconclusive", "message": "engine-S counterexample (%s) did not reproduce on the real naming::service::Service (%s %s)" % (ob["message"], rr["outcome"], rr["message"])})
                else:
                    ob["message"] = "%s [real code: %s]" % (ob["message"], rr["message"][:300])
            elif ob.get("verdict") == "violation":
                from lib import native
                path = native.write_replay(which, "c11", "model", [], {"engine": "smt", "mode": "model-only", "obligation": ob["harness"], "message": ob["message"], "model": ob.get("counterexample")})
                ob["replay_path"] = path
                ob["replay"] = {"path": path, "outcome": "model-only", "message": "no operation list for this obligation"}
        hist = [h for ob in obligations for h in ob.pop("_validate", [])]
        if hist:
            val = native_histories(which, "c11", "validate", hist, extra)
            info["translator_validation"] = val
            if val["outcome"] != "passed":
                obligations.append({"engine": "smt", "harness": "s11_translator_validation", "verdict": "inconclusive", "queries": 0, "solver_s": 0,
                                    "message": "the real Service and the encoding disagree on a sampled history: %s" % val["message"]})
        if actor_hist:
            val = native_histories(which, "c11actor", "validate", actor_hist, extra)
            info["translator_validation_actor"] = val
            if val["outcome"] != "passed":
                obligations.append({"engine": "smt", "harness": "s11_translator_validation_actor", "verdict": "inconclusive", "queries": 0, "solver_s": 0,
                                    "message": "the real NamingActor and the encoding disagree on a sampled history: %s" % val["message"]})
        if index_hist:
            val = native_histories(which, "c11index", "validate", index_hist, extra)
            info["translator_validation_index"] = val
            if val["outcome"] != "passed":
                obligations.append({"engine": "smt", "harness": "s11_translator_validation_index", "verdict": "inconclusive", "queries": 0, "solver_s": 0,
                                    "message": "the real NamingActor breaks an expectation the encoding discharged on a sampled history: %s" % val["message"]})
    for ob in obligations:
        ob.pop("_ops", None)
        ob.pop("_validate", None)
    if extra_c13 is not None:
        obligations.append(extra_c13)
    info["wall_s"] = round(time.time() - t0, 1)
    return {"obligations": obligations, "info": info}


if __name__ == "__main__":
    import sys
    r = run(sys.argv[2] if len(sys.argv) > 2 else "quick", 0, which=sys.argv[1] if len(sys.argv) > 1 else "C11")
    for ob in r["obligations"]:
        print(ob["harness"], ob.get("verdict"), str(ob.get("message", ""))[:400], str(ob.get("counterexample"))[:900], ob.get("queries"), ob.get("solver_s"), str(ob.get("sample"))[:400])
    print(r["info"])


def run_c13(tier, seed):
    """entry point for lib/selftest_mut.py"""
    return run(tier, seed, which="C13")
