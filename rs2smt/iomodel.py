"""Environment models for the byte-level raft store code evaluated by rs2smt:

* bytes are Python ints or 64-bit z3 terms whose value is < 256; byte strings are Python lists of them
  (concrete length; a symbolic integer that is varint-encoded forks on its size class, so the continuation
  bits of the produced bytes are concrete and readers do not fork on them);
* `quick_protobuf::Writer` / `BytesReader` primitives (the generated message code in
  src/raft/filestore/log.rs is evaluated from source on top of them);
* `tokio::fs::File` / `OpenOptions` as an in-memory file table with POSIX regular-file semantics
  (write at the handle offset extends the file, read is short only at EOF, open without truncate keeps the
  content, try_clone shares the offset), every call atomic and in program order;
* `id_to_bin` / `bin_to_id` (byteorder big endian; their agreement for all u64 is Kani harness k05_2).
"""
import z3

from . import rseval, rsparse
from .rseval import Struct, Enum, NONE, Some, Ok, Err, Uninterp, Unsupported

MASK64 = (1 << 64) - 1


def is_conc(b):
    return isinstance(b, int)


def byte_and(b, m):
    if is_conc(b):
        return b & m
    return z3.simplify(b & m)


def varint_bytes(interp, v):
    """protobuf varint of a u64 that is concrete or symbolic (forks on the size class)"""
    if isinstance(v, bool):
        v = int(v)
    if is_conc(v):
        out = []
        while v > 0x7f:
            out.append((v & 0x7f) | 0x80)
            v >>= 7
        out.append(v)
        return out
    if z3.is_bool(v):
        v = z3.If(v, z3.BitVecVal(1, 64), z3.BitVecVal(0, 64))
    n = 10
    for k in range(1, 10):
        if interp.branch(z3.ULT(v, z3.BitVecVal(1 << (7 * k), 64))):
            n = k
            break
    out = []
    for i in range(n):
        group = z3.simplify(z3.LShR(v, 7 * i) & 0x7f)
        out.append(z3.simplify(group | 0x80) if i + 1 < n else group)
    return out


def read_varint(interp, data, pos):
    """returns (value, new pos) or raises"""
    val = 0
    shift = 0
    i = pos
    while True:
        if i >= len(data):
            return None, i
        b = data[i]
        i += 1
        low = byte_and(b, 0x7f)
        if is_conc(val) and is_conc(low):
            val |= (low << shift) & MASK64
        else:
            val = z3.simplify(rseval.to_bv(val) | (rseval.to_bv(low) << shift))
        cont = byte_and(b, 0x80)
        if not is_conc(cont):
            c = z3.simplify(cont != 0)
            cont = 0x80 if (z3.is_true(c) or (not z3.is_false(c) and interp.branch(c))) else 0
        if cont == 0:
            return val, i
        shift += 7
        if shift > 63:
            return None, i


def concretize(interp, v, cap=8):
    """a symbolic integer is needed as a concrete number (a length read from left-over / misaligned bytes): fork over its
    feasible values (at most `cap`, otherwise the source is outside the encodable bound)"""
    if is_conc(v):
        return v
    v = z3.simplify(v)
    if z3.is_bv_value(v):
        return v.as_long()
    seen = []
    for _ in range(cap + 1):
        sol = interp.solver
        sol.push()
        for c in interp.pc:
            sol.add(c)
        for x in seen:
            sol.add(v != x)
        r = sol.check()
        cand = sol.model().eval(v, model_completion=True).as_long() if r == z3.sat else None
        sol.pop()
        interp.queries += 1
        if cand is None:
            raise rseval.PathAbort()
        if len(seen) >= cap:
            raise Unsupported("a length read from the file has more than %d feasible values" % cap)
        if interp.branch(v == cand):
            return cand
        seen.append(cand)
    raise Unsupported("concretisation failed")


def sizeof_varint(interp, v):
    if isinstance(v, bool):
        return 1
    if is_conc(v):
        n = 1
        while v > 0x7f:
            n += 1
            v >>= 7
        return n
    return len(varint_bytes(interp, v))


class PbWriter:
    def __init__(self, buf):
        self.ty = "PbWriter"
        self.buf = buf


class PbReader:
    def __init__(self, start, end):
        self.ty = "PbReader"
        self.start = start
        self.end = end


def pb_error():
    return Err(Uninterp("quick_protobuf::Error", []))


def install_protobuf(it, prog):
    it.fn_models["Writer::new"] = lambda interp, args: PbWriter(args[0])
    it.fn_models["sizeof_varint"] = lambda interp, args: sizeof_varint(interp, args[0])
    it.fn_models["sizeof_len"] = lambda interp, args: rseval.Interp.arith(interp, "+", sizeof_varint(interp, args[0]), args[0])

    def w_varint(interp, w, v):
        w.buf.extend(varint_bytes(interp, v))
        return Ok(())
    it.models[("PbWriter", "write_varint")] = lambda interp, recv, args: w_varint(interp, recv, args[0])
    it.models[("PbWriter", "write_uint64")] = lambda interp, recv, args: w_varint(interp, recv, args[0])
    it.models[("PbWriter", "write_uint32")] = lambda interp, recv, args: w_varint(interp, recv, args[0])
    it.models[("PbWriter", "write_bool")] = lambda interp, recv, args: w_varint(interp, recv, args[0])
    it.models[("PbWriter", "write_tag")] = lambda interp, recv, args: w_varint(interp, recv, args[0])

    def write_with_tag(interp, recv, args):
        w_varint(interp, recv, args[0])
        return interp.call_value(args[1], [recv])
    it.models[("PbWriter", "write_with_tag")] = write_with_tag

    def write_bytes(interp, recv, args):
        data = to_bytes(args[0])
        w_varint(interp, recv, len(data))
        recv.buf.extend(data)
        return Ok(())
    it.models[("PbWriter", "write_bytes")] = write_bytes
    it.models[("PbWriter", "write_string")] = write_bytes

    def write_message(interp, recv, args):
        msg = args[0]
        size = interp.method(msg, "get_size", [])
        if not is_conc(size):
            raise Unsupported("symbolic message size")
        w_varint(interp, recv, size)
        before = len(recv.buf)
        r = interp.method(msg, "write_message", [recv])
        if len(recv.buf) - before != size:
            interp.emit("size-mismatch", (size, len(recv.buf) - before))
        return r
    it.models[("PbWriter", "write_message")] = write_message

    def write_packed_with_tag(interp, recv, args):
        tag, items, fw, fs = args
        items = list(items)
        if not items:
            return Ok(())
        w_varint(interp, recv, tag)
        total = 0
        for x in items:
            total = rseval.Interp.arith(interp, "+", total, interp.call_value(fs, [x]))
        w_varint(interp, recv, total)
        for x in items:
            interp.call_value(fw, [recv, x])
        return Ok(())
    it.models[("PbWriter", "write_packed_with_tag")] = write_packed_with_tag

    # ---- reader
    it.fn_models["BytesReader::from_bytes"] = lambda interp, args: PbReader(0, len(args[0]))
    it.models[("PbReader", "is_eof")] = lambda interp, recv, args: recv.start >= recv.end
    it.models[("PbReader", "len")] = lambda interp, recv, args: recv.end - recv.start

    def r_varint(interp, recv, data):
        v, p = read_varint(interp, data[:recv.end], recv.start)
        if v is None:
            return None
        recv.start = p
        return v

    def next_tag(interp, recv, args):
        v = r_varint(interp, recv, args[0])
        if v is None:
            return pb_error()
        if not is_conc(v):
            # tags are written from constants: concretise
            v = z3.simplify(v)
            if z3.is_bv_value(v):
                v = v.as_long()
            # a symbolic tag (left-over / misaligned bytes): the generated match forks on its literal arms
        return Ok(v)
    it.models[("PbReader", "next_tag")] = next_tag

    def read_u64(interp, recv, args):
        v = r_varint(interp, recv, args[0])
        return pb_error() if v is None else Ok(v)
    it.models[("PbReader", "read_uint64")] = read_u64
    it.models[("PbReader", "read_uint32")] = read_u64
    it.models[("PbReader", "read_varint64")] = read_u64

    def read_bool(interp, recv, args):
        v = r_varint(interp, recv, args[0])
        if v is None:
            return pb_error()
        return Ok(v != 0 if is_conc(v) else z3.simplify(v != 0))
    it.models[("PbReader", "read_bool")] = read_bool

    def read_len_slice(interp, recv, data):
        n = r_varint(interp, recv, data)
        if n is None:
            return None
        if not is_conc(n):
            n = concretize(interp, n)
        if recv.start + n > recv.end:
            return None
        s = recv.start
        recv.start += n
        return (s, s + n)

    def read_bytes(interp, recv, args):
        r = read_len_slice(interp, recv, args[0])
        if r is None:
            return pb_error()
        return Ok(list(args[0][r[0]:r[1]]))
    it.models[("PbReader", "read_bytes")] = read_bytes

    def read_string(interp, recv, args):
        r = read_len_slice(interp, recv, args[0])
        if r is None:
            return pb_error()
        bs = args[0][r[0]:r[1]]
        if all(is_conc(b) for b in bs):
            return Ok(bytes(bs).decode("utf8", "replace"))
        return Ok(list(bs))
    it.models[("PbReader", "read_string")] = read_string

    def msg_type(interp):
        t = interp.call_type
        if not t:
            raise Unsupported("read_message without a known message type")
        t = t.replace(" ", "")
        return t.split("<")[0].split("::")[-1]

    def read_message(interp, recv, args):
        ty = msg_type(interp)
        data = args[0]
        r = read_len_slice(interp, recv, data)
        if r is None:
            return pb_error()
        sub = PbReader(r[0], r[1])
        fn = prog.trait_method(ty, "from_reader", "MessageRead")
        if fn is None:
            raise Unsupported("MessageRead for %s not found" % ty)
        return interp._invoke(fn, [sub, data], self_ty=ty)
    it.models[("PbReader", "read_message")] = read_message

    def read_packed(interp, recv, args):
        data, f = args
        r = read_len_slice(interp, recv, data)
        if r is None:
            return pb_error()
        sub = PbReader(r[0], r[1])
        out = []
        while sub.start < sub.end:
            x = interp.call_value(f, [sub, data])
            if isinstance(x, Enum) and x.variant == "Err":
                return x
            out.append(x.payload[0])
        return Ok(out)
    it.models[("PbReader", "read_packed")] = read_packed

    def read_unknown(interp, recv, args):
        # quick_protobuf::BytesReader::read_unknown: skip by wire type
        data, tag = args
        if not is_conc(tag):
            wt = 7
            for cand in (0, 1, 2, 5):
                if interp.branch(z3.simplify((rseval.to_bv(tag) & 7) == cand)):
                    wt = cand
                    break
        else:
            wt = tag & 7
        if wt == 0:
            v = r_varint(interp, recv, data)
            return pb_error() if v is None else Ok(())
        if wt == 1:
            n = 8
        elif wt == 5:
            n = 4
        elif wt == 2:
            r = read_len_slice(interp, recv, data)
            return pb_error() if r is None else Ok(())
        else:
            return pb_error()
        if recv.start + n > recv.end:
            return pb_error()
        recv.start += n
        return Ok(())
    it.models[("PbReader", "read_unknown")] = read_unknown

    # ---- fixed32 / float, int32, map entries (quick_protobuf 0.8 writer.rs / reader.rs)
    import struct as _struct

    def f32_bytes(v):
        if isinstance(v, (int, float)) and not isinstance(v, bool):
            return list(_struct.pack("<f", float(v)))
        bv = z3.fpToIEEEBV(v)   # not NaN: obligations assume it
        return [z3.simplify(z3.ZeroExt(56, z3.Extract(8 * i + 7, 8 * i, bv))) for i in range(4)]

    def write_float(interp, recv, args):
        recv.buf.extend(f32_bytes(args[0]))
        return Ok(())
    it.models[("PbWriter", "write_float")] = write_float

    def read_float(interp, recv, args):
        data = args[0]
        if recv.start + 4 > recv.end:
            return pb_error()
        bs = data[recv.start:recv.start + 4]
        recv.start += 4
        if all(is_conc(b) for b in bs):
            return Ok(_struct.unpack("<f", bytes(bs))[0])
        bv = z3.Concat(*[z3.Extract(7, 0, rseval.to_bv(b)) for b in reversed(bs)])
        return Ok(z3.simplify(z3.fpBVToFP(bv, z3.Float32())))
    it.models[("PbReader", "read_float")] = read_float

    def write_int32(interp, recv, args):
        v = args[0]
        if is_conc(v):
            v &= MASK64   # i32 as i64 as u64: sign extension (the evaluator keeps integers at 64 bits)
        return w_varint(interp, recv, v)
    it.models[("PbWriter", "write_int32")] = write_int32

    def read_int32(interp, recv, args):
        v = r_varint(interp, recv, args[0])
        if v is None:
            return pb_error()
        if is_conc(v):
            v &= 0xffffffff
            return Ok(v - (1 << 32) if v >= (1 << 31) else v)
        return Ok(z3.simplify(z3.SignExt(32, z3.Extract(31, 0, v))))
    it.models[("PbReader", "read_int32")] = read_int32

    def write_map(interp, recv, args):
        size, tag_k, fk, tag_v, fv = args
        w_varint(interp, recv, size)
        w_varint(interp, recv, tag_k)
        r = interp.call_value(fk, [recv])
        if isinstance(r, Enum) and r.variant == "Err":
            return r
        w_varint(interp, recv, tag_v)
        return interp.call_value(fv, [recv])
    it.models[("PbWriter", "write_map")] = write_map

    def read_map(interp, recv, args):
        data, fk, fv = args
        r = read_len_slice(interp, recv, data)
        if r is None:
            return pb_error()
        sub = PbReader(r[0], r[1])
        k, v = "", ""   # K::default(), V::default(): every map of the repository's messages is string -> string
        while sub.start < sub.end:
            t = data[sub.start]
            sub.start += 1
            if not is_conc(t):
                raise Unsupported("symbolic map-entry tag")
            if t >> 3 == 1:
                x = interp.call_value(fk, [sub, data])
            elif t >> 3 == 2:
                x = interp.call_value(fv, [sub, data])
            else:
                return pb_error()
            if isinstance(x, Enum) and x.variant == "Err":
                return x
            if t >> 3 == 1:
                k = x.payload[0]
            else:
                v = x.payload[0]
        return Ok((k, v))
    it.models[("PbReader", "read_map")] = read_map
    # Cow helpers used by the generated code / DTO conversions
    it.fn_models["Cow::Borrowed"] = lambda interp, args: args[0]
    it.fn_models["Cow::Owned"] = lambda interp, args: args[0]


def to_bytes(x):
    if isinstance(x, str):
        return list(x.encode())
    if isinstance(x, (list, tuple)):
        return list(x)
    raise Unsupported("bytes of %r" % (x,))


# ---------------------------------------------------------------------------------------------------
class Fs:
    def __init__(self):
        self.files = {}  # name -> list of bytes
        self.mutations = 0
        self.journal = None  # when a list: every mutating call is appended as (file, kind, pos_or_len, bytes)

    def snapshot(self):
        return {k: list(v) for k, v in self.files.items()}


class FileHandle:
    def __init__(self, fs, name, posbox=None):
        self.ty = "SimFile"
        self.fs = fs
        self.name = name
        self.posbox = posbox if posbox is not None else [0]

    @property
    def data(self):
        return self.fs.files[self.name]


class OpenOpts:
    def __init__(self):
        self.ty = "OpenOpts"
        self.flags = {}


def io_ok(v):
    return Ok(v)


def install_fs(it, fs):
    it.fn_models["OpenOptions::new"] = lambda interp, args: OpenOpts()
    for flag in ("read", "write", "create", "truncate", "append", "create_new"):
        it.models[("OpenOpts", flag)] = (lambda f: (lambda interp, recv, args: recv.flags.__setitem__(f, args[0]) or recv))(flag)

    def do_open(interp, recv, args):
        name = args[0]
        if not isinstance(name, str):
            raise Unsupported("symbolic path")
        if name in fs.files:
            if recv.flags.get("create_new"):
                return Err(Uninterp("io::AlreadyExists", []))
            if recv.flags.get("truncate"):
                fs.files[name] = []
        else:
            if not (recv.flags.get("create") or recv.flags.get("create_new")):
                return Err(Uninterp("io::NotFound", []))
            fs.files[name] = []
        h = FileHandle(fs, name)
        h.append = bool(recv.flags.get("append"))
        return io_ok(h)
    it.models[("OpenOpts", "open")] = do_open
    it.models[("SimFile", "metadata")] = lambda interp, recv, args: io_ok(Struct("Metadata", {"len": len(recv.data)}))
    it.models[("Metadata", "len")] = lambda interp, recv, args: recv["len"]
    it.models[("SimFile", "try_clone")] = lambda interp, recv, args: io_ok(FileHandle(recv.fs, recv.name, recv.posbox))
    it.models[("SimFile", "flush")] = lambda interp, recv, args: io_ok(())
    it.models[("SimFile", "sync_all")] = lambda interp, recv, args: io_ok(())

    def seek(interp, recv, args):
        a = args[0]
        if isinstance(a, Enum) and a.variant == "Start":
            p = a.payload[0]
        elif isinstance(a, Uninterp) and a.name.endswith("Start"):
            p = a.args[0]
        else:
            raise Unsupported("seek %r" % (a,))
        if not is_conc(p):
            p = concretize(interp, p)
        recv.posbox[0] = p
        return io_ok(p)
    it.models[("SimFile", "seek")] = seek
    it.fn_models["SeekFrom::Start"] = lambda interp, args: Enum("SeekFrom", "Start", [args[0]])

    def write_all(interp, recv, args):
        buf = to_bytes(args[0])
        fs.mutations += 1
        d = recv.data
        p = recv.posbox[0]
        if getattr(recv, "append", False):
            # O_APPEND: every write goes to the end of the file, whatever the seek position
            p = len(d)
        if fs.journal is not None:
            fs.journal.append((recv.name, "write", p, list(buf)))
        if p > len(d):
            d.extend([0] * (p - len(d)))
        d[p:p + len(buf)] = buf
        recv.posbox[0] = p + len(buf)
        return io_ok(())
    it.models[("SimFile", "write_all")] = write_all

    def set_len(interp, recv, args):
        n = args[0]
        if not is_conc(n):
            n = concretize(interp, n)
        d = recv.data
        fs.mutations += 1
        if fs.journal is not None:
            fs.journal.append((recv.name, "set_len", n, None))
        if n < len(d):
            del d[n:]
        else:
            d.extend([0] * (n - len(d)))
        return io_ok(())
    it.models[("SimFile", "set_len")] = set_len

    def read(interp, recv, args):
        buf = args[0]
        d = recv.data
        p = recv.posbox[0]
        n = max(0, min(len(buf), len(d) - p))
        for i in range(n):
            buf[i] = d[p + i]
        recv.posbox[0] = p + n
        return io_ok(n)
    it.models[("SimFile", "read")] = read

    def read_exact(interp, recv, args):
        buf = args[0]
        d = recv.data
        p = recv.posbox[0]
        if len(d) - p < len(buf):
            return Err(Uninterp("io::UnexpectedEof", []))
        for i in range(len(buf)):
            buf[i] = d[p + i]
        recv.posbox[0] = p + len(buf)
        return io_ok(len(buf))
    it.models[("SimFile", "read_exact")] = read_exact


def install_byte_utils(it):
    def id_to_bin(interp, args):
        v = args[0]
        if is_conc(v):
            return [(v >> (8 * (7 - i))) & 0xff for i in range(8)]
        return [z3.simplify(z3.LShR(v, 8 * (7 - i)) & 0xff) for i in range(8)]

    def bin_to_id(interp, args):
        b = args[0][:8]
        if len(b) < 8:
            raise rseval.RustPanic("range end index 8 out of range for slice")
        if all(is_conc(x) for x in b):
            v = 0
            for x in b:
                v = (v << 8) | x
            return v
        v = z3.BitVecVal(0, 64)
        for x in b:
            v = (v << 8) | rseval.to_bv(x)
        return z3.simplify(v)
    it.fn_models["id_to_bin"] = id_to_bin
    it.fn_models["bin_to_id"] = bin_to_id


# ---------------------------------------------------------------------------------------------------
# std::io::Cursor + binrw big-endian (de)serialisation of LogIndexHeaderDo (32 bytes, field order of the struct definition)
HEADER_FIELDS = [("magic", 4), ("version", 2), ("last_term", 8), ("first_index", 8), ("data_area_index", 2), ("index_interval", 2),
                 ("all_index_count", 2), ("status", 1), ("ext1", 1), ("ext2", 1), ("ext3", 1)]


class CursorObj:
    def __init__(self, data):
        self.ty = "Cursor"
        self.data = data
        self.pos = 0


def install_cursor(it, prog):
    st = prog.structs.get("LogIndexHeaderDo")
    if st is None or [f for f, _t in st] != [f for f, _n in HEADER_FIELDS]:
        raise Unsupported("LogIndexHeaderDo layout differs from the modelled binrw layout: %r" % (st,))
    widths = {"u8": 1, "u16": 2, "u32": 4, "u64": 8}
    for (f, ty), (_f2, n) in zip(st, HEADER_FIELDS):
        if widths.get(ty.strip()) != n:
            raise Unsupported("LogIndexHeaderDo field %s has type %s" % (f, ty))
    it.fn_models["Cursor::new"] = lambda interp, args: CursorObj(args[0])
    it.models[("Cursor", "set_position")] = lambda interp, recv, args: setattr(recv, "pos", args[0]) or ()
    it.models[("Cursor", "get_mut")] = lambda interp, recv, args: recv.data
    it.models[("Cursor", "get_ref")] = lambda interp, recv, args: recv.data

    def write_be(interp, recv, args):
        h = args[0]
        out = []
        for f, n in HEADER_FIELDS:
            v = h[f]
            for i in range(n):
                sh = 8 * (n - 1 - i)
                out.append((v >> sh) & 0xff if is_conc(v) else z3.simplify(z3.LShR(v, sh) & 0xff))
        recv.data[recv.pos:recv.pos + len(out)] = out
        recv.pos += len(out)
        return Ok(())
    it.models[("Cursor", "write_be")] = write_be

    def read_be(interp, recv, args):
        vals = {}
        p = recv.pos
        for f, n in HEADER_FIELDS:
            bs = recv.data[p:p + n]
            if len(bs) < n:
                return Err(Uninterp("binrw::Error", []))
            if all(is_conc(b) for b in bs):
                v = 0
                for b in bs:
                    v = (v << 8) | b
            else:
                v = z3.BitVecVal(0, 64)
                for b in bs:
                    v = (v << 8) | rseval.to_bv(b)
                v = z3.simplify(v)
            vals[f] = v
            p += n
        recv.pos = p
        return Ok(Struct("LogIndexHeaderDo", vals))
    it.models[("Cursor", "read_be")] = read_be


def replay_journal(image, journal, upto):
    """file image after the first `upto` mutating calls of the journal (crash model: process death, the OS survives; every
    call atomic and applied in program order)"""
    files = {k: list(v) for k, v in image.items()}
    for name, kind, a, data in journal[:upto]:
        d = files.setdefault(name, [])
        if kind == "write":
            if a > len(d):
                d.extend([0] * (a - len(d)))
            d[a:a + len(data)] = data
        else:
            if a < len(d):
                del d[a:]
            else:
                d.extend([0] * (a - len(d)))
    return files
