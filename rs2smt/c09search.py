"""C09 — "every stored configuration appears exactly once in tenant/group/dataId listings and searches": from the request
parameters of a listing to the listing.

OpenAPI: get_config (src/openapi/config/api.rs) is evaluated from source up to its call of do_search_config (a recording
sink): the `search` parameter selects ConfigWebParams::build_search_param (accurate) or build_like_search_param (blur);
console: OpsConfigQueryListRequest::to_param (src/console/model/config_model.rs). The ConfigQueryParam each of them builds is
handed to TenantIndex::query_config_page (config_index.rs, from source, with ConfigQueryParam::{match_group, match_data_id}
and StringUtils::{eq, like}) on an index built through the real insert_config.

Index (concrete; names nested in each other on purpose): tenant t1: g1/{db, dbx}, g1x/{db}; public tenant: g1/{db}.
Request: tenant one of {absent, "public", "t1"}; group and dataId each absent or an ARBITRARY string (symbolic); search
accurate / blur; paging absent (whole listing) or pageNo 2 / pageSize 1.
Oracle: accurate - exactly the keys of the tenant whose group equals the group parameter and whose dataId equals the dataId
parameter (an absent or empty parameter does not filter); blur / console - the parameter is contained in the name. Listed keys
are in index order, the total is their number, page 2 of size 1 is the second of them.
"""
import time

import z3

from . import rseval, rsparse
from .c09 import key
from .common import load_program, concretize
from .rseval import Struct, Enum, NONE, Some, Ok, Uninterp

FILES = ["src/openapi/config/api.rs", "src/console/model/config_model.rs", "src/config/config_index.rs", "src/config/core.rs", "src/config/mod.rs", "src/common/string_utils.rs",
         "src/common/model/privilege.rs", "src/namespace/mod.rs"]
KEYS = [("t1", "g1", "db"), ("t1", "g1", "dbx"), ("t1", "g1x", "db"), ("", "g1", "db")]
TENANTS = [None, "public", "t1"]


def sym_contains(interp, recv, args):
    a, b = recv, args[0]
    if isinstance(a, str) and isinstance(b, str):
        return Some(a.rfind(b)) if a.rfind(b) >= 0 else NONE
    c = z3.Contains(rseval.to_str(a), rseval.to_str(b))
    return Some(0) if interp.branch(c) else NONE


def run(tier, seed):
    t0 = time.time()
    ob = {"engine": "smt", "harness": "s09_6_search_parameters", "encodes_files": FILES,
          "encodes": ["openapi::config::api::get_config (up to do_search_config)", "ConfigWebParams::{build_search_param,build_like_search_param}", "OpsConfigQueryListRequest::to_param",
                      "TenantIndex::{insert_config,query_config_page}", "ConfigIndex::query_config_page", "ConfigQueryParam::{match_group,match_data_id}", "StringUtils::{eq,like}", "ConfigUtils::default_tenant"],
          "bound": "index of 4 keys (2 tenants, groups g1 / g1x, dataIds db / dbx); tenant parameter absent / public / t1; group and dataId parameters absent or arbitrary strings; "
                   "search accurate / blur (OpenAPI) and the console listing; no paging or page 2 of size 1",
          "queries": 0, "solver_s": 0.0, "distinct": 0}
    try:
        prog = load_program(FILES)
        it = rseval.Interp(prog)
        it.lenient = True
        it.models[(None, "rfind")] = sym_contains
        # every unwrap_or_default of the evaluated builders is on an Option<String>
        it.models[(None, "unwrap_or_default")] = lambda interp, recv, args: (recv.payload[0] if isinstance(recv, Enum) and recv.variant == "Some" else "")
        group_s, data_s = z3.String("group_param"), z3.String("data_id_param")
        has_g, has_d = z3.Bool("group_present"), z3.Bool("data_id_present")
        tv = z3.BitVec("tenant_choice", 8)
        paged = z3.Bool("page_2_of_size_1")
        entry = z3.BitVec("entry_point", 8)
        sink = []

        def do_search(interp, args):
            sink.append(args[0])
            return Struct("HttpResponse", {})
        it.fn_models["do_search_config"] = do_search
        group_all = Struct("NamespacePrivilegeGroup", {"0": Struct("PrivilegeGroup", {"enabled": True, "whitelist_is_all": True, "whitelist": NONE, "blacklist_is_all": False, "blacklist": NONE})})
        it.macro_models["user_namespace_privilege"] = lambda interp, args: group_all
        get_config = prog.fns.get("get_config")
        if get_config is None:
            raise rsparse.Unsupported("openapi::config::api::get_config not found")
        covers = {"accurate search with both filters lists one key": 0, "blur search lists a key whose name only contains the parameter": 0, "second page": 0}
        box = {}

        def pick(var, options):
            for k, o in enumerate(options[:-1]):
                if it.branch(var == k):
                    return o
            return options[-1]

        def thunk():
            del sink[:]
            ti = it.default_of_type("TenantIndex")
            for t, g, d in KEYS:
                it.call_method("TenantIndex", "insert_config", ti, [key(d, g, t)])
            tenant = pick(tv, TENANTS)
            g = Some(group_s) if it.branch(has_g) else NONE
            d = Some(data_s) if it.branch(has_d) else NONE
            pg = it.branch(paged)
            mode = pick(entry, ["accurate", "blur", "console"])
            if mode == "console":
                reqp = Struct("OpsConfigQueryListRequest", {"page_no": Some(2) if pg else NONE, "page_size": Some(1) if pg else NONE, "tenant": Some(tenant) if tenant is not None else NONE,
                                                            "group_param": g, "data_param": d, "group": NONE, "data_id": NONE})
                r = it.call_method("OpsConfigQueryListRequest", "to_param", reqp, ["http-request"])
                if not (isinstance(r, Enum) and r.variant == "Ok"):
                    return ("skip",)
                param = r.payload[0]
            else:
                web = Struct("ConfigWebParams", {"data_id": d, "group": g, "tenant": Some(tenant) if tenant is not None else NONE, "content": NONE, "desc": NONE, "type": NONE, "r#type": NONE,
                                                 "search": Some(mode), "page_no": Some(2) if pg else NONE, "page_size": Some(1) if pg else NONE})
                q = Struct("Query", dict(web))   # web::Query<T>: `.0` and, through Deref, the fields
                q["0"] = web
                it.models[("Query", "to_confirmed_param")] = lambda interp, recv, args: interp.call_method("ConfigWebParams", "to_confirmed_param", recv["0"], [])
                it._invoke(get_config, [q, "appdata"])
                if len(sink) != 1:
                    return ("violation", "a listing request with search=%s does not reach the listing" % mode, "search-not-dispatched", mode, tenant, pg, [], 0)
                param = sink[0]
            if isinstance(param, Struct) and isinstance(param.get("namespace_privilege"), Uninterp):
                param["namespace_privilege"] = group_all
            if isinstance(param, Struct) and not isinstance(param.get("namespace_privilege"), Struct):
                param["namespace_privilege"] = group_all
            total, page = it.call_method("TenantIndex", "query_config_page", ti, [param])
            got = [(k["tenant"], k["group"], k["data_id"]) for k in page]
            return ("ok", None, None, mode, tenant, pg, got, total)
        paths = it.explore(thunk, max_paths=100000)
        s = z3.Solver()
        viol = None
        nq = 0
        import os
        import random
        rnd = random.Random(seed)
        samples = []
        for pc, r, exc in paths:
            if exc is not None:
                viol = {"message": "panic while a listing request is served: %s" % exc, "tags": ["panic"], "model": {}}
                break
            if r[0] == "skip":
                continue
            if r[0] == "violation":
                viol = {"message": r[1], "tags": [r[2]], "model": {"search": r[3]}}
                break
            _, _, _, mode, tenant, pg, got, total = r
            want_t = "" if tenant in (None, "public") else tenant
            s.push()
            s.add(*pc)
            # which keys match, as formulas over the parameters
            conds = []
            for t, g, d in sorted(KEYS):
                if t != want_t:
                    conds.append(z3.BoolVal(False))
                    continue
                if mode == "accurate":
                    cg = z3.Or(z3.Not(has_g), group_s == "", group_s == g)
                    cd = z3.Or(z3.Not(has_d), data_s == "", data_s == d)
                else:
                    cg = z3.Or(z3.Not(has_g), group_s == "", z3.Contains(z3.StringVal(g), group_s))
                    cd = z3.Or(z3.Not(has_d), data_s == "", z3.Contains(z3.StringVal(d), data_s))
                conds.append(z3.And(cg, cd))
            # the path determines the listing; the listing must be the matching keys (whole) or the second of them (page 2 of 1)
            skeys = sorted(KEYS)
            if not pg:
                bad = z3.Or(*[(c if k not in got else z3.Not(c)) for k, c in zip(skeys, conds)])
                if got != [k for k in skeys if k in got] or len(set(got)) != len(got):
                    bad = z3.BoolVal(True)
                nmatch = z3.Sum([z3.If(c, 1, 0) for c in conds])
                bad = z3.Or(bad, nmatch != (total if isinstance(total, int) else -1))
            else:
                # second matching key
                alts = []
                for j, k in enumerate(skeys):
                    before = z3.Sum([z3.If(c, 1, 0) for c in conds[:j]]) if j else z3.IntVal(0)
                    alts.append(z3.And(conds[j], before == 1))
                if len(got) > 1:
                    bad = z3.BoolVal(True)
                elif len(got) == 1:
                    bad = z3.Not(alts[skeys.index(got[0])]) if got[0] in skeys else z3.BoolVal(True)
                else:
                    bad = z3.Or(*alts)
                nmatch = z3.Sum([z3.If(c, 1, 0) for c in conds])
                bad = z3.Or(bad, nmatch != (total if isinstance(total, int) else -1))
            s.add(bad)
            nq += 1
            if s.check() == z3.sat:
                m = s.model()
                gp = m.eval(group_s, model_completion=True).as_string() if z3.is_true(m.eval(has_g, model_completion=True)) else None
                dp = m.eval(data_s, model_completion=True).as_string() if z3.is_true(m.eval(has_d, model_completion=True)) else None
                exp = [k for k, c in zip(skeys, conds) if z3.is_true(m.eval(c, model_completion=True))]
                viol = {"message": "%s listing with tenant=%r group=%r dataId=%r%s returns %s (total %s); the store holds %s for these parameters"
                                   % ({"accurate": "search=accurate", "blur": "search=blur", "console": "console"}[mode], tenant, gp, dp, ", page 2 of size 1" if pg else "", got, total,
                                      (exp[1:2] if pg else exp)),
                        "tags": ["search-parameters-" + mode], "model": {"entry": mode, "tenant": tenant, "group": gp, "dataId": dp, "paged": pg, "listed": got, "total": str(total), "expected": exp, "keys": KEYS}}
            s.pop()
            if viol:
                break
            if rnd.random() < 0.15 and len(samples) < 24:
                s.push()
                s.add(*pc)
                if s.check() == z3.sat:
                    m = s.model()
                    samples.append({"entry": mode, "tenant": tenant, "paged": pg, "keys": KEYS,
                                    "group": m.eval(group_s, model_completion=True).as_string() if z3.is_true(m.eval(has_g, model_completion=True)) else None,
                                    "dataId": m.eval(data_s, model_completion=True).as_string() if z3.is_true(m.eval(has_d, model_completion=True)) else None,
                                    "expected": [k for k, c in zip(skeys, conds) if z3.is_true(m.eval(c, model_completion=True))]})
                s.pop()
            if mode == "accurate" and len(got) == 1 and not pg:
                covers["accurate search with both filters lists one key"] += 1
            if mode == "blur" and ("t1", "g1x", "db") in got:
                covers["blur search lists a key whose name only contains the parameter"] += 1
            if pg and got:
                covers["second page"] += 1
        ob["queries"] = nq + it.queries
        ob["solver_s"] = round(time.time() - t0, 1)
        ob["sample"] = {"paths_explored": len(paths), "covers": covers, "opaque_symbols": sorted(it.opaque_seen)[:20]}
        missing = [c for c, k in covers.items() if k == 0]
        if not os.environ.get("VERIF_NO_NATIVE"):
            from .common import native_histories
            if viol and viol["model"].get("keys"):
                rr = native_histories("C09", "search", "violation", [viol["model"]], {"obligation": ob["harness"], "model": viol["model"]}, viol["message"])
                ob["replay_path"] = rr["path"]
                ob["replay"] = {"path": rr["path"], "outcome": rr["outcome"], "message": rr["message"]}
                if rr["outcome"] == "reproduced":
                    viol["message"] = "%s [real parameter builder + TenantIndex: %s]" % (viol["message"], rr["message"][:300])
                else:
                    ob["replay"]["outcome"] = "model-only"
                    ob["replay"]["message"] = "the native twin calls the parameter builders directly (not the handler's dispatch) and does not show it: %s" % rr["message"][:200]
            elif not viol and not missing:
                val = native_histories("C09", "search", "validate", samples)
                ob["translator_validation"] = {"outcome": val["outcome"], "cases": len(samples), "message": val["message"], "path": val["path"]}
                if val["outcome"] != "passed" or not samples:
                    ob.update({"verdict": "inconclusive", "message": "translator validation: the real parameter builders / TenantIndex and the encoding disagree on a sampled request (%s)" % val["message"][:400]})
                    return ob
        if viol:
            ob.update({"verdict": "violation", "message": viol["message"], "tags": viol["tags"], "counterexample": viol["model"]})
        elif missing:
            ob.update({"verdict": "inconclusive", "message": "reachability witness never reached: %s" % missing})
        else:
            ob.update({"verdict": "discharged", "distinct": nq})
    except rsparse.Unsupported as e:
        ob.update({"verdict": "inconclusive", "message": "encoder met source it cannot encode: %s" % e})
    return ob


if __name__ == "__main__":
    import sys
    ob = run(sys.argv[1] if len(sys.argv) > 1 else "quick", 0)
    print(ob["harness"], ob.get("verdict"), str(ob.get("message", ""))[:900], str(ob.get("counterexample"))[:900], ob.get("queries"), ob.get("solver_s"), str(ob.get("sample"))[:800])
