#!/bin/bash
# offline set-up: vendored tokio shim, shadow packages, warm dependency builds (Kani + native)
set -e
cd "$(dirname "$(readlink -f "$0")")"
export CARGO_NET_OFFLINE=true
python3-vt - <<'PY'
import sys
sys.path.insert(0, '.')
from lib import shadow, native, kani_engine
shadow.ensure_tokio_shim()
shadow.make_shadow("kani")
shadow.make_shadow("native")
exe, err = native.build()
print("native replay binary:", exe)
if exe is None:
    print(err[-3000:])
    sys.exit(1)
res, info = kani_engine.run(["verif_harness::c20::proofs::k20_1a_size"], 300, jobs=1)
print("kani warm-up:", {k: v.status for k, v in res.items()}, info.get("wall_s"))
if info.get("compile_failed"):
    print(info.get("compile_errors"))
    sys.exit(1)
PY
