//! C01 (narrow) — snapshot file: what is written is what is read back, also when an earlier attempt left a
//! file under the same name. Anchors: /repo/src/raft/filestore/raftsnapshot.rs (SnapshotWriter,
//! SnapshotReader), model.rs (SnapshotRecordDto / SnapshotHeaderDto codecs).
#![allow(dead_code, unused_imports, clippy::all)]
use super::support::*;
use crate::raft::filestore::model::{SnapshotHeaderDto, SnapshotRecordDto};
use crate::raft::filestore::raftsnapshot::{SnapshotReader, SnapshotWriter};
use std::collections::HashMap;
use std::sync::Arc;

fn header(last_index: u64, last_term: u64) -> SnapshotHeaderDto {
    SnapshotHeaderDto {
        last_index,
        last_term,
        member: Vec::new(),
        member_after_consensus: Vec::new(),
        node_addrs: HashMap::new(),
    }
}

fn rec(tree: &Arc<String>, k: u8, v: u8) -> SnapshotRecordDto {
    SnapshotRecordDto { tree: tree.clone(), key: vec![k], value: vec![v], op_type: 0 }
}

/// K01.1: an earlier (interrupted, never catalogued) build left snapshot_<id> with a header and
/// `LEFT` records; the next build reuses the id and writes a header and one record. Reading the file
/// must return exactly that one record.
pub fn k01_1_snapshot<S: Src, const LEFT: usize>(s: &mut S) {
    let path = scratch("snap");
    let tree = Arc::new(String::from("t"));
    let li = s.u64();
    let lt = s.u64();
    s.assume(li < 128 && lt < 128);
    if LEFT > 0 {
        let mut w0 = run(SnapshotWriter::init(&path, header(li, lt))).unwrap();
        let mut i = 0;
        while i < LEFT {
            let (k, v) = (s.u8(), s.u8());
            run(w0.write_record(&rec(&tree, k, v))).unwrap();
            i += 1;
        }
        run(w0.flush()).unwrap();
        std::mem::forget(w0);
        s.tag("leftover-file-longer-than-new-snapshot");
    }
    let (k1, v1) = (s.u8(), s.u8());
    let li2 = s.u64();
    let lt2 = s.u64();
    s.assume(li2 < 128 && lt2 < 128);
    let mut w = run(SnapshotWriter::init(&path, header(li2, lt2))).unwrap();
    run(w.write_record(&rec(&tree, k1, v1))).unwrap();
    run(w.flush()).unwrap();
    std::mem::forget(w);

    let mut r = run(SnapshotReader::init(&path)).unwrap();
    vcheck!(s, r.get_header().last_index == li2, "snapshot header: last index read back differs");
    vcheck!(s, r.get_header().last_term == lt2, "snapshot header: last term read back differs");
    let first = run(r.read_record()).unwrap();
    match first {
        Some(d) => {
            vcheck!(s, d.key.len() == 1 && d.key[0] == k1, "snapshot record key read back differs");
            vcheck!(s, d.value.len() == 1 && d.value[0] == v1, "snapshot record value read back differs");
            std::mem::forget(d);
        }
        None => vcheck!(s, false, "snapshot record written but not read back"),
    }
    let second = run(r.read_record()).unwrap();
    vcover!(s, second.is_none(), "reader stops after the written record");
    vcheck!(s, second.is_none(), "snapshot reader returns a record that the snapshot build did not write");
    std::mem::forget(second);
    std::mem::forget(r);
}
pub fn k01_1_snapshot_fresh<S: Src>(s: &mut S) {
    k01_1_snapshot::<S, 0>(s)
}
pub fn k01_1_snapshot_leftover2<S: Src>(s: &mut S) {
    k01_1_snapshot::<S, 2>(s)
}

#[cfg(kani)]
fn scratch(name: &str) -> String {
    tokio::fs::simfs::reset(64);
    String::from(name)
}
#[cfg(not(kani))]
fn scratch(name: &str) -> String {
    let d = std::env::temp_dir().join(format!("verif-c01-{}-{}", std::process::id(), crate::now_millis()));
    std::fs::create_dir_all(&d).ok();
    d.join(name).to_string_lossy().into_owned()
}

#[cfg(kani)]
mod proofs {
    use super::*;
    fn rs_stub() -> std::hash::RandomState {
        unsafe { std::mem::transmute::<(u64, u64), std::hash::RandomState>((0, 0)) }
    }
    macro_rules! p {
        ($n:ident, $u:literal) => {
            #[kani::proof]
            #[kani::unwind($u)]
            #[kani::stub(std::backtrace::Backtrace::capture, bt_stub)]
            #[kani::stub(<anyhow::Error as std::ops::Drop>::drop, anyhow_drop_stub)]
            #[kani::stub(std::hash::RandomState::new, rs_stub)]
            fn $n() {
                super::$n(&mut KSrc)
            }
        };
    }
    p!(k01_1_snapshot_fresh, 12);
    p!(k01_1_snapshot_leftover2, 12);
}

#[cfg(not(kani))]
pub fn replay(name: &str, s: &mut RSrc) -> bool {
    match name {
        "k01_1_snapshot_fresh" => k01_1_snapshot_fresh(s),
        "k01_1_snapshot_leftover2" => k01_1_snapshot_leftover2(s),
        _ => return false,
    }
    true
}
